"""Independent minimal TLS 1.3 (RFC 8446) used as reference and as the key-holding
adversary.  Nothing in this package imports aioquic; only hashlib/hmac and the
`cryptography` primitives are used."""
