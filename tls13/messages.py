"""TLS 1.3 handshake message codecs (RFC 8446 section 4), written from the RFC.

Every message class has ``encode() -> bytes`` (4-byte handshake header included) and
``decode(bytes)``.  Extensions are kept as an ordered list of ``(type, raw_bytes)`` so
that unknown ones (e.g. QUIC transport parameters, 0x39) pass through unchanged; the
``ext_*`` / ``parse_*`` helpers build and read the payloads that the adversary needs.

Must not import aioquic.
"""
import struct

# handshake types
CLIENT_HELLO = 1
SERVER_HELLO = 2
NEW_SESSION_TICKET = 4
END_OF_EARLY_DATA = 5
ENCRYPTED_EXTENSIONS = 8
CERTIFICATE = 11
CERTIFICATE_REQUEST = 13
CERTIFICATE_VERIFY = 15
FINISHED = 20
KEY_UPDATE = 24
COMPRESSED_CERTIFICATE = 25  # RFC 8879
MESSAGE_HASH = 254

TYPE_NAMES = {
    CLIENT_HELLO: "ClientHello", SERVER_HELLO: "ServerHello", NEW_SESSION_TICKET: "NewSessionTicket",
    END_OF_EARLY_DATA: "EndOfEarlyData", ENCRYPTED_EXTENSIONS: "EncryptedExtensions",
    CERTIFICATE: "Certificate", CERTIFICATE_REQUEST: "CertificateRequest",
    CERTIFICATE_VERIFY: "CertificateVerify", FINISHED: "Finished", KEY_UPDATE: "KeyUpdate",
    COMPRESSED_CERTIFICATE: "CompressedCertificate", MESSAGE_HASH: "MessageHash",
}
ALL_TYPES = sorted(TYPE_NAMES)

# extension types
EXT_SERVER_NAME = 0
EXT_SUPPORTED_GROUPS = 10
EXT_SIGNATURE_ALGORITHMS = 13
EXT_ALPN = 16
EXT_PRE_SHARED_KEY = 41
EXT_EARLY_DATA = 42
EXT_SUPPORTED_VERSIONS = 43
EXT_COOKIE = 44
EXT_PSK_KEY_EXCHANGE_MODES = 45
EXT_KEY_SHARE = 51
EXT_QUIC_TRANSPORT_PARAMETERS = 0x39

# groups
SECP256R1 = 0x0017
SECP384R1 = 0x0018
X25519 = 0x001D
X448 = 0x001E

# signature schemes
ECDSA_SECP256R1_SHA256 = 0x0403
ECDSA_SECP384R1_SHA384 = 0x0503
RSA_PKCS1_SHA256 = 0x0401
RSA_PSS_RSAE_SHA256 = 0x0804
RSA_PSS_RSAE_SHA384 = 0x0805
ED25519 = 0x0807
ED448 = 0x0808

TLS12 = 0x0303
TLS13 = 0x0304


class DecodeError(Exception):
    pass


class Reader:
    def __init__(self, data):
        self.data = bytes(data)
        self.pos = 0

    def need(self, n):
        if self.pos + n > len(self.data):
            raise DecodeError("truncated")

    def u8(self):
        self.need(1)
        v = self.data[self.pos]
        self.pos += 1
        return v

    def u16(self):
        self.need(2)
        v = int.from_bytes(self.data[self.pos:self.pos + 2], "big")
        self.pos += 2
        return v

    def u24(self):
        self.need(3)
        v = int.from_bytes(self.data[self.pos:self.pos + 3], "big")
        self.pos += 3
        return v

    def u32(self):
        self.need(4)
        v = int.from_bytes(self.data[self.pos:self.pos + 4], "big")
        self.pos += 4
        return v

    def take(self, n):
        self.need(n)
        v = self.data[self.pos:self.pos + n]
        self.pos += n
        return v

    def vec(self, len_bytes):
        n = int.from_bytes(self.take(len_bytes), "big")
        return self.take(n)

    def sub(self, len_bytes):
        return Reader(self.vec(len_bytes))

    def eof(self):
        return self.pos == len(self.data)

    def end(self):
        if not self.eof():
            raise DecodeError("trailing bytes")


def vec(len_bytes, data):
    return len(data).to_bytes(len_bytes, "big") + bytes(data)


def handshake(msg_type, body):
    return bytes([msg_type]) + len(body).to_bytes(3, "big") + bytes(body)


def split_handshake(data):
    """Split a byte string into complete handshake messages. Returns (messages, rest)."""
    out = []
    pos = 0
    while len(data) - pos >= 4:
        n = 4 + int.from_bytes(data[pos + 1:pos + 4], "big")
        if len(data) - pos < n:
            break
        out.append(bytes(data[pos:pos + n]))
        pos += n
    return out, bytes(data[pos:])


def body_of(message, expected_type):
    r = Reader(message)
    t = r.u8()
    if t != expected_type:
        raise DecodeError("handshake type %d, expected %d" % (t, expected_type))
    body = r.vec(3)
    r.end()
    return Reader(body)


def encode_extensions(exts):
    return vec(2, b"".join(struct.pack("!H", t) + vec(2, d) for t, d in exts))


def decode_extensions(r):
    exts = []
    er = r.sub(2)
    while not er.eof():
        t = er.u16()
        exts.append((t, er.vec(2)))
    return exts


def get_ext(exts, ext_type):
    for t, d in exts:
        if t == ext_type:
            return d
    return None


# ---------------------------------------------------------------- extension payloads
def ext_supported_versions_client(versions):
    return vec(1, b"".join(struct.pack("!H", v) for v in versions))


def parse_supported_versions_client(data):
    r = Reader(data)
    lr = r.sub(1)
    r.end()
    out = []
    while not lr.eof():
        out.append(lr.u16())
    return out


def ext_supported_versions_server(version):
    return struct.pack("!H", version)


def ext_u16_list(values):
    return vec(2, b"".join(struct.pack("!H", v) for v in values))


def parse_u16_list(data):
    r = Reader(data)
    lr = r.sub(2)
    r.end()
    out = []
    while not lr.eof():
        out.append(lr.u16())
    return out


ext_signature_algorithms = ext_u16_list
parse_signature_algorithms = parse_u16_list
ext_supported_groups = ext_u16_list
parse_supported_groups = parse_u16_list


def ext_key_share_client(shares):
    return vec(2, b"".join(struct.pack("!H", g) + vec(2, k) for g, k in shares))


def parse_key_share_client(data):
    r = Reader(data)
    lr = r.sub(2)
    r.end()
    out = []
    while not lr.eof():
        g = lr.u16()
        out.append((g, lr.vec(2)))
    return out


def ext_key_share_server(group, key):
    return struct.pack("!H", group) + vec(2, key)


def parse_key_share_server(data):
    r = Reader(data)
    g = r.u16()
    k = r.vec(2)
    r.end()
    return g, k


def ext_server_name(host):
    return vec(2, b"\x00" + vec(2, host.encode("ascii")))


def parse_server_name(data):
    r = Reader(data)
    lr = r.sub(2)
    r.end()
    while not lr.eof():
        t = lr.u8()
        name = lr.vec(2)
        if t == 0:
            return name.decode("ascii")
    return None


def ext_alpn(protocols):
    return vec(2, b"".join(vec(1, p.encode("ascii") if isinstance(p, str) else p) for p in protocols))


def parse_alpn(data):
    r = Reader(data)
    lr = r.sub(2)
    r.end()
    out = []
    while not lr.eof():
        out.append(lr.vec(1))
    return out


def ext_psk_key_exchange_modes(modes):
    return vec(1, bytes(modes))


def parse_psk_key_exchange_modes(data):
    r = Reader(data)
    v = r.vec(1)
    r.end()
    return list(v)


def ext_pre_shared_key_client(identities, binders):
    """identities: [(identity bytes, obfuscated_ticket_age)], binders: [bytes]"""
    ids = b"".join(vec(2, i) + struct.pack("!I", age) for i, age in identities)
    bs = b"".join(vec(1, b) for b in binders)
    return vec(2, ids) + vec(2, bs)


def parse_pre_shared_key_client(data):
    r = Reader(data)
    ir = r.sub(2)
    identities = []
    while not ir.eof():
        ident = ir.vec(2)
        identities.append((ident, ir.u32()))
    br = r.sub(2)
    binders = []
    while not br.eof():
        binders.append(br.vec(1))
    r.end()
    return identities, binders


def binders_length(binders):
    """length of the encoded binders list including its 2-byte length prefix"""
    return 2 + sum(1 + len(b) for b in binders)


def ext_pre_shared_key_server(selected_identity):
    return struct.pack("!H", selected_identity)


def ext_early_data_ticket(max_early_data_size):
    return struct.pack("!I", max_early_data_size)


# ---------------------------------------------------------------- messages
class ClientHello:
    TYPE = CLIENT_HELLO

    def __init__(self, random, cipher_suites, extensions, legacy_session_id=b"", legacy_version=TLS12,
                 compression_methods=b"\x00"):
        self.legacy_version = legacy_version
        self.random = random
        self.legacy_session_id = legacy_session_id
        self.cipher_suites = list(cipher_suites)
        self.compression_methods = bytes(compression_methods)
        self.extensions = list(extensions)

    def encode(self):
        body = struct.pack("!H", self.legacy_version) + self.random + vec(1, self.legacy_session_id)
        body += vec(2, b"".join(struct.pack("!H", c) for c in self.cipher_suites))
        body += vec(1, self.compression_methods)
        body += encode_extensions(self.extensions)
        return handshake(CLIENT_HELLO, body)

    @classmethod
    def decode(cls, message):
        r = body_of(message, CLIENT_HELLO)
        version = r.u16()
        random = r.take(32)
        sid = r.vec(1)
        cr = r.sub(2)
        suites = []
        while not cr.eof():
            suites.append(cr.u16())
        comp = r.vec(1)
        exts = decode_extensions(r)
        r.end()
        return cls(random, suites, exts, sid, version, comp)

    def ext(self, ext_type):
        return get_ext(self.extensions, ext_type)

    def key_shares(self):
        d = self.ext(EXT_KEY_SHARE)
        return parse_key_share_client(d) if d is not None else []

    def signature_algorithms(self):
        d = self.ext(EXT_SIGNATURE_ALGORITHMS)
        return parse_signature_algorithms(d) if d is not None else []

    def offered_psks(self):
        d = self.ext(EXT_PRE_SHARED_KEY)
        return parse_pre_shared_key_client(d) if d is not None else None

    def truncated(self):
        """ClientHello up to but excluding the binders list (RFC 8446 4.2.11.2); requires
        pre_shared_key to be the last extension."""
        if not self.extensions or self.extensions[-1][0] != EXT_PRE_SHARED_KEY:
            raise DecodeError("pre_shared_key is not the last extension")
        _, binders = parse_pre_shared_key_client(self.extensions[-1][1])
        enc = self.encode()
        return enc[:len(enc) - binders_length(binders)]


class ServerHello:
    TYPE = SERVER_HELLO

    def __init__(self, random, cipher_suite, extensions, legacy_session_id_echo=b"", legacy_version=TLS12,
                 compression_method=0):
        self.legacy_version = legacy_version
        self.random = random
        self.legacy_session_id_echo = legacy_session_id_echo
        self.cipher_suite = cipher_suite
        self.compression_method = compression_method
        self.extensions = list(extensions)

    def encode(self):
        body = struct.pack("!H", self.legacy_version) + self.random + vec(1, self.legacy_session_id_echo)
        body += struct.pack("!HB", self.cipher_suite, self.compression_method)
        body += encode_extensions(self.extensions)
        return handshake(SERVER_HELLO, body)

    @classmethod
    def decode(cls, message):
        r = body_of(message, SERVER_HELLO)
        version = r.u16()
        random = r.take(32)
        sid = r.vec(1)
        suite = r.u16()
        comp = r.u8()
        exts = decode_extensions(r)
        r.end()
        return cls(random, suite, exts, sid, version, comp)

    def ext(self, ext_type):
        return get_ext(self.extensions, ext_type)

    def key_share(self):
        d = self.ext(EXT_KEY_SHARE)
        return parse_key_share_server(d) if d is not None else None

    def selected_psk(self):
        d = self.ext(EXT_PRE_SHARED_KEY)
        return int.from_bytes(d, "big") if d is not None else None


class EncryptedExtensions:
    TYPE = ENCRYPTED_EXTENSIONS

    def __init__(self, extensions=()):
        self.extensions = list(extensions)

    def encode(self):
        return handshake(ENCRYPTED_EXTENSIONS, encode_extensions(self.extensions))

    @classmethod
    def decode(cls, message):
        r = body_of(message, ENCRYPTED_EXTENSIONS)
        exts = decode_extensions(r)
        r.end()
        return cls(exts)


class CertificateRequest:
    TYPE = CERTIFICATE_REQUEST

    def __init__(self, context=b"", extensions=()):
        self.context = context
        self.extensions = list(extensions)

    def encode(self):
        return handshake(CERTIFICATE_REQUEST, vec(1, self.context) + encode_extensions(self.extensions))

    @classmethod
    def decode(cls, message):
        r = body_of(message, CERTIFICATE_REQUEST)
        ctx = r.vec(1)
        exts = decode_extensions(r)
        r.end()
        return cls(ctx, exts)

    def signature_algorithms(self):
        d = get_ext(self.extensions, EXT_SIGNATURE_ALGORITHMS)
        return parse_signature_algorithms(d) if d is not None else []


class Certificate:
    TYPE = CERTIFICATE

    def __init__(self, entries=(), context=b""):
        """entries: [(DER certificate, raw extensions bytes without length prefix)]"""
        self.context = context
        self.entries = [(bytes(c), bytes(e)) for c, e in entries]

    def encode(self):
        lst = b"".join(vec(3, c) + vec(2, e) for c, e in self.entries)
        return handshake(CERTIFICATE, vec(1, self.context) + vec(3, lst))

    @classmethod
    def decode(cls, message):
        r = body_of(message, CERTIFICATE)
        ctx = r.vec(1)
        lr = r.sub(3)
        r.end()
        entries = []
        while not lr.eof():
            c = lr.vec(3)
            entries.append((c, lr.vec(2)))
        return cls(entries, ctx)


class CertificateVerify:
    TYPE = CERTIFICATE_VERIFY

    def __init__(self, algorithm, signature):
        self.algorithm = algorithm
        self.signature = signature

    def encode(self):
        return handshake(CERTIFICATE_VERIFY, struct.pack("!H", self.algorithm) + vec(2, self.signature))

    @classmethod
    def decode(cls, message):
        r = body_of(message, CERTIFICATE_VERIFY)
        alg = r.u16()
        sig = r.vec(2)
        r.end()
        return cls(alg, sig)


class Finished:
    TYPE = FINISHED

    def __init__(self, verify_data):
        self.verify_data = verify_data

    def encode(self):
        return handshake(FINISHED, self.verify_data)

    @classmethod
    def decode(cls, message):
        r = body_of(message, FINISHED)
        return cls(r.data)


class NewSessionTicket:
    TYPE = NEW_SESSION_TICKET

    def __init__(self, lifetime, age_add, nonce, ticket, extensions=()):
        self.lifetime = lifetime
        self.age_add = age_add
        self.nonce = nonce
        self.ticket = ticket
        self.extensions = list(extensions)

    def encode(self):
        body = struct.pack("!II", self.lifetime, self.age_add) + vec(1, self.nonce) + vec(2, self.ticket)
        return handshake(NEW_SESSION_TICKET, body + encode_extensions(self.extensions))

    @classmethod
    def decode(cls, message):
        r = body_of(message, NEW_SESSION_TICKET)
        lifetime = r.u32()
        age_add = r.u32()
        nonce = r.vec(1)
        ticket = r.vec(2)
        exts = decode_extensions(r)
        r.end()
        return cls(lifetime, age_add, nonce, ticket, exts)

    def max_early_data_size(self):
        d = get_ext(self.extensions, EXT_EARLY_DATA)
        return int.from_bytes(d, "big") if d is not None else None


class KeyUpdate:
    TYPE = KEY_UPDATE

    def __init__(self, request_update=0):
        self.request_update = request_update

    def encode(self):
        return handshake(KEY_UPDATE, bytes([self.request_update]))

    @classmethod
    def decode(cls, message):
        r = body_of(message, KEY_UPDATE)
        v = r.u8()
        r.end()
        return cls(v)


class EndOfEarlyData:
    TYPE = END_OF_EARLY_DATA

    def encode(self):
        return handshake(END_OF_EARLY_DATA, b"")

    @classmethod
    def decode(cls, message):
        body_of(message, END_OF_EARLY_DATA).end()
        return cls()


class CompressedCertificate:
    """RFC 8879 (never negotiated here; only used as an always-illegal message type)."""
    TYPE = COMPRESSED_CERTIFICATE

    def __init__(self, algorithm, uncompressed_length, compressed):
        self.algorithm = algorithm
        self.uncompressed_length = uncompressed_length
        self.compressed = compressed

    def encode(self):
        return handshake(COMPRESSED_CERTIFICATE, struct.pack("!H", self.algorithm)
                         + self.uncompressed_length.to_bytes(3, "big") + vec(3, self.compressed))

    @classmethod
    def decode(cls, message):
        r = body_of(message, COMPRESSED_CERTIFICATE)
        alg = r.u16()
        n = r.u24()
        c = r.vec(3)
        r.end()
        return cls(alg, n, c)


class MessageHash:
    """Synthetic message of 4.4.1 (only ever exists inside a transcript, never on the wire)."""
    TYPE = MESSAGE_HASH

    def __init__(self, digest):
        self.digest = digest

    def encode(self):
        return handshake(MESSAGE_HASH, self.digest)

    @classmethod
    def decode(cls, message):
        return cls(body_of(message, MESSAGE_HASH).data)


CLASSES = {c.TYPE: c for c in (ClientHello, ServerHello, EncryptedExtensions, CertificateRequest, Certificate,
                               CertificateVerify, Finished, NewSessionTicket, KeyUpdate, EndOfEarlyData,
                               CompressedCertificate, MessageHash)}


def decode(message):
    if not message:
        raise DecodeError("empty")
    cls = CLASSES.get(message[0])
    if cls is None:
        raise DecodeError("unknown handshake type %d" % message[0])
    return cls.decode(message)
