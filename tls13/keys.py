"""TLS 1.3 key schedule (RFC 8446 section 7.1), transcript hash (4.4.1), Finished (4.4.4),
CertificateVerify input (4.4.3), PSK binder (4.2.11.2) and ticket PSK (4.6.1).

Written from the RFC on hashlib/hmac only; must not import aioquic.
"""
import hashlib
import hmac

TLS_AES_128_GCM_SHA256 = 0x1301
TLS_AES_256_GCM_SHA384 = 0x1302
TLS_CHACHA20_POLY1305_SHA256 = 0x1303

SUITE_HASH = {
    TLS_AES_128_GCM_SHA256: "sha256",
    TLS_AES_256_GCM_SHA384: "sha384",
    TLS_CHACHA20_POLY1305_SHA256: "sha256",
}

SERVER_CV_CONTEXT = b"TLS 1.3, server CertificateVerify"
CLIENT_CV_CONTEXT = b"TLS 1.3, client CertificateVerify"


def hash_len(hash_name):
    return hashlib.new(hash_name).digest_size


def hkdf_extract(hash_name, salt, ikm):
    if not salt:
        salt = bytes(hash_len(hash_name))
    return hmac.new(salt, ikm, hash_name).digest()


def hkdf_expand(hash_name, prk, info, length):
    out = b""
    block = b""
    counter = 1
    while len(out) < length:
        block = hmac.new(prk, block + info + bytes([counter]), hash_name).digest()
        out += block
        counter += 1
    return out[:length]


def hkdf_expand_label(hash_name, secret, label, context, length):
    full = b"tls13 " + label
    info = length.to_bytes(2, "big") + bytes([len(full)]) + full + bytes([len(context)]) + context
    return hkdf_expand(hash_name, secret, info, length)


class Transcript:
    """Ordered list of handshake messages (header included) with their running hash."""

    def __init__(self, hash_name, messages=()):
        self.hash_name = hash_name
        self.messages = []
        self._h = hashlib.new(hash_name)
        for m in messages:
            self.add(m)

    def add(self, message):
        message = bytes(message)
        self.messages.append(message)
        self._h.update(message)

    def digest(self):
        return self._h.copy().digest()

    def digest_with(self, extra):
        h = self._h.copy()
        h.update(extra)
        return h.digest()

    def copy(self):
        t = Transcript(self.hash_name)
        t.messages = list(self.messages)
        t._h = self._h.copy()
        return t

    def types(self):
        return [m[0] for m in self.messages]


class KeySchedule:
    """Early secret -> handshake secret -> master secret; every derived secret takes the
    transcript hash it is bound to explicitly (no hidden state)."""

    def __init__(self, cipher_suite, psk=None):
        self.cipher_suite = cipher_suite
        self.hash_name = SUITE_HASH[cipher_suite]
        self.hlen = hash_len(self.hash_name)
        self.empty_hash = hashlib.new(self.hash_name).digest()
        self.psk = psk
        self.early_secret = hkdf_extract(self.hash_name, b"", psk if psk is not None else bytes(self.hlen))
        self.handshake_secret = None
        self.master_secret = None

    # ---- generic
    def derive(self, secret, label, transcript_hash):
        return hkdf_expand_label(self.hash_name, secret, label, transcript_hash, self.hlen)

    # ---- early
    def binder_key(self, external=False):
        return self.derive(self.early_secret, b"ext binder" if external else b"res binder", self.empty_hash)

    def client_early_traffic_secret(self, th_client_hello):
        return self.derive(self.early_secret, b"c e traffic", th_client_hello)

    def early_exporter_master_secret(self, th_client_hello):
        return self.derive(self.early_secret, b"e exp master", th_client_hello)

    # ---- handshake
    def set_shared_secret(self, ecdhe):
        salt = self.derive(self.early_secret, b"derived", self.empty_hash)
        self.handshake_secret = hkdf_extract(self.hash_name, salt, ecdhe if ecdhe is not None else bytes(self.hlen))
        salt2 = self.derive(self.handshake_secret, b"derived", self.empty_hash)
        self.master_secret = hkdf_extract(self.hash_name, salt2, bytes(self.hlen))

    def client_handshake_traffic_secret(self, th_server_hello):
        return self.derive(self.handshake_secret, b"c hs traffic", th_server_hello)

    def server_handshake_traffic_secret(self, th_server_hello):
        return self.derive(self.handshake_secret, b"s hs traffic", th_server_hello)

    # ---- application
    def client_application_traffic_secret(self, th_server_finished):
        return self.derive(self.master_secret, b"c ap traffic", th_server_finished)

    def server_application_traffic_secret(self, th_server_finished):
        return self.derive(self.master_secret, b"s ap traffic", th_server_finished)

    def exporter_master_secret(self, th_server_finished):
        return self.derive(self.master_secret, b"exp master", th_server_finished)

    def resumption_master_secret(self, th_client_finished):
        return self.derive(self.master_secret, b"res master", th_client_finished)

    def ticket_psk(self, resumption_master_secret, ticket_nonce):
        return hkdf_expand_label(self.hash_name, resumption_master_secret, b"resumption", ticket_nonce, self.hlen)

    # ---- authentication
    def finished_key(self, base_key):
        return hkdf_expand_label(self.hash_name, base_key, b"finished", b"", self.hlen)

    def finished_mac(self, base_key, transcript_hash):
        return hmac.new(self.finished_key(base_key), transcript_hash, self.hash_name).digest()

    def binder(self, truncated_client_hello, prior_messages=b"", external=False):
        th = hashlib.new(self.hash_name, prior_messages + truncated_client_hello).digest()
        return self.finished_mac(self.binder_key(external), th)

    def next_traffic_secret(self, secret):
        """KeyUpdate (7.2)"""
        return hkdf_expand_label(self.hash_name, secret, b"traffic upd", b"", self.hlen)


def certificate_verify_input(context_string, transcript_hash):
    return b"\x20" * 64 + context_string + b"\x00" + transcript_hash


def selftest():
    """RFC 8448 section 3 (simple 1-RTT handshake) key-schedule vectors."""
    ks = KeySchedule(TLS_AES_128_GCM_SHA256)
    assert ks.early_secret.hex() == "33ad0a1c607ec03b09e6cd9893680ce210adf300aa1f2660e1b22e10f170f92a"
    ecdhe = bytes.fromhex("8bd4054fb55b9d63fdfbacf9f04b9f0d35e6d63f537563efd46272900f89492d")
    ks.set_shared_secret(ecdhe)
    assert ks.handshake_secret.hex() == "1dc826e93606aa6fdc0aadc12f741b01046aa6b99f691ed221a9f0ca043fbeac"
    assert ks.master_secret.hex() == "18df06843d13a08bf2a449844c5f8a478001bc4d4c627984d5a41da8d0402919"
    th_sh = bytes.fromhex("860c06edc07858ee8e78f0e7428c58edd6b43f2ca3e6e95f02ed063cf0e1cad8")
    assert ks.client_handshake_traffic_secret(th_sh).hex() == \
        "b3eddb126e067f35a780b3abf45e2d8f3b1a950738f52e9600746a0e27a55a21"
    s_hs = ks.server_handshake_traffic_secret(th_sh)
    assert s_hs.hex() == "b67b7d690cc16c4e75e54213cb2d37b4e9c912bcded9105d42befd59d391ad38"
    assert ks.finished_key(s_hs).hex() == "008d3b66f816ea559f96b537e885c31fc068bf492c652f01f288a1d8cdc19fc8"
    th_cv = bytes.fromhex("edb7725fa7a3473b031ec8ef65a2485493900138a2b91291407d7951a06110ed")
    assert ks.finished_mac(s_hs, th_cv).hex() == "9b9b141d906337fbd2cbdce71df4deda4ab42c309572cb7fffee5454b78f0718"
    th_sf = bytes.fromhex("9608102a0f1ccc6db6250b7b7e417b1a000eaada3daae4777a7686c9ff83df13")
    assert ks.client_application_traffic_secret(th_sf).hex() == \
        "9e40646ce79a7f9dc05af8889bce6552875afa0b06df0087f792ebb7c17504a5"
    assert ks.server_application_traffic_secret(th_sf).hex() == \
        "a11af9f05531f856ad47116b45a950328204b4f44bfb6b3a4b4f1f3fcb631643"
    th_cf = bytes.fromhex("209145a96ee8e2a122ff810047cc952684658d6049e86429426db87c54ad143d")
    rms = ks.resumption_master_secret(th_cf)
    assert rms.hex() == "7df235f2031d2a051287d02b0241b0bfdaf86cc856231f2d5aba46c434ec196c"
    assert ks.ticket_psk(rms, bytes(2)).hex() == "4ecd0eb6ec3b4d87f5d6028f922ca4c5851a277fd41311c9e62d2c9492e1c4f3"
    # resumed handshake (RFC 8448 section 4): early secret and binder key from that PSK
    ks2 = KeySchedule(TLS_AES_128_GCM_SHA256, psk=bytes.fromhex(
        "4ecd0eb6ec3b4d87f5d6028f922ca4c5851a277fd41311c9e62d2c9492e1c4f3"))
    assert ks2.early_secret.hex() == "9b2188e9b2fc6d64d71dc329900e20bb41915000f678aa839cbb797cb7d8332c"
    assert ks2.finished_key(ks2.binder_key()).hex() == \
        "5588673e72cb59c87d220caffe94f2dea9a3b1609f7d50e90a48227db9ed7eaa"
    return True


if __name__ == "__main__":
    selftest()
    print("tls13.keys selftest ok")
