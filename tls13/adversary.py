"""Scripted *key-holding* adversary: a TLS 1.3 server and a TLS 1.3 client that know every
key an honest peer would know (the certificate private key from /verif/fixtures, the
(EC)DHE secret, and the resumption secret of a ticket when one is handed to them) and can
emit ANY sequence of handshake messages, recomputing CertificateVerify and Finished over
the transcript they actually sent.

Independent of aioquic (must not import it): tls13.keys / tls13.messages + `cryptography`.
All randomness comes from the `random.Random` handed in (deterministic per run); only
RSA-PSS salts come from OpenSSL (their bytes never influence a verdict or a digest).
"""
import functools
import os

from cryptography import x509
from cryptography.exceptions import InvalidSignature
from cryptography.hazmat.primitives import hashes, serialization
from cryptography.hazmat.primitives.asymmetric import ec, ed448, ed25519, padding, rsa, x25519

from . import keys as K
from . import messages as M

FIXTURES = os.path.join(os.path.dirname(os.path.dirname(os.path.abspath(__file__))), "fixtures")

SUPPORTED_SUITES = [K.TLS_AES_128_GCM_SHA256, K.TLS_AES_256_GCM_SHA384, K.TLS_CHACHA20_POLY1305_SHA256]
SUPPORTED_GROUPS = [M.X25519, M.SECP256R1]
ALL_SIG_SCHEMES = [M.ED25519, M.ED448, M.ECDSA_SECP256R1_SHA256, M.ECDSA_SECP384R1_SHA384,
                   M.RSA_PSS_RSAE_SHA256, M.RSA_PSS_RSAE_SHA384, M.RSA_PKCS1_SHA256]

# a syntactically valid set of QUIC transport parameters (opaque to TLS): initial_max_data = 1 MiB
DEFAULT_QUIC_TP = bytes.fromhex("04048010000008024064")


class AdversaryError(Exception):
    """The adversary could not do what the script asked (a harness problem, never a verdict)."""


# ---------------------------------------------------------------- credentials / signatures
class Credentials:
    def __init__(self, name):
        self.name = name
        with open(os.path.join(FIXTURES, name + ".pem"), "rb") as f:
            pem = f.read()
        end = b"-----END CERTIFICATE-----"
        self.certs = []
        for chunk in pem.split(end):
            if b"BEGIN CERTIFICATE" in chunk:
                self.certs.append(x509.load_pem_x509_certificate(chunk + end + b"\n"))
        self.chain_der = [c.public_bytes(serialization.Encoding.DER) for c in self.certs]
        with open(os.path.join(FIXTURES, name + ".key"), "rb") as f:
            self.key = serialization.load_pem_private_key(f.read(), password=None)

    def public_key(self):
        return self.certs[0].public_key()


@functools.lru_cache(maxsize=None)
def load_credentials(name):
    return Credentials(name)


def schemes_for_key(key):
    if isinstance(key, (ed25519.Ed25519PrivateKey, ed25519.Ed25519PublicKey)):
        return [M.ED25519]
    if isinstance(key, (ed448.Ed448PrivateKey, ed448.Ed448PublicKey)):
        return [M.ED448]
    if isinstance(key, (ec.EllipticCurvePrivateKey, ec.EllipticCurvePublicKey)):
        return [M.ECDSA_SECP256R1_SHA256] if key.curve.name == "secp256r1" else [M.ECDSA_SECP384R1_SHA384]
    if isinstance(key, (rsa.RSAPrivateKey, rsa.RSAPublicKey)):
        return [M.RSA_PSS_RSAE_SHA256, M.RSA_PSS_RSAE_SHA384, M.RSA_PKCS1_SHA256]
    raise AdversaryError("unsupported key type %r" % (key,))


def _ecdsa(h):
    try:
        return ec.ECDSA(h, deterministic_signing=True)
    except Exception:  # pragma: no cover (old OpenSSL)
        return ec.ECDSA(h)


def _sig_params(scheme, signing):
    if scheme in (M.ED25519, M.ED448):
        return ()
    if scheme == M.ECDSA_SECP256R1_SHA256:
        return (_ecdsa(hashes.SHA256()) if signing else ec.ECDSA(hashes.SHA256()),)
    if scheme == M.ECDSA_SECP384R1_SHA384:
        return (_ecdsa(hashes.SHA384()) if signing else ec.ECDSA(hashes.SHA384()),)
    if scheme == M.RSA_PSS_RSAE_SHA256:
        return (padding.PSS(mgf=padding.MGF1(hashes.SHA256()), salt_length=32), hashes.SHA256())
    if scheme == M.RSA_PSS_RSAE_SHA384:
        return (padding.PSS(mgf=padding.MGF1(hashes.SHA384()), salt_length=48), hashes.SHA384())
    if scheme == M.RSA_PKCS1_SHA256:
        return (padding.PKCS1v15(), hashes.SHA256())
    raise AdversaryError("unsupported signature scheme 0x%04x" % scheme)


def sign(key, scheme, data):
    return key.sign(data, *_sig_params(scheme, True))


def verify(public_key, scheme, signature, data):
    try:
        public_key.verify(signature, data, *_sig_params(scheme, False))
        return True
    except (InvalidSignature, ValueError, TypeError):
        return False


# ---------------------------------------------------------------- (EC)DHE
class KeyShare:
    """One ephemeral key for one group, generated from the run's PRNG."""

    def __init__(self, group, rng):
        self.group = group
        if group == M.X25519:
            self.private = x25519.X25519PrivateKey.from_private_bytes(rng.randbytes(32))
            self.public = self.private.public_key().public_bytes(serialization.Encoding.Raw,
                                                                 serialization.PublicFormat.Raw)
        elif group == M.SECP256R1:
            self.private = ec.derive_private_key(int.from_bytes(rng.randbytes(31), "big") + 1, ec.SECP256R1())
            self.public = self.private.public_key().public_bytes(serialization.Encoding.X962,
                                                                 serialization.PublicFormat.UncompressedPoint)
        else:
            raise AdversaryError("unsupported group 0x%04x" % group)

    def exchange(self, peer_public):
        if self.group == M.X25519:
            return self.private.exchange(x25519.X25519PublicKey.from_public_bytes(peer_public))
        peer = ec.EllipticCurvePublicKey.from_encoded_point(ec.SECP256R1(), peer_public)
        return self.private.exchange(ec.ECDH(), peer)


@functools.lru_cache(maxsize=None)
def _other_rsa_key():
    with open(os.path.join(FIXTURES, "retry_rsa.key"), "rb") as f:
        return serialization.load_pem_private_key(f.read(), password=None)


def wrong_key_like(key, rng):
    """a private key of the same type as `key` that is not `key`"""
    if isinstance(key, ed25519.Ed25519PrivateKey):
        return ed25519.Ed25519PrivateKey.from_private_bytes(rng.randbytes(32))
    if isinstance(key, ed448.Ed448PrivateKey):
        return ed448.Ed448PrivateKey.from_private_bytes(rng.randbytes(57))
    if isinstance(key, ec.EllipticCurvePrivateKey):
        return ec.derive_private_key(int.from_bytes(rng.randbytes(31), "big") + 1, key.curve)
    if isinstance(key, rsa.RSAPrivateKey):
        return _other_rsa_key()
    raise AdversaryError("unsupported key type %r" % (key,))


def _flip(data, index=-1, mask=0x01):
    b = bytearray(data)
    b[index] ^= mask
    return bytes(b)


# ---------------------------------------------------------------- common machinery
class _Party:
    """Transcript + key schedule of one side; builds any handshake message on demand."""

    ROLE = None  # "server" / "client"

    def __init__(self, rng, cred):
        self.rng = rng
        self.cred = load_credentials(cred) if isinstance(cred, str) else cred
        self.ks = None
        self.transcript = None
        self.client_hs_secret = None
        self.server_hs_secret = None
        self.client_ap_secret = None
        self.server_ap_secret = None
        self.resumption_master = None
        self.sent = []  # kinds sent, in order
        self.sig_scheme = None
        self.peer_sig_algs = None
        self.ee_extensions = [(M.EXT_QUIC_TRANSPORT_PARAMETERS, DEFAULT_QUIC_TP)]
        self.alpn = None
        self.ee_early_data = False  # put the (empty) early_data extension into EncryptedExtensions
        self.cr_context = b""
        self.last_client_hello = None
        self.last_server_hello = None

    # -- keys of this side / of the peer
    def my_hs_secret(self):
        return self.server_hs_secret if self.ROLE == "server" else self.client_hs_secret

    def peer_hs_secret(self):
        return self.client_hs_secret if self.ROLE == "server" else self.server_hs_secret

    def my_cv_context(self):
        return K.SERVER_CV_CONTEXT if self.ROLE == "server" else K.CLIENT_CV_CONTEXT

    def peer_cv_context(self):
        return K.CLIENT_CV_CONTEXT if self.ROLE == "server" else K.SERVER_CV_CONTEXT

    def _derive_handshake_secrets(self):
        th = self.transcript.digest()
        self.client_hs_secret = self.ks.client_handshake_traffic_secret(th)
        self.server_hs_secret = self.ks.server_handshake_traffic_secret(th)

    def _derive_application_secrets(self):
        th = self.transcript.digest()
        self.client_ap_secret = self.ks.client_application_traffic_secret(th)
        self.server_ap_secret = self.ks.server_application_traffic_secret(th)

    def _pick_sig_scheme(self):
        if self.sig_scheme is not None:
            return self.sig_scheme
        mine = schemes_for_key(self.cred.key)
        if self.peer_sig_algs:
            for s in mine:
                if s in self.peer_sig_algs:
                    return s
        return mine[0]

    def _stale_hash(self):
        """transcript hash without the most recent message"""
        t = K.Transcript(self.transcript.hash_name, self.transcript.messages[:-1])
        return t.digest()

    # -- message construction (does not touch the transcript)
    def build(self, kind, instance=0, tamper=None):
        hs_ready = self.ks is not None and self.my_hs_secret() is not None
        if kind == "EE":
            exts = []
            if instance == 0:
                if self.alpn is not None:
                    exts.append((M.EXT_ALPN, M.ext_alpn([self.alpn])))
                if self.ee_early_data:
                    exts.append((M.EXT_EARLY_DATA, b""))
                exts += self.ee_extensions
            return M.EncryptedExtensions(exts).encode()
        if kind == "CR":
            algs = ALL_SIG_SCHEMES if instance == 0 else [M.ED25519]
            return M.CertificateRequest(self.cr_context, [(M.EXT_SIGNATURE_ALGORITHMS,
                                                           M.ext_signature_algorithms(algs))]).encode()
        if kind == "Cert":
            ctx = self.cr_context if self.ROLE == "client" else b""
            entries = [(d, b"") for d in self.cred.chain_der] if instance == 0 else []
            return M.Certificate(entries, ctx).encode()
        if kind == "CertEmpty":
            return M.Certificate([], self.cr_context if self.ROLE == "client" else b"").encode()
        if kind == "CV":
            scheme = self._pick_sig_scheme()
            if not hs_ready or instance == 1:
                n = {M.ED25519: 64, M.ED448: 114, M.ECDSA_SECP256R1_SHA256: 70,
                     M.ECDSA_SECP384R1_SHA384: 102}.get(scheme, 256)
                return M.CertificateVerify(scheme, self.rng.randbytes(n)).encode()
            th = self.transcript.digest()
            ctx = self.my_cv_context()
            key = self.cred.key
            if tamper == "stale":
                th = self._stale_hash()
            elif tamper == "wrongctx":
                ctx = self.peer_cv_context()
            elif tamper == "wrongkey":  # same key type and scheme, but not the certificate's key
                key = wrong_key_like(key, self.rng)
            elif tamper == "wrongscheme":  # a scheme (and key) of another type than the certificate's key
                key = load_credentials("server_ec256" if isinstance(key, ed25519.Ed25519PrivateKey)
                                       else "bad_wrongkey").key
                scheme = schemes_for_key(key)[0]
            sig = sign(key, scheme, K.certificate_verify_input(ctx, th))
            if tamper == "badsig":
                sig = _flip(sig, len(sig) // 2)
            return M.CertificateVerify(scheme, sig).encode()
        if kind == "Fin":
            if not hs_ready or instance == 1:
                n = self.ks.hlen if self.ks is not None else 32
                return M.Finished(bytes(n)).encode()
            th = self.transcript.digest()
            base = self.my_hs_secret()
            if tamper == "stale":
                th = self._stale_hash()
            elif tamper == "wrongkey":
                base = self.peer_hs_secret()
            mac = self.ks.finished_mac(base, th)
            if tamper == "badmac":
                mac = _flip(mac, 0, 0x80)
            elif tamper == "short":
                mac = mac[:-1]
            return M.Finished(mac).encode()
        if kind == "NST":
            exts = [(M.EXT_EARLY_DATA, M.ext_early_data_ticket(0xFFFFFFFF))] if instance == 0 else []
            return M.NewSessionTicket(86400, self.rng.getrandbits(32), b"", self.rng.randbytes(32), exts).encode()
        if kind == "KU":
            return M.KeyUpdate(instance & 1).encode()
        if kind == "EOED":
            return M.EndOfEarlyData().encode()
        if kind == "CompCert":
            raw = M.Certificate([(d, b"") for d in self.cred.chain_der]).encode()[4:]
            return M.CompressedCertificate(2, len(raw), raw).encode()  # "brotli" id, payload opaque
        if kind == "MsgHash":
            d = self.transcript.digest() if self.transcript is not None else bytes(32)
            return M.MessageHash(d).encode()
        if kind == "CH":
            if instance == 0 and self.last_client_hello is not None:
                return M.ClientHello.decode(self.last_client_hello).encode()
            return minimal_client_hello(self.rng)
        if kind == "SH":
            if instance == 0 and self.last_server_hello is not None:
                return M.ServerHello.decode(self.last_server_hello).encode()
            return minimal_server_hello(self.rng, self.last_client_hello)
        raise AdversaryError("unknown message kind %r" % (kind,))

    def send(self, kind, instance=0, tamper=None):
        """build the message over the transcript so far, then append it to the transcript"""
        msg = self.build(kind, instance, tamper)
        self.transcript.add(msg)
        self.sent.append(kind)
        if kind == "Fin" and self.ROLE == "server" and self.client_ap_secret is None \
                and self.ks.master_secret is not None:
            self._derive_application_secrets()
        return msg


KIND_OF_TYPE = {
    M.CLIENT_HELLO: "CH", M.SERVER_HELLO: "SH", M.NEW_SESSION_TICKET: "NST", M.END_OF_EARLY_DATA: "EOED",
    M.ENCRYPTED_EXTENSIONS: "EE", M.CERTIFICATE: "Cert", M.CERTIFICATE_REQUEST: "CR",
    M.CERTIFICATE_VERIFY: "CV", M.FINISHED: "Fin", M.KEY_UPDATE: "KU", M.COMPRESSED_CERTIFICATE: "CompCert",
    M.MESSAGE_HASH: "MsgHash",
}
TYPE_OF_KIND = {v: k for k, v in KIND_OF_TYPE.items()}
TYPE_OF_KIND["CertEmpty"] = M.CERTIFICATE


def minimal_client_hello(rng, server_name="localhost", suites=None, groups=(M.X25519,), extra_extensions=()):
    shares = [(g, KeyShare(g, rng).public) for g in groups]
    exts = [
        (M.EXT_KEY_SHARE, M.ext_key_share_client(shares)),
        (M.EXT_SUPPORTED_VERSIONS, M.ext_supported_versions_client([M.TLS13])),
        (M.EXT_SIGNATURE_ALGORITHMS, M.ext_signature_algorithms(ALL_SIG_SCHEMES)),
        (M.EXT_SUPPORTED_GROUPS, M.ext_supported_groups(list(groups))),
        (M.EXT_SERVER_NAME, M.ext_server_name(server_name)),
    ] + list(extra_extensions)
    return M.ClientHello(rng.randbytes(32), suites or SUPPORTED_SUITES, exts).encode()


def minimal_server_hello(rng, client_hello=None, suite=K.TLS_AES_128_GCM_SHA256):
    sid = b""
    if client_hello is not None:
        sid = M.ClientHello.decode(client_hello).legacy_session_id
    exts = [(M.EXT_SUPPORTED_VERSIONS, M.ext_supported_versions_server(M.TLS13)),
            (M.EXT_KEY_SHARE, M.ext_key_share_server(M.X25519, KeyShare(M.X25519, rng).public))]
    return M.ServerHello(rng.randbytes(32), suite, exts, sid).encode()


class Observer(_Party):
    """A passive key-holder: built from a handshake between two honest endpoints that it
    watched (messages in order) plus the handshake traffic secrets those endpoints released
    through their key callbacks.  Can build the same messages as an active adversary in
    `role` ("server": speaks to the client, "client": speaks to the server)."""

    def __init__(self, role, rng, cred, cipher_suite, messages, client_hs_secret=None, server_hs_secret=None):
        super().__init__(rng, cred)
        self.ROLE = role
        self.ks = K.KeySchedule(cipher_suite)  # only its hash / Finished helpers are used
        self.transcript = K.Transcript(self.ks.hash_name, messages)
        self.client_hs_secret = client_hs_secret
        self.server_hs_secret = server_hs_secret
        for m in messages:
            if m[0] == M.CLIENT_HELLO and self.last_client_hello is None:
                self.last_client_hello = m
                self.peer_sig_algs = M.ClientHello.decode(m).signature_algorithms() if role == "server" else None
            elif m[0] == M.SERVER_HELLO and self.last_server_hello is None:
                self.last_server_hello = m
            elif m[0] == M.CERTIFICATE_REQUEST and role == "client":
                cr = M.CertificateRequest.decode(m)
                self.cr_context = cr.context
                self.peer_sig_algs = cr.signature_algorithms()


# ---------------------------------------------------------------- server
class AdversaryServer(_Party):
    """psk = {"secret": resumption PSK bytes, "suite": cipher suite id} (given by the harness:
    the adversary is key-holding).  psk_mode: "none" | "select" (select identity 0 when offered;
    uses the real PSK) | "pretend" (put pre_shared_key=0 in ServerHello whatever was offered; key
    schedule from `psk` if given, else from a guessed all-zero PSK)."""

    ROLE = "server"

    def __init__(self, rng, cred="server_ed25519", cipher_suite=None, group=None, psk=None, psk_mode="none",
                 alpn=None, sig_scheme=None, ee_extensions=None):
        super().__init__(rng, cred)
        self.want_suite = cipher_suite
        self.want_group = group
        self.psk = psk
        self.psk_mode = psk_mode
        self.alpn = alpn
        self.sig_scheme = sig_scheme
        if ee_extensions is not None:
            self.ee_extensions = list(ee_extensions)
        self.psk_offered = False
        self.psk_selected = False
        self.binder_ok = None
        self.client_finished_ok = None
        self.client_cv_ok = None
        self.client_messages = []

    def accept(self, client_hello):
        """consume the real client's ClientHello, return the ServerHello bytes"""
        ch = M.ClientHello.decode(client_hello)
        self.last_client_hello = bytes(client_hello)
        self.peer_sig_algs = ch.signature_algorithms()
        suite = self.want_suite
        if suite is None:
            if self.psk is not None and self.psk_mode != "none" and self.psk["suite"] in ch.cipher_suites:
                suite = self.psk["suite"]
            else:
                suite = next((s for s in ch.cipher_suites if s in SUPPORTED_SUITES), None)
        if suite is None:
            raise AdversaryError("no common cipher suite")
        shares = dict(ch.key_shares())
        group = self.want_group or next((g for g in SUPPORTED_GROUPS if g in shares), None)
        if group is None or group not in shares:
            raise AdversaryError("no usable key share")
        offered = ch.offered_psks()
        self.psk_offered = offered is not None and len(offered[0]) > 0
        psk_secret = None
        exts = [(M.EXT_SUPPORTED_VERSIONS, M.ext_supported_versions_server(M.TLS13))]
        mine = KeyShare(group, self.rng)
        exts.append((M.EXT_KEY_SHARE, M.ext_key_share_server(group, mine.public)))
        if self.psk_mode == "select" and self.psk_offered:
            if self.psk is None:
                raise AdversaryError("psk_mode=select needs the ticket's secret")
            psk_secret = self.psk["secret"]
            ks = K.KeySchedule(suite, psk_secret)
            self.binder_ok = ks.binder(ch.truncated()) == offered[1][0]
            self.psk_selected = True
        elif self.psk_mode == "pretend":
            psk_secret = self.psk["secret"] if self.psk is not None else bytes(K.hash_len(K.SUITE_HASH[suite]))
            self.psk_selected = True
        if self.psk_selected:
            exts.append((M.EXT_PRE_SHARED_KEY, M.ext_pre_shared_key_server(0)))
        self.ks = K.KeySchedule(suite, psk_secret)
        self.transcript = K.Transcript(self.ks.hash_name)
        self.transcript.add(client_hello)
        sh = M.ServerHello(self.rng.randbytes(32), suite, exts, ch.legacy_session_id).encode()
        self.last_server_hello = sh
        self.transcript.add(sh)
        self.ks.set_shared_secret(mine.exchange(shares[group]))
        self._derive_handshake_secrets()
        self.sent.append("SH")
        return sh

    def receive(self, data):
        """consume the client's flight; verify CertificateVerify / Finished (self-check of the
        reference key schedule against the real client)"""
        msgs, rest = M.split_handshake(data)
        peer_cert = None
        for m in msgs:
            self.client_messages.append(m)
            if m[0] == M.CERTIFICATE:
                c = M.Certificate.decode(m)
                if c.entries:
                    peer_cert = x509.load_der_x509_certificate(c.entries[0][0])
            elif m[0] == M.CERTIFICATE_VERIFY and peer_cert is not None:
                cv = M.CertificateVerify.decode(m)
                self.client_cv_ok = verify(peer_cert.public_key(), cv.algorithm, cv.signature,
                                           K.certificate_verify_input(K.CLIENT_CV_CONTEXT, self.transcript.digest()))
            elif m[0] == M.FINISHED:
                want = self.ks.finished_mac(self.client_hs_secret, self.transcript.digest())
                self.client_finished_ok = M.Finished.decode(m).verify_data == want
            self.transcript.add(m)
            if m[0] == M.FINISHED:
                self.resumption_master = self.ks.resumption_master_secret(self.transcript.digest())
        return msgs


# ---------------------------------------------------------------- client
class AdversaryClient(_Party):
    """psk = {"secret", "suite", "ticket", "age": obfuscated age} to offer a (real) ticket."""

    ROLE = "client"

    def __init__(self, rng, cred="client", server_name="localhost", cipher_suites=None, groups=(M.X25519,),
                 alpn=None, extensions=None, psk=None, sig_scheme=None, offer_psk_modes=True):
        super().__init__(rng, cred)
        self.server_name = server_name
        self.cipher_suites = list(cipher_suites or SUPPORTED_SUITES)
        self.groups = list(groups)
        self.alpn_offer = alpn
        self.extensions = list(extensions) if extensions is not None else [
            (M.EXT_QUIC_TRANSPORT_PARAMETERS, DEFAULT_QUIC_TP)]
        self.psk = psk
        self.sig_scheme = sig_scheme
        self.offer_psk_modes = offer_psk_modes
        self.shares = {}
        self.psk_selected = False
        self.server_cv_ok = None
        self.server_finished_ok = None
        self.certificate_requested = False
        self.server_messages = []
        self._rest = b""

    def client_hello(self):
        self.shares = {g: KeyShare(g, self.rng) for g in self.groups}
        exts = [
            (M.EXT_KEY_SHARE, M.ext_key_share_client([(g, s.public) for g, s in self.shares.items()])),
            (M.EXT_SUPPORTED_VERSIONS, M.ext_supported_versions_client([M.TLS13])),
            (M.EXT_SIGNATURE_ALGORITHMS, M.ext_signature_algorithms(ALL_SIG_SCHEMES)),
            (M.EXT_SUPPORTED_GROUPS, M.ext_supported_groups(self.groups)),
        ]
        if self.offer_psk_modes:
            exts.append((M.EXT_PSK_KEY_EXCHANGE_MODES, M.ext_psk_key_exchange_modes([1])))
        if self.server_name is not None:
            exts.append((M.EXT_SERVER_NAME, M.ext_server_name(self.server_name)))
        if self.alpn_offer:
            exts.append((M.EXT_ALPN, M.ext_alpn(self.alpn_offer)))
        exts += self.extensions
        random = self.rng.randbytes(32)
        if self.psk is not None:
            hl = K.hash_len(K.SUITE_HASH[self.psk["suite"]])
            ident = [(self.psk["ticket"], self.psk.get("age", 0))]
            ch = M.ClientHello(random, self.cipher_suites,
                               exts + [(M.EXT_PRE_SHARED_KEY, M.ext_pre_shared_key_client(ident, [bytes(hl)]))])
            binder = K.KeySchedule(self.psk["suite"], self.psk["secret"]).binder(ch.truncated())
            if self.psk.get("bad_binder"):
                binder = _flip(binder)
            exts.append((M.EXT_PRE_SHARED_KEY, M.ext_pre_shared_key_client(ident, [binder])))
        msg = M.ClientHello(random, self.cipher_suites, exts).encode()
        self.last_client_hello = msg
        self.sent.append("CH")
        return msg

    def receive(self, data):
        """consume (part of) the real server's flight: derive keys at ServerHello, verify the
        server's CertificateVerify and Finished (self-check), keep the transcript."""
        msgs, self._rest = M.split_handshake(self._rest + data)
        for m in msgs:
            self.server_messages.append(m)
            if m[0] == M.SERVER_HELLO:
                sh = M.ServerHello.decode(m)
                self.last_server_hello = m
                self.psk_selected = sh.selected_psk() is not None
                if self.psk_selected and self.psk is None:
                    raise AdversaryError("server selected a PSK that was not offered")
                self.ks = K.KeySchedule(sh.cipher_suite, self.psk["secret"] if self.psk_selected else None)
                self.transcript = K.Transcript(self.ks.hash_name, [self.last_client_hello, m])
                group, pub = sh.key_share()
                self.ks.set_shared_secret(self.shares[group].exchange(pub))
                self._derive_handshake_secrets()
                continue
            if m[0] == M.CERTIFICATE_REQUEST:
                cr = M.CertificateRequest.decode(m)
                self.certificate_requested = True
                self.cr_context = cr.context
                self.peer_sig_algs = cr.signature_algorithms()
            elif m[0] == M.CERTIFICATE:
                c = M.Certificate.decode(m)
                self._server_cert = x509.load_der_x509_certificate(c.entries[0][0]) if c.entries else None
            elif m[0] == M.CERTIFICATE_VERIFY:
                cv = M.CertificateVerify.decode(m)
                self.server_cv_ok = verify(self._server_cert.public_key(), cv.algorithm, cv.signature,
                                           K.certificate_verify_input(K.SERVER_CV_CONTEXT, self.transcript.digest()))
            elif m[0] == M.FINISHED:
                want = self.ks.finished_mac(self.server_hs_secret, self.transcript.digest())
                self.server_finished_ok = M.Finished.decode(m).verify_data == want
                self.transcript.add(m)
                self._derive_application_secrets()
                continue
            elif m[0] == M.NEW_SESSION_TICKET:
                continue  # post-handshake: not part of the transcript
            self.transcript.add(m)
        return msgs
