/* libcrypto boundary shim for C04: OpenSSL itself is not instrumented, so reads/writes it performs on
 * behalf of aioquic's _crypto.c are invisible to AddressSanitizer.  This preloaded, ASan-built shim
 * interposes the EVP entry points _crypto.c uses and asks ASan whether the input / output ranges are
 * addressable before forwarding to the real function (found with dlopen, not RTLD_NEXT, because
 * libcrypto arrives later through the extension's own dependencies). A bad range is touched so that
 * ASan itself produces the report (build with -fsanitize-recover=address to continue). */
#define _GNU_SOURCE
#include <dlfcn.h>
#include <stddef.h>
#include <stdio.h>
#include <sanitizer/asan_interface.h>

typedef int (*update_t)(void *, unsigned char *, int *, const unsigned char *, int);
typedef int (*init_t)(void *, const void *, void *, const unsigned char *, const unsigned char *, int);
static update_t real_update;
static init_t real_init;
static void *handle;
unsigned long verif_shim_calls;

static void *sym(const char *name)
{
    if (!handle)
        handle = dlopen("libcrypto.so.3", RTLD_NOW | RTLD_GLOBAL);
    return handle ? dlsym(handle, name) : NULL;
}

static void probe(const volatile unsigned char *p, long n, int is_write)
{
    if (!p || n <= 0)
        return;
    volatile unsigned char *bad = (volatile unsigned char *)__asan_region_is_poisoned((void *)p, (size_t)n);
    if (bad) {
        if (is_write)
            *bad = *bad; /* ASan reports a WRITE here */
        else
            (void)*bad;  /* ASan reports a READ here */
    }
}

int EVP_CipherUpdate(void *ctx, unsigned char *out, int *outl, const unsigned char *in, int inl)
{
    if (!real_update)
        real_update = (update_t)sym("EVP_CipherUpdate");
    verif_shim_calls++;
    probe(in, inl, 0);
    if (out)
        probe(out, inl, 1);
    return real_update(ctx, out, outl, in, inl);
}

int EVP_CipherInit_ex(void *ctx, const void *cipher, void *impl, const unsigned char *key,
                      const unsigned char *iv, int enc)
{
    if (!real_init)
        real_init = (init_t)sym("EVP_CipherInit_ex");
    /* header protection with ChaCha20 passes the 16-byte ciphertext sample as IV */
    if (iv && !key && !cipher)
        probe(iv, 16, 0);
    return real_init(ctx, cipher, impl, key, iv, enc);
}
