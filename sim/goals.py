"""Run-termination helpers shared by the transport checks (no verdicts here)."""
from .transport import Oracle


def incomplete_streams(sim):
    out = []
    for sender in sim.endpoints:
        recv = sender.peer
        for sid, st in sender.app.send.items():
            rs = recv.app.recv.get(sid)
            delivered = rs.delivered if rs else 0
            fin = rs.fin if rs else False
            if st.reset or st.stopped_by_peer or (rs is not None and (rs.stop_requested or rs.reset)):
                continue
            if delivered < st.written or (st.fin and not fin):
                out.append((sender.name, sid, delivered, st.written, st.fin, fin))
    return out


class DeliveryGoal(Oracle):
    """Stops the run (after the drain period) once everything written was delivered."""

    def on_start(self, sim):
        self.sim = sim

    def goal_reached(self):
        return not incomplete_streams(self.sim)
