"""Hostile network input for C05 (and C20's hostile scenarios): random bytes, mutated genuine
datagrams, coalesced mixes, correctly protected packets whose payload comes from a frame
grammar with boundary values, and genuine packets whose CRYPTO payload was rewritten
(MITM with the keys).  Everything is drawn from the chooser stream "hostile"."""
from wire import crypto as wc  # noqa: F401
from wire import frames as wf
from wire import varint as wv

from .forger import Forger
from .transport import EndpointBroken, Oracle

BOUND = (0, 1, 2, 3, 63, 64, 255, 16383, 16384, (1 << 30) - 1, 1 << 30, (1 << 62) - 1)


def _v(ch, extra=()):
    vals = BOUND + tuple(extra)
    return vals[ch.choose(len(vals))]


def _bytes(ch, n):
    # cheap deterministic filler (content rarely matters)
    seed = ch.choose(251)
    return bytes((seed + 7 * i) & 0xFF for i in range(n))


def gen_frame(ch, ctx):
    """One frame (bytes). ctx: dict with known stream ids / limits / cids for near-boundary values."""
    kind = ch.choose(30)
    sid = ctx["stream_ids"][ch.choose(len(ctx["stream_ids"]))] if ch.choose(3) else _v(ch)
    if kind == 0:
        return wf.encode_padding(1 + ch.choose(40))
    if kind == 1:
        return wf.encode_ping()
    if kind == 2:
        n = ch.choose(4)
        if n == 0:
            ranges = [(_v(ch), _v(ch))]
            ranges = [(min(a, b), max(a, b)) for a, b in ranges]
        elif n == 1:
            base = ch.choose(2000)
            ranges = [(base + 3 * i, base + 3 * i + 1) for i in range(1 + ch.choose(300))]
        else:
            base = ctx["largest_sent"]
            ranges = [(max(base - ch.choose(50), 0), base + ch.choose(3))]
        try:
            return wf.encode_ack(ranges, _v(ch), ecn=(1, 2, 3) if ch.choose(4) == 0 else None)
        except Exception:
            return wf.encode_ping()
    if kind == 3:
        return wf.encode_reset_stream(sid, _v(ch), _v(ch, ctx["limits"]))
    if kind == 4:
        return wf.encode_stop_sending(sid, _v(ch))
    if kind == 5:
        return wf.encode_crypto(_v(ch, (100000, 600000)), _bytes(ch, ch.choose(60)))
    if kind == 6:
        return wf.encode_new_token(_bytes(ch, ch.choose(40)))
    if kind in (7, 8, 9):
        off = _v(ch, ctx["limits"])
        n = (0, 1, 10, 300)[ch.choose(4)]
        if off + n >= 1 << 62:
            n = 0
        return wf.encode_stream(sid, off, _bytes(ch, n), fin=bool(ch.choose(2)), with_len=bool(ch.choose(4)),
                                with_off=None if ch.choose(2) else True)
    if kind == 10:
        return wf.encode_max_data(_v(ch, ctx["limits"]))
    if kind == 11:
        return wf.encode_max_stream_data(sid, _v(ch, ctx["limits"]))
    if kind == 12:
        return wf.encode_max_streams(_v(ch, (1 << 60, (1 << 60) + 1)), uni=bool(ch.choose(2)))
    if kind == 13:
        return wf.encode_data_blocked(_v(ch))
    if kind == 14:
        return wf.encode_stream_data_blocked(sid, _v(ch))
    if kind == 15:
        return wf.encode_streams_blocked(_v(ch, (1 << 60, (1 << 60) + 1)), uni=bool(ch.choose(2)))
    if kind in (16, 17):
        seq = _v(ch, (ctx["ncid_seq"], ctx["ncid_seq"] + 1, ctx["ncid_seq"] + 9))
        seq = min(seq, (1 << 62) - 2)
        rpt = (0, seq, seq + 1, max(seq - 1, 0))[ch.choose(4)]
        clen = (8, 0, 1, 20, 21)[ch.choose(5)]
        try:
            return wf.encode_new_connection_id(seq, rpt, _bytes(ch, clen), _bytes(ch, 16))
        except Exception:
            return bytes([0x18]) + wv.enc(seq) + wv.enc(rpt) + bytes([clen]) + _bytes(ch, clen + 16)
    if kind == 18:
        return wf.encode_retire_connection_id(_v(ch, (ctx["ncid_seq"],)))
    if kind == 19:
        return wf.encode_path_challenge(_bytes(ch, 8))
    if kind == 20:
        return wf.encode_path_response(_bytes(ch, 8))
    if kind == 21:
        return wf.encode_connection_close(_v(ch), _v(ch) if ch.choose(2) else None, _bytes(ch, ch.choose(30)))
    if kind == 22:
        return wf.encode_handshake_done()
    if kind == 23:
        return wf.encode_datagram(_bytes(ch, ch.choose(50)), with_len=bool(ch.choose(2)))
    if kind == 24:  # unknown / reserved frame types
        return wv.enc((0x1F, 0x20, 0x2F, 0x32, 0x40, 0x3FFF, (1 << 62) - 1)[ch.choose(7)]) + _bytes(ch, ch.choose(8))
    if kind == 25:  # non-minimal frame type encoding
        return wv.enc_sized(ch.choose(0x1F), (2, 4, 8)[ch.choose(3)]) + _bytes(ch, ch.choose(8))
    if kind == 26:  # a frame cut at an arbitrary byte
        f = gen_frame(ch, ctx) if ctx["depth"] < 2 else wf.encode_ping()
        return f[:ch.choose(len(f) + 1)]
    if kind == 27:  # raw varint soup
        return b"".join(wv.enc(_v(ch)) for _ in range(1 + ch.choose(5)))
    if kind == 28:  # ACK with huge range count
        return bytes([0x02]) + wv.enc(_v(ch)) + wv.enc(0) + wv.enc(_v(ch)) + wv.enc(0)
    return wf.encode_stream(sid, 0, b"", fin=True)


def gen_payload(ch, ctx):
    n = (0, 1, 1, 2, 3, 6)[ch.choose(6)]
    ctx = dict(ctx)
    ctx["depth"] = 0
    out = b""
    for _ in range(n):
        ctx["depth"] += 1
        out += gen_frame(ch, ctx)
    return out[:1100]


class HostileInjector(Oracle):
    def __init__(self, mon, rate=0.12, owner="c05"):
        self.mon = mon
        self.rate = rate
        self.owner = owner
        self.counts = {}
        self.states = set()
        self.busy = False

    def on_start(self, sim):
        self.sim = sim
        self.ch = sim.ch.stream("hostile")
        self.forger = Forger(sim, self.mon)

    def count(self, k):
        self.counts[k] = self.counts.get(k, 0) + 1

    # ----------------------------------------------------------------- context
    def ctx(self, target):
        conn = target.conn
        sids = sorted(set(list(target.app.send) + list(target.app.recv) + [0, 1, 2, 3, 4, 400, 402])) or [0]
        lim = [self.sim.cfg[k] for k in ("client_max_data", "client_max_stream_data", "server_max_data",
                                        "server_max_stream_data")]
        limits = []
        for x in lim:
            limits += [max(x - 1, 0), x, x + 1]
        return {"stream_ids": sids, "limits": tuple(limits), "ncid_seq": getattr(conn, "_host_cid_seq", 1),
                "largest_sent": max(self.mon.state[target.name].largest["app"], 0), "depth": 0}

    # --------------------------------------------------------------- generators
    def make(self, target, genuine):
        """returns (kind, datagram bytes) or None"""
        ch = self.ch
        sender = target.peer
        kind = ch.weighted([3, 2, 3, 2, 6, 3, 2])
        if kind == 0:
            n = (0, 1, 5, 20, 21, 60, 1199, 1200, 1201, 1500, 4000)[ch.choose(11)]
            data = bytearray(_bytes(ch, n))
            if n and ch.choose(2):
                data[0] = (0xC0, 0xD0, 0xE0, 0xF0, 0x40, 0x80)[ch.choose(6)] | (data[0] & 0x0F)
                if n > 5 and ch.choose(2):
                    data[1:5] = (1).to_bytes(4, "big") if ch.choose(2) else (0x6B3343CF).to_bytes(4, "big")
            return "random", bytes(data)
        if genuine is not None and kind == 1:
            data = bytearray(genuine)
            for _ in range(1 + ch.choose(4)):
                if data:
                    data[ch.choose(len(data))] ^= 1 << ch.choose(8)
            return "mutated-flip", bytes(data)
        if genuine is not None and kind == 2:
            m = ch.choose(4)
            if m == 0:
                return "mutated-truncate", genuine[:ch.choose(len(genuine) + 1)]
            if m == 1:
                return "mutated-extend", genuine + _bytes(ch, (1, 16, 200, 1500)[ch.choose(4)])
            if m == 2 and self.last_genuine:
                return "mutated-splice", genuine[:ch.choose(len(genuine) + 1)] + self.last_genuine[ch.choose(
                    len(self.last_genuine) + 1):]
            return "mutated-prefix-garbage", _bytes(ch, 1 + ch.choose(30)) + genuine
        if kind == 3:
            # coalesced mix: a failing first packet followed by a forged one of another type
            parts = []
            for _ in range(2 + ch.choose(2)):
                ptype = ("initial", "handshake", "1rtt", "0rtt")[ch.choose(4)]
                pkt = self.forged_packet(target, ptype)
                if pkt is None:
                    pkt = _bytes(ch, 30)
                elif ch.choose(3) == 0:
                    b = bytearray(pkt)
                    b[-1] ^= 1
                    pkt = bytes(b)
                parts.append(pkt)
            return "coalesced-mix", b"".join(parts)[:1500]
        if kind in (4, 5):
            ptype = ("1rtt", "1rtt", "1rtt", "handshake", "initial", "0rtt")[ch.choose(6)]
            pkt = self.forged_packet(target, ptype)
            if pkt is not None:
                return "forged-" + ptype, pkt
            return "random", _bytes(ch, 40)
        if kind == 6 and genuine is not None:
            pkt = self.rewrite_crypto(target, genuine)
            if pkt is not None:
                return "mitm-crypto-rewrite", pkt
        return "random", _bytes(ch, 1 + ch.choose(64))

    def forged_packet(self, target, ptype):
        ch = self.ch
        sender = target.peer
        if sender.conn is None and ptype != "initial":
            return None
        keys = self.forger.keys(sender, ptype) if sender.conn is not None else None
        if keys is None:
            return None
        if ptype == "initial" and self.mon.initial_dcids and ch.choose(3) == 0:
            # an Initial in the OTHER supported version (its keys are public too)
            other = 0x6B3343CF if keys.version == 1 else 1
            pair = wc.initial_keys(self.mon.initial_dcids[ch.choose(len(self.mon.initial_dcids))], other)
            keys = pair[0] if sender.is_client else pair[1]
        payload = gen_payload(ch, self.ctx(target))
        if ptype == "0rtt" and ch.choose(2):
            # frames a client must not (or would not normally) send as early data, with small plausible fields
            k = ch.choose(8)
            odd = (wf.encode_retire_connection_id(ch.choose(3)), wf.encode_ack([(0, ch.choose(4))], 0),
                   wf.encode_crypto(0, _bytes(ch, 1 + ch.choose(40))), wf.encode_handshake_done(),
                   wf.encode_new_token(_bytes(ch, 1 + ch.choose(20))), wf.encode_path_response(_bytes(ch, 8)),
                   wf.encode_new_connection_id(1 + ch.choose(3), ch.choose(2), _bytes(ch, 8), _bytes(ch, 16)),
                   wf.encode_path_challenge(_bytes(ch, 8)))[k]
            payload = (odd + payload, payload + odd, odd)[ch.choose(3)][:1100]
        pn_len = (2, 2, 1, 3, 4)[ch.choose(5)]
        jump = (1, 1, 2, 50, 70000)[ch.choose(5)]
        space = {"initial": "initial", "handshake": "handshake", "0rtt": "app", "1rtt": "app"}[ptype]
        pn = self.forger.next_pn(sender, space, jump)
        kw = {}
        if ch.choose(12) == 0:
            kw["reserved_bits"] = 1 + ch.choose(3)
        if ch.choose(10) == 0:
            kw["dcid"] = _bytes(ch, (0, 4, 8, 20)[ch.choose(4)])
        pad = 1200 if (ptype == "initial" and sender.is_client) else None
        try:
            return self.forger.build(sender, ptype, payload, pn=pn, pn_len=pn_len, keys=keys, pad_to=pad, **kw)
        except Exception:
            return None

    def rewrite_crypto(self, target, genuine):
        """Genuine datagram with bytes inside its CRYPTO frames altered, re-protected with the real keys."""
        ch = self.ch
        sender = target.peer
        pkts = self.cur_meta  # decoded when the datagram was sent
        if not pkts:
            return None
        out = b""
        changed = False
        for p in pkts:
            if p.opaque or p.ptype not in ("initial", "handshake", "1rtt"):
                out += p.view.raw if getattr(p, "view", None) is not None else b""
                continue
            frames = []
            for f in p.frames:
                if f.type == wf.CRYPTO and len(f["data"]) and not changed:
                    data = bytearray(f["data"])
                    m = ch.choose(5)
                    pos = ch.choose(len(data))
                    if m == 0:
                        data[pos] ^= 1 << ch.choose(8)
                    elif m == 1:
                        data[pos] = (0, 0xFF, 0x80)[ch.choose(3)]
                    elif m == 2:  # length fields live in the first bytes of messages
                        pos = min(pos, 8)
                        data[pos] ^= 0xFF
                    elif m == 3:
                        del data[pos:pos + 1 + ch.choose(4)]
                    else:
                        data[pos:pos] = _bytes(ch, 1 + ch.choose(4))
                    frames.append(wf.encode_crypto(f["offset"], bytes(data)))
                    changed = True
                else:
                    frames.append(wf.encode_frame(f))
            payload = b"".join(frames)
            try:
                pad = 1200 - len(out) if (p.ptype == "initial" and sender.is_client) else None
                out += self.forger.build(sender, p.ptype, payload, pn=p.pn, pn_len=p.pn_len, dcid=p.dcid,
                                         scid=p.scid, token=p.token or b"", keys=p.keys, pad_to=pad,
                                         key_phase=p.key_phase)
            except Exception:
                return None
        return out if changed else None

    # ------------------------------------------------------------------ hooks
    last_genuine = b""

    def gap_flood(self, ep, dgram):
        """A peer that holds the keys sends many tiny packets whose numbers leave gaps: every packet adds one
        range to what the receiver has to acknowledge."""
        ch = self.ch
        sender = ep.peer
        keys = self.forger.keys(sender, "1rtt") if sender.conn is not None else None
        if keys is None:
            return False
        n = (30, 120, 300, 700, 1500)[ch.choose(5)]
        gap = (2, 2, 3, 17)[ch.choose(4)]
        payload = (b"\x01", b"\x00" * 3, b"\x01\x00")[ch.choose(3)]  # PING / PADDING
        every = (1, 8, 64, 10 ** 6)[ch.choose(4)]
        self.count("gap-flood")
        self.sim.k.trace("hostile", ep.name, "gap-flood", n)
        for i in range(n):
            pn = self.forger.next_pn(sender, "app", gap)
            try:
                pkt = self.forger.build(sender, "1rtt", payload, pn=pn, pn_len=4, keys=keys)
            except Exception:
                return True
            d = self.forger.inject(ep, pkt, src=dgram.src, tag="hostile")
            ep.api("receive_datagram", d.data, d.src, ep.now())
            if (i + 1) % every == 0:
                ep.pump()
            if ep.terminated or ep.broken:
                return True
        ep.pump()
        return True

    def late_retry(self, ep, dgram):
        """An observer of the connection forges a Retry packet with a valid integrity tag (it only needs the
        connection IDs it sees on the wire) and sends it to a client that has long processed packets of the
        server: RFC 9000 17.2.5.2 - such a client MUST discard it."""
        from wire import header as wh

        if not ep.is_client or not ep.handshake_complete or ep.conn is None:
            return False
        ch = self.ch
        try:
            pkt = wh.build_retry(self.forger.version(ep.peer), self.forger.current_dcid(ep.peer), _bytes(ch, 8),
                                 b"late-retry-token" + _bytes(ch, ch.choose(40)), self.forger.current_dcid(ep))
        except Exception:
            return False
        self.count("late-retry")
        self.sim.k.trace("hostile", ep.name, "late-retry", len(pkt))
        self.late_retry_sent = self.sim.k.now
        d = self.forger.inject(ep, pkt, src=dgram.src, tag="hostile")
        try:
            ep.api("receive_datagram", d.data, d.src, ep.now())
            ep.pump()
        except EndpointBroken:
            pass
        return True

    def on_datagram_sent(self, ep, dgram):
        if ep.is_client and getattr(self, "late_retry_sent", None) is not None and any(
                (not p.opaque) and p.ptype == "initial" for p in (dgram.meta or [])):
            from .kernel import Violation

            raise Violation("c05.late-retry", "client-restarted-after-forged-retry",
                            "a Retry packet forged at t=%.4f, long after the client had processed packets of the server, "
                            "was acted upon: the client sends Initial packets again at t=%.4f (%s) instead of "
                            "discarding it" % (self.late_retry_sent, self.sim.k.now,
                                               [p.summary() for p in dgram.meta]))

    def cid_dance(self, ep, dgram):
        """A key-holding peer issues connection IDs out of order, the local application rotates through them
        (change_connection_id() is public API), then the peer repeats one of its frames with a Retire Prior To
        that covers everything the endpoint still holds."""
        ch = self.ch
        sender = ep.peer
        keys = self.forger.keys(sender, "1rtt") if sender.conn is not None else None
        if keys is None or not getattr(ep.conn, "_handshake_complete", False):
            return False
        base = 20 + ch.choose(10)
        a, b = base + 3 + ch.choose(6), base
        frames = {}
        for seq in (a, b):
            frames[seq] = (_bytes(ch, 8), _bytes(ch, 16))
        self.count("cid-dance")
        self.sim.k.trace("hostile", ep.name, "cid-dance", a)

        def send(payload):
            pn = self.forger.next_pn(sender, "app", 1)
            pkt = self.forger.build(sender, "1rtt", payload, pn=pn, pn_len=2, keys=keys)
            d = self.forger.inject(ep, pkt, src=dgram.src, tag="hostile")
            ep.api("receive_datagram", d.data, d.src, ep.now())
            ep.pump()
            return not (ep.terminated or ep.broken)

        try:
            order = (a, b) if ch.choose(2) else (b, a)
            for seq in order:
                if not send(wf.encode_new_connection_id(seq, 0, *frames[seq])):
                    return True
            for _ in range(1 + ch.choose(3)):
                ep.api("change_connection_id")
                ep.pump()
                if ep.terminated or ep.broken:
                    return True
            rep = (a, b)[ch.choose(2)]
            send(wf.encode_new_connection_id(rep, (rep, a, b)[ch.choose(3)] if rep >= b else rep, *frames[rep]))
        except EndpointBroken:
            pass
        return True

    def on_datagram_delivered(self, ep, dgram, copy_index):
        if self.busy or ep.conn is None or ep.terminated or ep.broken:
            return
        if dgram.sender in ("hostile",):
            return
        if self.sim.k.now >= self.sim.cfg["t_fair"] or not self.ch.chance(self.rate):
            self.last_genuine = dgram.data
            return
        if self.sim.profile.get("late_retry_p") and self.ch.chance(self.sim.profile["late_retry_p"]):
            self.busy = True
            try:
                if self.late_retry(ep, dgram):
                    return
            finally:
                self.busy = False
                self.last_genuine = dgram.data
        if self.sim.profile.get("cid_dance_p") and self.ch.chance(self.sim.profile["cid_dance_p"]):
            self.busy = True
            try:
                if self.cid_dance(ep, dgram):
                    return
            finally:
                self.busy = False
                self.last_genuine = dgram.data
        if self.sim.profile.get("gap_flood_p") and self.ch.chance(self.sim.profile["gap_flood_p"]):
            self.busy = True
            try:
                if self.gap_flood(ep, dgram):
                    return
            finally:
                self.busy = False
                self.last_genuine = dgram.data
        self.busy = True
        self.cur_meta = dgram.meta if dgram.sender in ("client", "server") else None
        try:
            for _ in range(1 + self.ch.geometric(3, 0.7)):
                made = self.make(ep, dgram.data)
                if made is None:
                    continue
                kind, data = made
                self.count(kind)
                conn = ep.conn
                self.states.add((ep.name, str(getattr(conn, "_state", None)), getattr(conn, "_handshake_complete", 0),
                                 kind))
                src = dgram.src if self.ch.choose(8) else ("198.51.100.7", 4000 + self.ch.choose(3))
                d = self.forger.inject(ep, data, src=src, tag="hostile")
                self.sim.k.trace("hostile", ep.name, kind, len(data))
                ep.api("receive_datagram", d.data, d.src, ep.now())
                ep.pump()
                if ep.terminated or ep.broken:
                    break
        finally:
            self.busy = False
            self.last_genuine = dgram.data
