"""One integer decides everything.

A Chooser owns several named *streams* of decisions.  In generation mode every
stream draws from its own PRNG derived from (run seed, stream name) and records
the value; in replay mode it plays a recorded list back (0 once exhausted).
Value 0 is always the benign / simplest alternative, which is what makes
zeroing and truncating entries a meaningful way to shrink.

Separate streams keep unrelated decisions from shifting each other when the
shrinker removes something: the application script, the network fates, the timer
latenesses and the configuration each have their own.
"""
import hashlib
import random


def _derive(seed, name):
    h = hashlib.sha256(("%d/%s" % (seed, name)).encode()).digest()
    return int.from_bytes(h[:8], "big")


class Stream:
    __slots__ = ("name", "rng", "log", "replay", "pos")

    def __init__(self, seed, name, replay=None):
        self.name = name
        self.rng = random.Random(_derive(seed, name))
        self.log = []
        self.replay = replay
        self.pos = 0

    def _next(self, n, gen):
        if self.replay is not None:
            if self.pos < len(self.replay):
                v = self.replay[self.pos]
                if not isinstance(v, int) or v < 0:
                    v = 0
                if v >= n:
                    v = n - 1
            else:
                v = 0
            self.pos += 1
        else:
            v = gen()
        self.log.append(v)
        return v

    def choose(self, n):
        """uniform int in [0, n)"""
        if n <= 1:
            return self._next(1, lambda: 0)
        return self._next(n, lambda: self.rng.randrange(n))

    def chance(self, p):
        """True with probability p; logged 1/0 (0 = no)"""
        return bool(self._next(2, lambda: 1 if self.rng.random() < p else 0))

    def weighted(self, weights):
        """index drawn by weight; put the benign alternative first"""
        total = float(sum(weights))

        def gen():
            x = self.rng.random() * total
            acc = 0.0
            for i, w in enumerate(weights):
                acc += w
                if x < acc:
                    return i
            return len(weights) - 1

        return self._next(len(weights), gen)

    def pick(self, seq):
        return seq[self.choose(len(seq))]

    def geometric(self, maximum, mean):
        """small ints mostly, occasionally up to maximum (0 = smallest)"""
        def gen():
            v = int(self.rng.expovariate(1.0 / max(mean, 1e-9)))
            return min(v, maximum)

        return self._next(maximum + 1, gen)


class Chooser:
    def __init__(self, seed, replay=None):
        self.seed = seed
        self.replay = replay  # dict name -> list, or None
        self.streams = {}

    def stream(self, name):
        s = self.streams.get(name)
        if s is None:
            rp = None
            if self.replay is not None:
                rp = self.replay.get(name, [])
            s = self.streams[name] = Stream(self.seed, name, rp)
        return s

    def dump(self):
        return {name: list(s.log) for name, s in sorted(self.streams.items())}

    def total(self):
        return sum(len(s.log) for s in self.streams.values())
