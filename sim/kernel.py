"""Discrete-event kernel: virtual clock + event heap ordered by (time, seq)."""
import hashlib
import heapq
import os


class Violation(Exception):
    """Raised by an oracle. signature = (oracle id, discriminator)."""

    def __init__(self, oracle, discriminator, message):
        super().__init__("%s[%s]: %s" % (oracle, discriminator, message))
        self.oracle = oracle
        self.discriminator = discriminator
        self.message = message


class HarnessError(Exception):
    pass


class Event:
    __slots__ = ("time", "seq", "fn", "args", "cancelled", "tag")

    def __lt__(self, other):
        return (self.time, self.seq) < (other.time, other.seq)


class Kernel:
    def __init__(self):
        self.now = 0.0
        self.seq = 0
        self.steps = 0
        self.heap = []
        self._digest = hashlib.sha256()
        self.keep_trace = bool(os.environ.get("VERIF_TRACE"))
        self.trace_lines = []
        self.stopped = None  # reason string once stop() was called

    # ---- scheduling
    def at(self, time, fn, *args, tag=None):
        ev = Event()
        ev.time = max(time, self.now)
        self.seq += 1
        ev.seq = self.seq
        ev.fn = fn
        ev.args = args
        ev.cancelled = False
        ev.tag = tag
        heapq.heappush(self.heap, ev)
        return ev

    def after(self, delay, fn, *args, tag=None):
        return self.at(self.now + delay, fn, *args, tag=tag)

    def stop(self, reason):
        if self.stopped is None:
            self.stopped = reason

    # ---- deterministic event log (never reads a clock, never draws from a PRNG)
    def trace(self, *fields):
        line = "%d %.9f %s" % (self.steps, self.now, " ".join(str(f) for f in fields))
        self._digest.update(line.encode())
        self._digest.update(b"\n")
        if self.keep_trace:
            self.trace_lines.append(line)

    def digest(self):
        return self._digest.hexdigest()[:32]

    # ---- main loop
    def pending(self, tag_prefix=None):
        n = 0
        for ev in self.heap:
            if not ev.cancelled and (tag_prefix is None or (ev.tag or "").startswith(tag_prefix)):
                n += 1
        return n

    def run(self, until, max_steps, after_step=None):
        """Run events until the heap is empty, `until` (virtual) is reached, the
        step budget is used up or stop() is called. Returns the reason."""
        while self.heap:
            if self.stopped is not None:
                return self.stopped
            ev = self.heap[0]
            if ev.cancelled:
                heapq.heappop(self.heap)
                continue
            if ev.time > until:
                self.now = until
                return "time-cap"
            if self.steps >= max_steps:
                return "step-cap"
            heapq.heappop(self.heap)
            self.now = ev.time
            self.steps += 1
            ev.fn(*ev.args)
            if after_step is not None:
                after_step()
        if self.stopped is not None:
            return self.stopped
        return "empty"
