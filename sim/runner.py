"""Batch runner: seeds -> worker processes -> aggregated evidence; violations are
minimised, verified by replay in a fresh interpreter, matched against
known_findings.json and reported."""
import concurrent.futures
import faulthandler
import hashlib
import json
import multiprocessing
import os
import subprocess
import sys
import time
import traceback
from collections import Counter

from . import bootstrap
from .chooser import Chooser
from .kernel import HarnessError

VERIF = bootstrap.VERIF
# (overridable so that runs against scratch copies / seeded defects do not overwrite real evidence)
EVIDENCE_DIR = os.environ.get("VERIF_EVIDENCE_DIR") or os.path.join(VERIF, "evidence")
REPLAY_DIR = os.environ.get("VERIF_REPLAY_DIR") or os.path.join(VERIF, "replays")
KNOWN = os.path.join(VERIF, "known_findings.json")


def derive_seed(master, i):
    h = hashlib.sha256(("%d:%d" % (master, i)).encode()).digest()
    return int.from_bytes(h[:6], "big")


def stable_hash(obj):
    return hashlib.sha256(repr(obj).encode()).hexdigest()[:10]


class Outcome:
    """Result of one simulated run."""

    __slots__ = ("seed", "violation", "summary", "choices", "nontrivial", "signature", "sample")

    def __init__(self, seed):
        self.seed = seed
        self.violation = None  # dict(oracle, discriminator, message, time, step) or None
        self.summary = {}
        self.choices = None
        self.nontrivial = False
        self.signature = None  # schedule signature (str) for distinct counting
        self.sample = None


def violation_dict(v, kernel=None):
    d = {"oracle": v.oracle, "discriminator": v.discriminator, "message": v.message}
    if kernel is not None:
        d["time"] = round(kernel.now, 9)
        d["step"] = kernel.steps
    return d


def sig_of(vd):
    return "%s|%s" % (vd["oracle"], vd["discriminator"])


def load_known():
    try:
        with open(KNOWN) as f:
            return json.load(f)
    except FileNotFoundError:
        return {"findings": []}


def match_known(prop, vd, known):
    for f in known.get("findings", []):
        if f.get("status") != "known":
            continue
        if f["property"] != prop or f["oracle"] != vd["oracle"]:
            continue
        d = f.get("discriminator")
        if d is None or d == vd["discriminator"]:
            return f
    return None


# ----------------------------------------------------------------------- worker
def _worker(args):
    (modname, tier, master, start, stride, n_max, deadline, variant) = args
    faulthandler.enable()
    import importlib

    mod = importlib.import_module(modname)
    known = load_known()
    agg = {
        "runs": 0, "fired": Counter(), "reasons": Counter(), "probes": Counter(), "events": Counter(),
        "sim_time": 0.0, "steps": 0, "sigs": set(), "violations": [], "known_hits": Counter(),
        "samples": [], "inconclusive": 0, "aborted": 0, "states": set(), "extra": Counter(), "harness_errors": [],
    }
    i = start
    armed_at = 0.0
    # checks of native code (C04): remember which run is executing, so that a run that kills the
    # interpreter (SIGSEGV, sanitizer abort) can be attributed and replayed by the parent
    cur_path = None
    if getattr(mod, "CRASH_IS_VIOLATION", False) and os.environ.get("VERIF_PROGRESS_DIR"):
        cur_path = os.path.join(os.environ["VERIF_PROGRESS_DIR"], "%d.cur" % os.getpid())
    while i < n_max and time.time() < deadline:
        seed = derive_seed(master, i)
        i += stride
        # watchdog against hangs: re-armed at most every 5 s (arming spawns a thread, which
        # dominates cheap runs when done per run)
        if time.time() - armed_at > 5.0:
            faulthandler.dump_traceback_later(180, exit=True)
            armed_at = time.time()
        if cur_path is not None:
            with open(cur_path, "w") as f:
                f.write("%d %s" % (seed, variant))
        try:
            out = mod.run_one(seed, tier=tier, variant=variant)
        except HarnessError as e:  # pragma: no cover
            agg["harness_errors"].append((seed, repr(e), traceback.format_exc()))
            break
        except Exception as e:  # pragma: no cover  (a bug in the harness, never a verdict)
            agg["harness_errors"].append((seed, repr(e), traceback.format_exc()))
            break
        agg["runs"] += 1
        s = out.summary
        for k, v in (s.get("fired") or {}).items():
            agg["fired"][k] += v
        for k, v in (s.get("probes") or {}).items():
            agg["probes"][k] += v
        for k, v in (s.get("extra") or {}).items():
            agg["extra"][k] += v
        agg["reasons"][s.get("reason", "?")] += 1
        agg["sim_time"] += s.get("sim_time", 0.0)
        agg["steps"] += s.get("steps", 0)
        if s.get("inconclusive"):
            agg["inconclusive"] += 1
        if s.get("aborted"):
            agg["aborted"] += 1
        for st in s.get("states", ()):
            agg["states"].add(st)
        if out.nontrivial and out.signature is not None:
            agg["sigs"].add(out.signature)
        if out.sample is not None and len(agg["samples"]) < 3:
            agg["samples"].append(out.sample)
        if out.violation is not None:
            kf = match_known(mod.PROPERTY, out.violation, known)
            if kf is not None:
                agg["known_hits"][kf["id"]] += 1
            elif len(agg["violations"]) < 40:
                agg["violations"].append((seed, out.violation, variant))
                if cur_path is not None:  # survives a later death of this process (heap already corrupted)
                    with open(cur_path[:-4] + ".viol", "a") as f:
                        f.write(json.dumps([seed, out.violation, variant]) + "\n")
            else:
                agg.setdefault("violations_dropped", 0)
                agg["violations_dropped"] = agg.get("violations_dropped", 0) + 1
    faulthandler.cancel_dump_traceback_later()
    if cur_path is not None:
        try:
            os.unlink(cur_path)
        except OSError:
            pass
    agg["sigs"] = list(agg["sigs"])
    agg["states"] = list(agg["states"])
    return agg


# --------------------------------------------------------------------- shrinking
def shrink(mod, seed, vd, tier, variant, budget_s=45.0):
    """Delta-debug the choice log while the same violation signature persists."""
    target = sig_of(vd)
    t_end = time.time() + budget_s

    def attempt(choices):
        out = mod.run_one(seed, tier=tier, variant=variant, replay=choices)
        if out.violation is not None and sig_of(out.violation) == target:
            return out
        return None

    base = mod.run_one(seed, tier=tier, variant=variant)
    if base.violation is None or sig_of(base.violation) != target:
        return None
    best = base
    tries = 0
    improved = True
    while improved and time.time() < t_end:
        improved = False
        # pass 1: per stream, truncate (exhausted replay answers 0 = benign)
        for name in sorted(best.choices):
            lst = best.choices[name]
            lo, hi = 0, len(lst)
            while lo < hi and time.time() < t_end:
                mid = (lo + hi) // 2
                cand = dict(best.choices)
                cand[name] = lst[:mid]
                tries += 1
                r = attempt(cand)
                if r is not None:
                    best = r
                    lst = best.choices.get(name, [])
                    hi = min(mid, len(lst))
                    improved = improved or (mid < len(lst))
                else:
                    lo = mid + 1
        # pass 2: zero out blocks
        for name in sorted(best.choices):
            n = len(best.choices[name])
            size = max(n // 2, 1)
            while size >= 1 and time.time() < t_end:
                pos = 0
                while pos < len(best.choices.get(name, [])) and time.time() < t_end:
                    lst = list(best.choices[name])
                    if any(lst[pos:pos + size]):
                        cand = dict(best.choices)
                        lst[pos:pos + size] = [0] * len(lst[pos:pos + size])
                        cand[name] = lst
                        tries += 1
                        r = attempt(cand)
                        if r is not None:
                            best = r
                            improved = True
                    pos += size
                size //= 2
        # pass 3: lower individual values
        for name in sorted(best.choices):
            idx = 0
            while idx < len(best.choices.get(name, [])) and time.time() < t_end:
                v = best.choices[name][idx]
                for nv in (v // 2, v - 1):
                    if v > 1 and 0 < nv < v:
                        cand = dict(best.choices)
                        lst = list(cand[name])
                        lst[idx] = nv
                        cand[name] = lst
                        tries += 1
                        r = attempt(cand)
                        if r is not None:
                            best = r
                            improved = True
                            break
                idx += 1
    return best, tries


def write_replay(mod, seed, tier, variant, out, minimised, tries):
    os.makedirs(REPLAY_DIR, exist_ok=True)
    path = os.path.join(REPLAY_DIR, "%s-%s-%d.json" % (mod.PROPERTY, mod.NAME, seed))
    doc = {
        "property": mod.PROPERTY, "check": mod.NAME, "module": mod.__name__, "tier": tier, "variant": variant,
        "seed": seed, "violation": out.violation, "choices": out.choices, "digest": out.summary.get("digest"),
        "minimised": minimised, "shrink_attempts": tries, "code": bootstrap.code_identity(),
        "n_choices": sum(len(v) for v in out.choices.values()) if out.choices else 0,
        "readable": out.sample,
    }
    with open(path, "w") as f:
        json.dump(doc, f, indent=1, default=str)
    return path


def verify_replay(path):
    """Re-execute in a fresh interpreter; True iff the same violation reappears."""
    env = dict(os.environ)
    env["PYTHONHASHSEED"] = "0"
    r = subprocess.run([sys.executable, os.path.join(VERIF, "cli.py"), "--replay", path],
                       capture_output=True, text=True, env=env, timeout=600)
    return r.returncode == 1 and "REPRODUCED" in r.stdout, r.stdout + r.stderr


def replay_file(path):
    import importlib

    with open(path) as f:
        doc = json.load(f)
    if doc["violation"].get("discriminator") == "interpreter-died" and not os.environ.get("VERIF_REPLAY_INNER"):
        # the run is expected to kill the interpreter: execute it in a child and judge the child's fate
        env = dict(os.environ, VERIF_REPLAY_INNER="1")
        r = subprocess.run([sys.executable, os.path.join(VERIF, "cli.py"), "--replay", path], env=env,
                           capture_output=True, text=True, timeout=900)
        if r.returncode < 0 or r.returncode > 128 or "AddressSanitizer" in r.stderr:
            tail = [l for l in (r.stderr or "").splitlines() if "ERROR" in l or "Fatal" in l or "SEGV" in l][:1]
            print("REPRODUCED property=%s %s child exit status %d" % (doc["property"], sig_of(doc["violation"]),
                                                                     r.returncode))
            print("  the run killed the interpreter%s" % ((": " + tail[0][:200]) if tail else ""))
            print("VIOLATION property=%s replay=%s" % (doc["property"], path))
            return 1
        print("NOT-REPRODUCED property=%s wanted=%s got=child exit status %d" % (
            doc["property"], sig_of(doc["violation"]), r.returncode))
        return 3
    mod = importlib.import_module(doc["module"])
    out = mod.run_one(doc["seed"], tier=doc["tier"], variant=doc.get("variant"), replay=doc["choices"])
    want = sig_of(doc["violation"])
    if out.violation is not None and sig_of(out.violation) == want:
        same_digest = out.summary.get("digest") == doc.get("digest")
        print("REPRODUCED property=%s %s digest_match=%s" % (doc["property"], want, same_digest))
        print("  " + out.violation["message"])
        print("VIOLATION property=%s replay=%s" % (doc["property"], path))
        return 1
    print("NOT-REPRODUCED property=%s wanted=%s got=%s" % (
        doc["property"], want, sig_of(out.violation) if out.violation else None))
    return 3


def _saved_violations(progress_dir):
    out = []
    try:
        for fn in sorted(os.listdir(progress_dir)):
            if fn.endswith(".viol"):
                for line in open(os.path.join(progress_dir, fn)):
                    try:
                        out.append(json.loads(line))
                    except ValueError:
                        pass
    except OSError:
        pass
    return out


def _attribute_crash(mod, tier, progress_dir):
    """A worker process died. For every run that was executing in some worker at that moment, re-execute
    it alone in a fresh interpreter: a run that kills the interpreter again is a violation of a
    memory-safety property (replay file = the seed, nothing else is known). None = not attributable."""
    import shutil

    cands = []
    for fn in sorted(os.listdir(progress_dir)):
        if not fn.endswith(".cur"):
            continue
        try:
            seed, variant = open(os.path.join(progress_dir, fn)).read().split(" ", 1)
            cands.append((int(seed), None if variant == "None" else variant))
        except (OSError, ValueError):
            pass
    shutil.rmtree(progress_dir, ignore_errors=True)
    for seed, variant in cands:
        out = Outcome(seed)
        out.violation = {"oracle": "%s.crash" % mod.NAME, "discriminator": "interpreter-died",
                         "message": "the run with this seed (variant %s) kills the interpreter" % variant}
        out.choices = None
        out.summary = {}
        out.sample = {"seed": seed, "variant": variant}
        path = write_replay(mod, seed, tier, variant, out, False, 0)
        ok, log = verify_replay(path)
        if ok:
            sig = sig_of(out.violation)
            print("  %s: %s" % (sig, log.strip().splitlines()[-2][:300] if len(log.strip().splitlines()) > 1 else ""))
            print("VIOLATION property=%s replay=%s" % (mod.PROPERTY, path))
            write_evidence(mod, tier, 0, {
                "runs": 0, "fired": Counter(), "reasons": Counter(), "probes": Counter(), "sim_time": 0.0, "steps": 0,
                "sigs": set(), "violations": [], "known_hits": Counter(), "samples": [], "inconclusive": 0,
                "aborted": 0, "states": set(), "extra": Counter()}, 0.0, 0.0, [
                {"signature": sig, "seed": seed, "replay": path, "count": 1,
                 "message": out.violation["message"], "minimised": False}], 0)
            return 1
        os.unlink(path)
    return None


# ------------------------------------------------------------------------ batch
def run_check(mod, tier, master_seed, jobs=None, budget_s=None, n_max=None):
    t0 = time.time()
    jobs = jobs or int(os.environ.get("VERIF_JOBS", "0")) or (os.cpu_count() or 4)
    plan = mod.PLAN[tier]
    budget_s = budget_s or float(os.environ.get("VERIF_BUDGET", plan["budget_s"]))
    n_max = n_max or int(os.environ.get("VERIF_RUNS", plan["max_runs"]))
    variants = plan.get("variants", [None])
    # make sure the C helpers are built before forking (one compile, not sixteen)
    bootstrap.load()
    if hasattr(mod, "prepare"):
        mod.prepare(tier)
    deadline = t0 + budget_s
    ctx = multiprocessing.get_context("fork")
    tasks = []
    per_variant_jobs = max(1, jobs // len(variants))
    for vi, variant in enumerate(variants):
        for w in range(per_variant_jobs):
            tasks.append((mod.__name__, tier, master_seed * 1000 + vi, w, per_variant_jobs, n_max // len(variants),
                          deadline, variant))
    aggs = []
    crashed_with = None
    progress_dir = None
    if getattr(mod, "CRASH_IS_VIOLATION", False):
        import tempfile

        progress_dir = tempfile.mkdtemp(prefix="progress-", dir=os.path.join(VERIF, ".cache"))
        os.environ["VERIF_PROGRESS_DIR"] = progress_dir
    with concurrent.futures.ProcessPoolExecutor(max_workers=min(jobs, len(tasks)), mp_context=ctx) as ex:
        futs = [ex.submit(_worker, t) for t in tasks]
        for f in futs:
            try:
                aggs.append(f.result(timeout=budget_s + 300))
            except Exception as e:  # worker died: harness error, never a verdict ...
                saved = _saved_violations(progress_dir) if progress_dir else []
                rc = _attribute_crash(mod, tier, progress_dir) if progress_dir else None
                if rc is not None:  # ... unless the check is about native code and a run reproducibly kills it
                    return rc
                if saved:
                    # ... or runs before the death had already reported violations (memory corrupted by an
                    # earlier run of the same process): triage those, without statistics
                    print("note: a worker process died; judging the %d violation(s) reported before that" % len(saved))
                    crashed_with = saved
                    break
                print("HARNESS-ERROR worker failed: %r" % (e,))
                return 2
    if progress_dir:
        import shutil

        shutil.rmtree(progress_dir, ignore_errors=True)
    total = {
        "runs": 0, "fired": Counter(), "reasons": Counter(), "probes": Counter(), "sim_time": 0.0, "steps": 0,
        "sigs": set(), "violations": [], "known_hits": Counter(), "samples": [], "inconclusive": 0, "aborted": 0,
        "states": set(), "extra": Counter(),
    }
    harness_errors = []
    for a in aggs:
        total["runs"] += a["runs"]
        for k in ("fired", "reasons", "probes", "known_hits", "extra"):
            total[k].update(a[k])
        total["sim_time"] += a["sim_time"]
        total["steps"] += a["steps"]
        total["sigs"].update(a["sigs"])
        total["states"].update(a["states"])
        total["violations"].extend(a["violations"])
        total["inconclusive"] += a["inconclusive"]
        total["aborted"] += a["aborted"]
        if len(total["samples"]) < 3:
            total["samples"].extend(a["samples"][: 3 - len(total["samples"])])
        harness_errors.extend(a["harness_errors"])
    if crashed_with:
        total["violations"] = [tuple(x) for x in crashed_with]
    if harness_errors:
        seed, err, tb = harness_errors[0]
        print("HARNESS-ERROR in %s seed=%d: %s\n%s" % (mod.__name__, seed, err, tb))
        return 2
    wall_runs = time.time() - t0

    # ---- triage violations: group by signature, minimise one per signature
    known = load_known()
    exit_code = 0
    reported = []
    by_sig = {}
    for seed, vd, variant in total["violations"]:
        by_sig.setdefault(sig_of(vd), []).append((seed, vd, variant))
    for sig, lst in sorted(by_sig.items())[:4]:
        seed, vd, variant = sorted(lst, key=lambda x: x[0])[0]
        res = shrink(mod, seed, vd, tier, variant, budget_s=float(os.environ.get("VERIF_SHRINK_S", "40")))
        if res is None:
            # Not reproducible in THIS process. One legitimate cause: sanitizer reports (C04) are
            # de-duplicated per process by the ASan runtime in recover mode. Fall back to the
            # unminimised choice log of the seed and let the fresh-interpreter replay decide.
            again = mod.run_one(seed, tier=tier, variant=variant)
            again.violation = vd
            path = write_replay(mod, seed, tier, variant, again, False, 0)
            ok, log = verify_replay(path)
            if not ok:
                print("HARNESS-ERROR violation %s (seed %d) reproduced neither in-process nor in a fresh "
                      "interpreter: nondeterminism\n%s" % (sig, seed, log[-1500:]))
                return 2
            print("  %s: %s" % (sig, vd["message"][:600]))
            print("VIOLATION property=%s replay=%s" % (mod.PROPERTY, path))
            reported.append({"signature": sig, "seed": seed, "replay": path, "count": len(lst),
                             "message": vd["message"][:600], "minimised": False})
            exit_code = 1
            continue
        best, tries = res
        path = write_replay(mod, seed, tier, variant, best, True, tries)
        ok, log = verify_replay(path)
        if not ok:
            print("HARNESS-ERROR replay of %s in a fresh interpreter did not reproduce:\n%s" % (path, log[-2000:]))
            return 2
        print("  %s: %s" % (sig, best.violation["message"]))
        print("VIOLATION property=%s replay=%s" % (mod.PROPERTY, path))
        reported.append({"signature": sig, "seed": seed, "replay": path, "count": len(lst),
                         "message": best.violation["message"]})
        exit_code = 1
    for f in known.get("findings", []):
        if f.get("status") == "known" and f["property"] == mod.PROPERTY and f.get("check", mod.NAME) == mod.NAME:
            n = total["known_hits"].get(f["id"], 0)
            print("KNOWN-FINDING: property=%s %s (met %d times in this run)" % (mod.PROPERTY, f["what"], n))

    write_evidence(mod, tier, master_seed, total, time.time() - t0, wall_runs, reported, jobs)
    return exit_code


def write_evidence(mod, tier, master_seed, total, wall, wall_runs, reported, jobs):
    os.makedirs(EVIDENCE_DIR, exist_ok=True)
    runs = total["runs"]
    cov = {
        "evaluations": runs,
        "distinct_nontrivial": len(total["sigs"]),
        "rule": mod.RULE,
        "samples": total["samples"] or ["(no sample recorded)"],
        "runs_per_hour": int(runs / max(wall_runs, 1e-9) * 3600),
        "seeds_per_hour": int(runs / max(wall_runs, 1e-9) * 3600),
        "simulated_seconds": round(total["sim_time"], 3),
        "kernel_steps": total["steps"],
        "faults_fired": dict(total["fired"]),
        "probes": dict(total["probes"]),
        "end_reasons": dict(total["reasons"]),
        "inconclusive_runs": total["inconclusive"],
        "runs_aborted_by_foreign_api_exception": total["aborted"],
        "distinct_states": len(total["states"]),
        "known_finding_hits": dict(total["known_hits"]),
        "components": mod.COMPONENTS,
        "workers": jobs,
        "reported_violations": reported,
        "code": bootstrap.code_identity(),
        "exhaustive": False,
    }
    cov.update({k: v for k, v in total["extra"].items()})
    if hasattr(mod, "evidence_extra"):
        cov.update(mod.evidence_extra(tier, total))
    doc = {
        "property_id": mod.PROPERTY,
        "tier": tier,
        "seed": master_seed,
        "level": mod.LEVEL,
        "coverage": cov,
        "assumptions": mod.ASSUMPTIONS,
        "wall_s": round(wall, 2),
        "violations": len(reported),
    }
    path = os.path.join(EVIDENCE_DIR, "%s.json" % mod.PROPERTY)
    with open(path, "w") as f:
        json.dump(doc, f, indent=1, default=str)
    print("evidence: %s  runs=%d distinct_nontrivial=%d wall=%.1fs (%d runs/h) faults=%s" % (
        path, runs, len(total["sigs"]), wall, cov["runs_per_hour"], dict(total["fired"])))
