"""Shared pieces of the HTTP/3 harnesses (C14, C16): a recording transport stub,
varints, delivery schedules (splitting x interleaving), event normalisation and
header-list generators.  Nothing here imports aioquic at module import time.
"""

# ------------------------------------------------------------------ varints


def varint(v):
    """minimal QUIC variable-length integer"""
    if v < 0x40:
        return bytes([v])
    if v < 0x4000:
        return (v | 0x4000).to_bytes(2, "big")
    if v < 0x40000000:
        return (v | 0x80000000).to_bytes(4, "big")
    return (v | 0xC000000000000000).to_bytes(8, "big")


def varint_n(v, n):
    """v encoded on exactly n in (1, 2, 4, 8) bytes (non-minimal encodings are legal)"""
    prefix = {1: 0, 2: 1, 4: 2, 8: 3}[n]
    return (v | (prefix << (8 * n - 2))).to_bytes(n, "big")


def read_varint(data, pos):
    """returns (value, new_pos) or (None, pos) when truncated"""
    if pos >= len(data):
        return None, pos
    n = 1 << (data[pos] >> 6)
    if pos + n > len(data):
        return None, pos
    v = int.from_bytes(data[pos:pos + n], "big") & ((1 << (8 * n - 2)) - 1)
    return v, pos + n


# ------------------------------------------------------- recording transport


class _Cfg:
    __slots__ = ("is_client",)

    def __init__(self, is_client):
        self.is_client = is_client


class FakeQuic:
    """What H3Connection touches of a QuicConnection, recording what is sent
    (the same pattern as tests/test_h3.py FakeQuicConnection)."""

    def __init__(self, is_client, datagrams=True, logger=False):
        self.configuration = _Cfg(is_client)
        self._quic_logger = None
        if logger:  # the real qlog trace object: the HTTP layer logs every frame it sends and receives
            from aioquic.quic.logger import QuicLogger

            self._quic_logger = QuicLogger().start_trace(is_client=is_client, odcid=b"verif-od")
        self._remote_max_datagram_frame_size = 65536 if datagrams else None
        self._next_bidi = 0 if is_client else 1
        self._next_uni = 2 if is_client else 3
        self.writes = []  # (stream_id, bytes, fin) in call order
        self.datagrams = []
        self.closed = None

    def close(self, error_code=0, frame_type=None, reason_phrase=""):
        if self.closed is None:
            self.closed = (int(error_code), reason_phrase)

    def get_next_available_stream_id(self, is_unidirectional=False):
        if is_unidirectional:
            sid = self._next_uni
            self._next_uni += 4
        else:
            sid = self._next_bidi
            self._next_bidi += 4
        return sid

    def send_stream_data(self, stream_id, data, end_stream=False):
        self.writes.append((stream_id, bytes(data), bool(end_stream)))

    def send_datagram_frame(self, data):
        self.datagrams.append(bytes(data))


class Streams:
    """Per-stream byte strings in first-use order, with the write boundaries."""

    def __init__(self, writes, datagrams=()):
        self.order = []
        self.data = {}
        self.fin = {}
        self.bounds = {}  # sid -> offsets at which a write started
        for sid, data, fin in writes:
            if sid not in self.data:
                self.order.append(sid)
                self.data[sid] = bytearray()
                self.fin[sid] = False
                self.bounds[sid] = []
            self.bounds[sid].append(len(self.data[sid]))
            self.data[sid] += data
            if fin:
                self.fin[sid] = True
        for sid in self.order:
            self.data[sid] = bytes(self.data[sid])
        self.datagrams = list(datagrams)


# ---------------------------------------------------------- delivery schedule
# A schedule is a list of deliveries ("s", stream_id, bytes, fin) / ("d", bytes).
# The transport only ever produces stream events with data, or with the end flag
# (possibly empty) - never an empty event without the end flag.

DGRAM = "dgram"


def cuts_from_mask(n, mask):
    """bit i of mask set -> cut after byte i (0 <= i < n-1)"""
    return [i + 1 for i in range(n - 1) if (mask >> i) & 1]


def chunks_of(data, cuts, fin, fin_alone):
    out = []
    prev = 0
    for c in cuts:
        if c > prev:
            out.append(data[prev:c])
            prev = c
    if len(data) > prev:
        out.append(data[prev:])
    res = [(c, False) for c in out]
    if fin:
        if res and not fin_alone:
            res[-1] = (res[-1][0], True)
        else:
            res.append((b"", True))
    return res


def draw_cuts(s, n, bounds, style=None):
    """cut offsets for a stream of n bytes. s: chooser stream. style 0 = whole."""
    if n <= 1:
        return []
    if style is None:
        style = s.weighted([3, 2, 4, 3, 1])
    if style == 0:
        return []
    if style == 1:  # every byte (bounded)
        if n <= 96:
            return list(range(1, n))
        start = s.choose(n - 64)
        return list(range(start + 1, start + 64))
    if style == 2:  # a few random cuts
        k = 1 + s.geometric(min(n - 2, 24), 3)
        return sorted(set(1 + s.choose(n - 1) for _ in range(k)))
    if style == 3:  # around write (= frame) boundaries
        out = set()
        for b in bounds:
            if s.chance(0.6):
                d = b + s.choose(5) - 1  # -1 .. +3
                if 0 < d < n:
                    out.add(d)
        if not out:
            out.add(1 + s.choose(n - 1))
        return sorted(out)
    # style 4: fixed size pieces
    size = 1 + s.choose(min(n, 40))
    return list(range(size, n, size))


def interleave(s, per_stream, order, style=None, last=None):
    """per_stream: dict key -> list of deliveries (per-stream order is kept).
    order: keys in canonical order. style 0 = stream after stream."""
    if style is None:
        style = s.weighted([2, 5, 3, 2, 1])
    queues = [(k, list(per_stream[k])) for k in order if per_stream.get(k)]
    out = []
    if style == 0:
        for k, q in queues:
            out.extend(q)
        return out
    if style == 4:  # whole streams in reverse order
        for k, q in reversed(queues):
            out.extend(q)
        return out
    if style == 2 and last is not None:  # hold one stream (the QPACK encoder stream) back
        held = [q for k, q in queues if k == last]
        rest = [(k, q) for k, q in queues if k != last]
        # everything else in random order, then the held stream mixed into the tail
        pos = [0] * len(rest)
        live = list(range(len(rest)))
        while live:
            i = live[s.choose(len(live))]
            out.append(rest[i][1][pos[i]])
            pos[i] += 1
            if pos[i] >= len(rest[i][1]):
                live.remove(i)
        keep = s.choose(len(out) + 1)  # how many deliveries stay in front of the held stream
        tail = out[keep:]
        out = out[:keep]
        h = held[0] if held else []
        hi = ti = 0
        while hi < len(h) or ti < len(tail):
            if hi < len(h) and (ti >= len(tail) or s.chance(0.7)):
                out.append(h[hi])
                hi += 1
            else:
                out.append(tail[ti])
                ti += 1
        return out
    if style == 3:  # round robin
        pos = [0] * len(queues)
        left = sum(len(q) for k, q in queues)
        while left:
            for i, (k, q) in enumerate(queues):
                if pos[i] < len(q):
                    out.append(q[pos[i]])
                    pos[i] += 1
                    left -= 1
        return out
    # style 1 (and 2 without a stream to hold): uniformly random ready stream
    pos = [0] * len(queues)
    live = list(range(len(queues)))
    while live:
        i = live[s.choose(len(live))]
        out.append(queues[i][1][pos[i]])
        pos[i] += 1
        if pos[i] >= len(queues[i][1]):
            live.remove(i)
    return out


# ------------------------------------------------------ event normalisation
# per stream: list of items
#   ("H", headers, push_id)   HeadersReceived
#   ("P", push_id, headers)   PushPromiseReceived
#   ("D", bytes, push_id)     DataReceived, adjacent merged, empty dropped
#   ("W", session_id, bytes)  WebTransportStreamDataReceived, adjacent merged, empty dropped
#   ("END",)                  end of stream marker
# datagrams: key "dgram": ("G", stream_id, bytes)


def norm_add(store, key, item):
    lst = store.get(key)
    if lst is None:
        lst = store[key] = []
    lst.append(item)


def norm_data(store, key, kind, tag, data):
    if not data:
        return
    lst = store.get(key)
    if lst is None:
        lst = store[key] = []
    if lst and lst[-1][0] == kind and lst[-1][1] == tag:
        lst[-1] = (kind, tag, lst[-1][2] + bytes(data))
    else:
        lst.append((kind, tag, bytes(data)))


def normalise_into(store, events):
    for ev in events:
        n = type(ev).__name__
        if n == "DataReceived":
            norm_data(store, ev.stream_id, "D", ev.push_id, ev.data)
            if ev.stream_ended:
                norm_add(store, ev.stream_id, ("END",))
        elif n == "HeadersReceived":
            norm_add(store, ev.stream_id, ("H", tuple((bytes(k), bytes(v)) for k, v in ev.headers), ev.push_id))
            if ev.stream_ended:
                norm_add(store, ev.stream_id, ("END",))
        elif n == "PushPromiseReceived":
            norm_add(store, ev.stream_id, ("P", ev.push_id, tuple((bytes(k), bytes(v)) for k, v in ev.headers)))
        elif n == "WebTransportStreamDataReceived":
            norm_data(store, ev.stream_id, "W", ev.session_id, ev.data)
            if ev.stream_ended:
                norm_add(store, ev.stream_id, ("END",))
        elif n == "DatagramReceived":
            norm_add(store, DGRAM, ("G", ev.stream_id, bytes(ev.data)))
        else:  # an event type this harness does not know: keep it visible
            norm_add(store, getattr(ev, "stream_id", "?"), ("?", n))
    return store


def item_brief(it):
    if it is None:
        return "none"
    return it[0]


def first_diff(a, b):
    """(index, item_a, item_b) of the first difference of two item lists, or None"""
    for i in range(max(len(a), len(b))):
        x = a[i] if i < len(a) else None
        y = b[i] if i < len(b) else None
        if x != y:
            return i, x, y
    return None


# ------------------------------------------------------------ header lists

STATIC_FULL = [
    (b"accept", b"*/*"), (b"accept-encoding", b"gzip, deflate, br"), (b"cache-control", b"no-cache"),
    (b"content-type", b"text/plain;charset=utf-8"), (b"content-type", b"application/json"), (b"vary", b"origin"),
    (b"x-content-type-options", b"nosniff"), (b"accept-ranges", b"bytes"), (b"content-encoding", b"gzip"),
    (b"x-frame-options", b"deny"), (b"age", b"0"),
]
STATIC_NAME = [b"content-type", b"user-agent", b"cookie", b"etag", b"server", b"date", b"referer", b"location",
               b"set-cookie", b"if-none-match", b"authorization", b"link"]
CUSTOM_NAME = [b"x-a", b"x-verif-trace", b"x-request-id", b"priority", b"x-0", b"x~odd!name#$%&'*+.^_`|",
               b"x-" + b"long-name-" * 9]
COMMON_VALUES = [b"v", b"verif/1.0", b"0123456789abcdef0123456789abcdef", b"a=b; c=d", b"\"abc\"", b"Mon, 22 Jul 2019 06:33:33 GMT"]


def gen_value(s):
    k = s.weighted([6, 3, 1, 1, 1, 1, 1, 2])
    if k == 7:  # legal boundary bytes in first / last position (only SP and HTAB are forbidden there), also alone
        edge = (0x01, 0x08, 0x0B, 0x0C, 0x0E, 0x1C, 0x1F, 0x21, 0x7E, 0x7F, 0x80, 0x85, 0xA0, 0xFF)
        a, b = edge[s.choose(len(edge))], edge[s.choose(len(edge))]
        return (bytes([a]), bytes([a, b]), bytes([a]) + b"mid dle" + bytes([b]))[s.choose(3)]
    if k == 0:
        return COMMON_VALUES[s.choose(len(COMMON_VALUES))]
    if k == 1:  # unique short value (literal, then dynamic when repeated)
        return b"u%d" % s.choose(1000)
    if k == 2:
        return b""
    if k == 3:  # not UTF-8, high bytes
        return bytes([0xFF, 0xFE, 0x80 + s.choose(64), 0xC3, 0x28])
    if k == 4:  # inner whitespace / odd ASCII
        return b"a \t b\x01\x7f;,=\\"
    if k == 5:  # long (two-byte frame length, above 63)
        return bytes(0x61 + (i * 7 + 3) % 26 for i in range(60 + s.choose(300)))
    # large (pylsqpack's sending API refuses a field above 4096 bytes, and a header block or the
    # encoder instructions of one call above its 4096-byte buffers: gen_fields keeps a budget)
    return bytes(0x41 + (i * 11) % 50 for i in range(1200 + s.choose(1500)))


def gen_fields(s, small=False):
    """regular (non-pseudo) header fields"""
    out = []
    n = s.geometric(2, 0.4) if small else s.geometric(12, 3)
    for _ in range(n):
        if sum(len(k) + len(v) + 8 for k, v in out) > 2900:
            break
        k = s.weighted([3, 3, 3])
        if k == 0:
            out.append(STATIC_FULL[s.choose(len(STATIC_FULL))])
        elif k == 1:
            out.append((STATIC_NAME[s.choose(len(STATIC_NAME))], b"v" if small else gen_value(s)))
        else:
            out.append((CUSTOM_NAME[s.choose(2 if small else len(CUSTOM_NAME))], b"v" if small else gen_value(s)))
    while sum(len(k) + len(v) + 8 for k, v in out) > 3300:
        out.pop()
    return out


def gen_request_headers(s, small=False, protocol=None, full=False):
    method = [b"GET", b"POST", b"OPTIONS", b"PATCH"][s.choose(4)]
    scheme = [b"https", b"http", b"wss"][s.choose(3)]
    authority = [b"localhost", b"example.com:443", b"a"][s.choose(3)]
    path = [b"/", b"/index.html", b"/p"][s.choose(3)]
    if not small and s.chance(0.15):
        path = b"/" + bytes(0x61 + (i * 5) % 26 for i in range(40 + s.choose(200)))
    hs = [(b":method", b"CONNECT" if protocol else method)]
    if small and protocol is None and not full and s.chance(0.5):
        hs.append((b":authority", authority))  # the shortest valid request: method + authority
        return hs
    hs += [(b":scheme", scheme), (b":authority", authority), (b":path", path)]
    if protocol:
        hs.append((b":protocol", protocol))
    return hs + gen_fields(s, small)


def gen_response_headers(s, small=False):
    status = [b"200", b"404", b"304", b"503", b"204", b"299"][s.choose(6)]
    return [(b":status", status)] + gen_fields(s, small)


def gen_trailers(s, small=False):
    return gen_fields(s, small) or [(b"x-a", b"v")]


BODY_SIZES = [0, 1, 2, 3, 17, 61, 62, 63, 64, 65, 200, 1000, 16383, 16384, 16385, 20000]


def gen_body_size(s, small=False):
    if small:
        return s.choose(4)
    return BODY_SIZES[s.weighted([3, 3, 2, 2, 3, 1, 1, 2, 2, 1, 2, 1, 0.3, 0.3, 0.2, 0.2])]


def body_bytes(sid, offset, n):
    """deterministic body pattern; contains bytes that look like frame headers"""
    return bytes(((sid * 13 + (offset + i) * 7) >> 1) & 0xFF for i in range(n))
