"""Shared run_one() body for checks built on TransportSim."""
from .chooser import Chooser
from .kernel import Violation
from .monitor import WireMonitor
from .runner import Outcome, stable_hash, violation_dict
from .transport import TransportSim

SAMPLE_KEYS = ("latency", "fate_weights", "t_adv", "blackouts", "rebinds", "cc", "client_versions",
               "server_versions", "client_suites", "server_suites", "client_mds", "server_mds",
               "client_max_data", "client_max_stream_data", "server_max_data", "server_max_stream_data",
               "server_cert", "faults_on")


def run_resumed(seed, replay, profile2, make_oracles2, variant, early_writes=(), extra_summary=None,
                secrets_log=True, quic_logger=False, keep=None):
    """The `restart` fault: connection 1 (fault-free) obtains a session ticket, the application keeps
    it, connection 2 resumes with it and optionally writes 0-RTT data at t=0. Oracles attach to
    connection 2. Returns an Outcome."""
    ch = Chooser(seed, replay)
    store = {"tickets": {}, "client": []}

    def kwargs():
        return {
            "client_kwargs": {"session_ticket_handler": lambda t: store["client"].append(t)},
            "server_kwargs": {"session_ticket_handler": lambda t: store["tickets"].__setitem__(t.ticket, t),
                              "session_ticket_fetcher": lambda label: store["tickets"].pop(label, None)},
        }

    base = {"versions": False, "cipher_suites": False, "server_cert": "server_ed25519", "small_limits": 0.0,
            "secrets_log": secrets_log, "quic_logger": quic_logger, "idle_timeouts": (20.0,)}
    prof1 = dict(base, fault_free=True, max_ops=2, fair_budget=30.0, drain=1.0)
    prof1.update(kwargs())
    out = Outcome(seed)
    sim1 = TransportSim(ch, prof1, [WireMonitor()] if secrets_log else [])
    if keep is not None:
        keep["sim1"] = sim1
        sim1.k.keep_trace = True
    sim1.run()
    if not store["client"]:
        out.summary = dict(sim1.summary(), reason="no-ticket", inconclusive=True)
        out.choices = ch.dump()
        return out
    ticket = store["client"][-1]

    def configure(sim, conf, is_client):
        if is_client:
            conf.session_ticket = ticket
        hook = profile2.get("configure2")
        if hook:
            hook(sim, conf, is_client)

    def schedule(sim):
        for size, fin in early_writes:
            sim.k.at(0.0, sim._run_op, 0, "write", 11, size, fin, tag="app")

    prof2 = dict(base, wall_base=100.0, configure=configure, schedule_extra=schedule)
    prof2.update(profile2)
    prof2.update(kwargs())
    mon = WireMonitor() if secrets_log else None
    oracles = ([mon] if mon is not None else []) + list(make_oracles2(mon))
    sim2 = TransportSim(ch, prof2, oracles)
    if keep is not None:
        keep["sim2"] = sim2
        keep["ch"] = ch
        sim2.k.keep_trace = True
    try:
        reason = sim2.run()
    except Violation as v:
        out.violation = violation_dict(v, sim2.k)
        reason = "violation"
    s = sim2.summary()
    s["reason"] = reason
    s["inconclusive"] = reason == "step-cap"
    s["aborted"] = reason == "api-exception"
    if mon is not None:
        s.setdefault("extra", {}).update(mon.stats())
    try:
        s["probes"]["early_data_accepted"] = int(bool(sim2.client.conn.tls.early_data_accepted))
    except Exception:
        pass
    for name, n in (mon.frame_counts.items() if mon is not None else ()):
        s["probes"]["frame:" + name] = n
    if extra_summary is not None:
        extra_summary(sim2, s)
    out.summary = s
    out.choices = ch.dump()
    out.nontrivial = s["datagrams"] > 4
    out.signature = s["sig"] + ":" + stable_hash([o[1:5] for o in sim2.op_log]) + ":resumed"
    out.sample = {"seed": seed, "variant": variant, "early_writes": list(early_writes), "ops": sim2.op_log[:8],
                  "fired": s["fired"], "datagrams": s["datagrams"], "end": reason}
    return out


def run_transport(seed, profile, make_oracles, replay=None, monitor=False, strict_roundtrip=False,
                  variant=None, extra_summary=None, sim_class=TransportSim, foreign_api_exception="abort"):
    """One simulated run. `make_oracles(monitor)` returns the property's oracles.

    foreign_api_exception: what an exception escaping the QuicConnection API means for THIS
    property: 'abort' = not this property's business (run counted as aborted), or a callable
    (sim) -> Violation for properties that own it."""
    ch = Chooser(seed, replay)
    profile = dict(profile)
    mon = None
    oracles = []
    if monitor:
        profile["secrets_log"] = True
        mon = WireMonitor(strict_roundtrip=strict_roundtrip)
        oracles.append(mon)
    oracles.extend(make_oracles(mon))
    sim = sim_class(ch, profile, oracles)
    out = Outcome(seed)
    try:
        reason = sim.run()
    except Violation as v:
        out.violation = violation_dict(v, sim.k)
        reason = "violation"
    if reason == "api-exception" and out.violation is None and callable(foreign_api_exception):
        v = foreign_api_exception(sim)
        if v is not None:
            out.violation = violation_dict(v, sim.k)
    s = sim.summary()
    s["reason"] = reason
    s["inconclusive"] = reason == "step-cap"
    s["aborted"] = reason == "api-exception" and out.violation is None
    if mon is not None:
        s.setdefault("extra", {})
        s["extra"].update(mon.stats())
        for name, n in mon.frame_counts.items():
            s["probes"]["frame:" + name] = n
        for suite in mon.suites_seen:
            s["probes"]["suite:0x%x" % suite] = 1
        for ver in mon.versions_seen:
            s["probes"]["version:0x%x" % ver] = 1
        for who, ph in mon.key_phases_seen:
            s["probes"]["keyphase:%d" % ph] = 1
    if extra_summary is not None:
        extra_summary(sim, s)
    out.summary = s
    out.choices = ch.dump()
    fired = sum(v for k, v in s["fired"].items() if k != "noroute")
    out.nontrivial = (fired > 0 or profile.get("fault_free")) and s["datagrams"] > 4
    out.signature = s["sig"] + ":" + stable_hash([o[1:5] for o in sim.op_log]) + ":" + stable_hash(
        [sim.cfg[k] for k in ("cc", "client_versions", "server_versions", "client_mds", "server_mds")])
    out.sample = {"seed": seed, "variant": variant, "config": {k: sim.cfg.get(k) for k in SAMPLE_KEYS},
                  "ops": sim.op_log[:10], "fired": s["fired"], "datagrams": s["datagrams"], "end": reason}
    return out
