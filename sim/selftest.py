"""Self-tests of the machinery itself.

determinism: many seeds x each check x its variants, each executed in fresh interpreters under
different PYTHONHASHSEED values (and twice in-process): event-log digests, choice logs and
verdicts must match pairwise. A mismatch is a harness bug and blocks everything else.

    ./check selftest determinism [n_seeds] [C01 C05 ...]
"""
import hashlib
import importlib
import json
import os
import subprocess
import sys
from concurrent.futures import ProcessPoolExecutor

VERIF = os.path.dirname(os.path.dirname(os.path.abspath(__file__)))


def _digests(modname, seeds):
    mod = importlib.import_module(modname)
    variants = []
    for v in mod.PLAN["quick"].get("variants", [None]):
        if v not in variants:
            variants.append(v)
    out = {}
    for v in variants:
        for s in seeds:
            o1 = mod.run_one(s, tier="quick", variant=v)
            o2 = mod.run_one(s, tier="quick", variant=v)
            o3 = mod.run_one(s, tier="quick", variant=v, replay=o1.choices)
            key = "%s/%s/%d" % (modname, v, s)
            d = [(o.summary.get("digest"), hashlib.sha256(json.dumps(o.choices, sort_keys=True).encode()).hexdigest()[:12],
                  (o.violation or {}).get("oracle"), (o.violation or {}).get("discriminator")) for o in (o1, o2, o3)]
            if d[0] != d[1]:
                out[key] = ["IN-PROCESS-MISMATCH", d[0], d[1]]
            elif d[0] != d[2]:
                out[key] = ["REPLAY-MISMATCH", d[0], d[2]]
            else:
                out[key] = list(d[0])
    return out


def child(argv):
    sys.path.insert(0, VERIF)
    modname = argv[0]
    seeds = [int(x) for x in argv[1].split(",")]
    print("DIGESTS " + json.dumps(_digests(modname, seeds), sort_keys=True))
    return 0


def _spawn(args):
    modname, seeds, hashseed = args
    env = dict(os.environ)
    if modname.endswith("c04"):  # needs the sanitizer runtime preloaded
        sys.path.insert(0, VERIF)
        from sim import bootstrap

        logdir = os.path.join(VERIF, ".cache", "asan", "selftest-%d" % os.getpid())
        os.makedirs(logdir, exist_ok=True)
        env = bootstrap.asan_env(os.path.join(logdir, "log"))
    env["PYTHONHASHSEED"] = str(hashseed)
    r = subprocess.run([sys.executable, os.path.join(VERIF, "sim", "selftest.py"), "--child", modname,
                        ",".join(str(s) for s in seeds)], capture_output=True, text=True, env=env, timeout=3000)
    for line in r.stdout.splitlines():
        if line.startswith("DIGESTS "):
            return modname, hashseed, json.loads(line[8:]), None
    return modname, hashseed, None, (r.stdout + r.stderr)[-3000:]


def main(argv):
    if argv and argv[0] == "sensitivity":
        # every seeded breaking change under seeded/ is applied to a scratch copy of /repo and the quick
        # check of its property must exit 1 (tools/reeval_seeded.py updates the meta.json files)
        r = subprocess.run([sys.executable, os.path.join(VERIF, "tools", "reeval_seeded.py")] + argv[1:])
        subprocess.run([sys.executable, os.path.join(VERIF, "tools", "seeded_summary.py")])
        return r.returncode
    if not argv or argv[0] != "determinism":
        print(__doc__)
        return 2
    from cli import CHECKS  # noqa

    n = int(argv[1]) if len(argv) > 1 and argv[1].isdigit() else 40
    props = [a for a in argv[1:] if a.startswith("C")] or sorted(CHECKS)
    seeds = [1000003 * (i + 1) + 17 for i in range(n)]
    jobs = []
    chunk = max(1, n // 4)
    for p in props:
        for i in range(0, n, chunk):
            for hs in (0, 1, 4242):
                jobs.append((CHECKS[p], seeds[i:i + chunk], hs))
    results = {}
    bad = 0
    with ProcessPoolExecutor(max_workers=os.cpu_count() or 4) as ex:
        for modname, hs, dig, err in ex.map(_spawn, jobs):
            if dig is None:
                print("HARNESS-ERROR determinism child failed for %s:\n%s" % (modname, err))
                return 2
            for k, v in dig.items():
                if v and v[0] in ("IN-PROCESS-MISMATCH", "REPLAY-MISMATCH"):
                    print("NONDETERMINISM %s %s" % (k, v))
                    bad += 1
                prev = results.setdefault(k, (hs, v))
                if prev[1] != v:
                    print("NONDETERMINISM %s differs between PYTHONHASHSEED=%s and %s: %s vs %s" % (
                        k, prev[0], hs, prev[1], v))
                    bad += 1
    print("determinism: %d (check, variant, seed) cases x {in-process twice, replay, 3 hash seeds in fresh "
          "interpreters}: %d mismatches" % (len(results), bad))
    return 0 if bad == 0 else 2


if __name__ == "__main__":
    if len(sys.argv) > 1 and sys.argv[1] == "--child":
        sys.exit(child(sys.argv[2:]))
