"""Certificates and keys from /verif/fixtures, loaded once per process."""
import functools
import os

from . import bootstrap


@functools.lru_cache(maxsize=None)
def _read(name):
    with open(os.path.join(bootstrap.FIXTURES, name), "rb") as f:
        return f.read()


@functools.lru_cache(maxsize=None)
def cert_chain(name):
    """returns (certificate, chain list, private key) as aioquic/cryptography objects"""
    from aioquic.tls import load_pem_private_key, load_pem_x509_certificates

    certs = load_pem_x509_certificates(_read(name + ".pem"))
    key = load_pem_private_key(_read(name + ".key"))
    return certs[0], list(certs[1:]), _deterministic(key)


def _deterministic(key):
    """RSA-PSS signatures draw their salt from OpenSSL's generator, which no seam controls: the bytes of a
    CertificateVerify made with an RSA key would differ from run to run. RSA keys are wrapped so that PSS uses a
    salt derived from the message (the signature stays a valid PSS signature for every verifier)."""
    from cryptography.hazmat.primitives import hashes
    from cryptography.hazmat.primitives.asymmetric import padding, rsa

    if not isinstance(key, rsa.RSAPrivateKey):
        return key

    class DetRSAKey(rsa.RSAPrivateKey):
        def __init__(self, real):
            self._real = real
            n = real.private_numbers()
            self._d, self._n = n.d, n.public_numbers.n

        key_size = property(lambda self: self._real.key_size)

        def public_key(self):
            return self._real.public_key()

        def private_numbers(self):
            return self._real.private_numbers()

        def private_bytes(self, *a, **kw):
            return self._real.private_bytes(*a, **kw)

        def decrypt(self, *a, **kw):
            return self._real.decrypt(*a, **kw)

        def __copy__(self):
            return self

        def __deepcopy__(self, memo):
            return self

        def sign(self, data, pad, algorithm):
            if not isinstance(pad, padding.PSS):
                return self._real.sign(data, pad, algorithm)  # PKCS#1 v1.5 is deterministic already
            import hashlib

            hname = algorithm.name
            hlen = algorithm.digest_size

            def H(b):
                return hashlib.new(hname, b).digest()

            slen = pad._salt_length if isinstance(pad._salt_length, int) else hlen
            mhash = H(data)
            salt = hashlib.sha512(b"verif-pss-salt" + mhash).digest()[:slen]
            embits = self._n.bit_length() - 1
            emlen = (embits + 7) // 8
            h = H(bytes(8) + mhash + salt)
            db = bytes(emlen - slen - hlen - 2) + b"\x01" + salt
            mask = b""
            counter = 0
            while len(mask) < len(db):  # MGF1 with the same hash
                mask += H(h + counter.to_bytes(4, "big"))
                counter += 1
            masked = bytearray(x ^ y for x, y in zip(db, mask))
            masked[0] &= 0xFF >> (8 * emlen - embits)
            em = bytes(masked) + h + b"\xbc"
            sig = pow(int.from_bytes(em, "big"), self._d, self._n)
            return sig.to_bytes((self._n.bit_length() + 7) // 8, "big")

    return DetRSAKey(key)


def ca_pem():
    return _read("ca.pem")


def ca_path():
    return os.path.join(bootstrap.FIXTURES, "ca.pem")


SERVER_CERTS = ["server_ed25519", "server_ec256", "server_ec384", "server_rsa2048", "server_ed448"]
CHAINS = ["chain1", "chain2", "chain3", "chain4", "chain5"]
BAD_CERTS = ["bad_wrongname", "bad_expired", "bad_notyet", "bad_selfsigned", "bad_unknownca", "bad_wrongkey"]
# self-signed certificates padded to several sizes (tools/make_padded_bad_certs.py): with a swept datagram size the
# boundary between the datagrams of the server's flight falls between any two handshake messages
PADDED_BAD_CERTS = ["bad_selfsigned_pad12", "bad_selfsigned_pad16", "bad_selfsigned_pad20", "bad_selfsigned_pad24",
                    "bad_selfsigned_pad28"]
