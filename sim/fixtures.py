"""Certificates and keys from /verif/fixtures, loaded once per process."""
import functools
import os

from . import bootstrap


@functools.lru_cache(maxsize=None)
def _read(name):
    with open(os.path.join(bootstrap.FIXTURES, name), "rb") as f:
        return f.read()


@functools.lru_cache(maxsize=None)
def cert_chain(name):
    """returns (certificate, chain list, private key) as aioquic/cryptography objects"""
    from aioquic.tls import load_pem_private_key, load_pem_x509_certificates

    certs = load_pem_x509_certificates(_read(name + ".pem"))
    key = load_pem_private_key(_read(name + ".key"))
    return certs[0], list(certs[1:]), key


def ca_pem():
    return _read("ca.pem")


def ca_path():
    return os.path.join(bootstrap.FIXTURES, "ca.pem")


SERVER_CERTS = ["server_ed25519", "server_ec256", "server_ec384", "server_rsa2048", "server_ed448"]
CHAINS = ["chain1", "chain2", "chain3", "chain4", "chain5"]
BAD_CERTS = ["bad_wrongname", "bad_expired", "bad_notyet", "bad_selfsigned", "bad_unknownca", "bad_wrongkey"]
# self-signed certificates padded to several sizes (tools/make_padded_bad_certs.py): with a swept datagram size the
# boundary between the datagrams of the server's flight falls between any two handshake messages
PADDED_BAD_CERTS = ["bad_selfsigned_pad12", "bad_selfsigned_pad16", "bad_selfsigned_pad20", "bad_selfsigned_pad24",
                    "bad_selfsigned_pad28"]
