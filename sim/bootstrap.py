"""Load aioquic from $VERIF_REPO (default /repo): rebuild the two C helpers from the
current working tree, import the Python sources from <repo>/src, and install the
determinism seams (no change to the repository is needed).

Nothing here may be imported before ``load()`` has run if it imports aioquic.
"""
import hashlib
import importlib.machinery
import importlib.util
import os
import random
import subprocess
import sys
import sysconfig
import types

VERIF = os.path.dirname(os.path.dirname(os.path.abspath(__file__)))
REPO = os.environ.get("VERIF_REPO", "/repo")
CACHE = os.path.join(VERIF, ".cache")
FIXTURES = os.path.join(VERIF, "fixtures")

_loaded = {}


def _sha(*parts):
    h = hashlib.sha256()
    for p in parts:
        h.update(p if isinstance(p, bytes) else p.encode())
        h.update(b"\0")
    return h.hexdigest()[:20]


def c_source_identity():
    h = hashlib.sha256()
    for n in ("_crypto.c", "_buffer.c"):
        with open(os.path.join(REPO, "src", "aioquic", n), "rb") as f:
            h.update(f.read())
    return h.hexdigest()[:16]


def asan_runtime():
    out = subprocess.run(
        ["clang", "-print-file-name=libclang_rt.asan-x86_64.so"], capture_output=True, text=True
    ).stdout.strip()
    return out if os.path.isabs(out) and os.path.exists(out) else None


def build_ext(name, flavour="plain"):
    """Compile src/aioquic/<name>.c of the repo under test; returns the .so path.

    flavour: 'plain' (cc -O2) or 'asan' (clang -fsanitize=address,undefined).
    Cached under /verif/.cache keyed by source + flags + interpreter."""
    src = os.path.join(REPO, "src", "aioquic", name + ".c")
    with open(src, "rb") as f:
        code = f.read()
    inc = sysconfig.get_paths()["include"]
    if flavour == "asan":
        # recover: a report is written to the ASan log and execution continues, so the run that
        # caused it can be identified and turned into a VIOLATION with a replay file
        cc = ["clang", "-O1", "-g", "-fno-omit-frame-pointer", "-fsanitize=address,undefined",
              "-fsanitize-recover=address,undefined", "-shared-libasan"]
    else:
        cc = ["cc", "-O2"]
    flags = cc + ["-std=c99", "-shared", "-fPIC", "-DPy_LIMITED_API=0x030A0000", "-I" + inc]
    libs = ["-lcrypto"] if name == "_crypto" else []
    key = _sha(code, " ".join(flags + libs), sys.version)
    outdir = os.path.join(CACHE, "ext", key)
    out = os.path.join(outdir, name + ".abi3.so")
    if not os.path.exists(out):
        os.makedirs(outdir, exist_ok=True)
        tmp = out + ".%d.tmp" % os.getpid()
        r = subprocess.run(flags + ["-o", tmp, src] + libs, capture_output=True, text=True)
        if r.returncode != 0:
            raise RuntimeError("building %s (%s) failed:\n%s" % (name, flavour, r.stderr))
        os.replace(tmp, out)
    return out


def build_shim():
    """ASan-built libcrypto boundary shim (native/evp_shim.c), to be LD_PRELOADed after the ASan runtime."""
    src = os.path.join(VERIF, "native", "evp_shim.c")
    with open(src, "rb") as f:
        code = f.read()
    flags = ["clang", "-O1", "-g", "-fno-omit-frame-pointer", "-fsanitize=address", "-fsanitize-recover=address",
             "-shared-libasan", "-shared", "-fPIC"]
    key = _sha(code, " ".join(flags))
    outdir = os.path.join(CACHE, "ext", key)
    out = os.path.join(outdir, "evp_shim.so")
    if not os.path.exists(out):
        os.makedirs(outdir, exist_ok=True)
        tmp = out + ".%d.tmp" % os.getpid()
        r = subprocess.run(flags + ["-o", tmp, src, "-ldl"], capture_output=True, text=True)
        if r.returncode != 0:
            raise RuntimeError("building evp_shim failed:\n%s" % r.stderr)
        os.replace(tmp, out)
    return out


def asan_env(log_prefix):
    """Environment for re-executing the interpreter under AddressSanitizer + shim."""
    rt = asan_runtime()
    if rt is None:
        raise RuntimeError("ASan runtime not found (clang -print-file-name=libclang_rt.asan-x86_64.so)")
    env = dict(os.environ)
    env["LD_PRELOAD"] = rt + ":" + build_shim()
    env["PYTHONMALLOC"] = "malloc"
    env["ASAN_OPTIONS"] = ("detect_leaks=0:halt_on_error=0:abort_on_error=0:allocator_may_return_null=1:"
                           "log_path=%s:handle_segv=0" % log_prefix)
    env["UBSAN_OPTIONS"] = "print_stacktrace=1:halt_on_error=0:log_path=%s" % log_prefix
    env["VERIF_CFLAVOUR"] = "asan"
    env["VERIF_ASAN_LOG"] = log_prefix
    return env


def _load_ext(modname, path):
    loader = importlib.machinery.ExtensionFileLoader(modname, path)
    spec = importlib.util.spec_from_file_location(modname, path, loader=loader)
    mod = importlib.util.module_from_spec(spec)
    loader.exec_module(mod)
    sys.modules[modname] = mod
    return mod


def load(flavour=None):
    """Import aioquic from REPO with freshly built helpers. Idempotent."""
    if _loaded:
        return _loaded["aioquic"]
    if flavour is None:
        flavour = os.environ.get("VERIF_CFLAVOUR", "plain")
    for m in list(sys.modules):
        if m == "aioquic" or m.startswith("aioquic."):
            raise RuntimeError("aioquic imported before bootstrap.load()")
    src = os.path.join(REPO, "src")
    sys.path.insert(0, src)
    crypto_so = build_ext("_crypto", flavour)
    buffer_so = build_ext("_buffer", flavour)
    import aioquic  # noqa

    if not os.path.abspath(aioquic.__file__).startswith(os.path.abspath(src)):
        raise RuntimeError("aioquic imported from %s, expected %s" % (aioquic.__file__, src))
    c = _load_ext("aioquic._crypto", crypto_so)
    b = _load_ext("aioquic._buffer", buffer_so)
    aioquic._crypto = c
    aioquic._buffer = b
    import logging

    logging.getLogger("quic").setLevel(logging.CRITICAL + 1)
    logging.getLogger("http3").setLevel(logging.CRITICAL + 1)
    _loaded["aioquic"] = aioquic
    _loaded["flavour"] = flavour
    install_seams()
    return aioquic


# --------------------------------------------------------------------------
# determinism seams


class DetRandom:
    """The single source of 'random' bytes for the code under test."""

    def __init__(self):
        self.rng = random.Random(0)
        self.calls = 0

    def reseed(self, seed):
        self.rng = random.Random(("urandom", seed).__repr__())
        self.calls = 0

    def urandom(self, n):
        self.calls += 1
        return self.rng.randbytes(n)


DET = DetRandom()


class _Shim:
    """Module stand-in: overrides a few attributes, forwards the rest."""

    def __init__(self, real, **over):
        self.__dict__["_real"] = real
        self.__dict__.update(over)

    def __getattr__(self, item):
        return getattr(self._real, item)


class VirtualWallClock:
    """tls.utcnow(): fixed epoch + simulated seconds (set by the kernel)."""

    def __init__(self):
        import datetime

        self.epoch = datetime.datetime(2026, 1, 1, tzinfo=datetime.timezone.utc)
        self.offset = 0.0

    def __call__(self):
        import datetime

        return self.epoch + datetime.timedelta(seconds=self.offset)


WALL = VirtualWallClock()


RETRY_KEY_INDEX = [0]


def install_seams():
    import os as real_os

    from aioquic import tls
    from aioquic.quic import connection, packet, retry, stream
    from cryptography.hazmat.primitives import serialization
    from cryptography.hazmat.primitives.asymmetric import ec as real_ec
    from cryptography.hazmat.primitives.asymmetric import rsa as real_rsa
    from cryptography.hazmat.primitives.asymmetric import x448 as real_x448
    from cryptography.hazmat.primitives.asymmetric import x25519 as real_x25519

    os_shim = _Shim(real_os, urandom=DET.urandom)
    connection.os = os_shim
    tls.os = os_shim
    packet.os = os_shim
    try:
        from aioquic.asyncio import server as aserver

        aserver.os = os_shim
    except Exception:  # pragma: no cover
        pass

    class X25519Priv:
        @staticmethod
        def generate():
            return real_x25519.X25519PrivateKey.from_private_bytes(DET.urandom(32))

        from_private_bytes = real_x25519.X25519PrivateKey.from_private_bytes

    class X448Priv:
        @staticmethod
        def generate():
            return real_x448.X448PrivateKey.from_private_bytes(DET.urandom(56))

        from_private_bytes = real_x448.X448PrivateKey.from_private_bytes

    def ec_generate(curve, backend=None):
        nbytes = (curve.key_size + 7) // 8 - 1
        return real_ec.derive_private_key(int.from_bytes(DET.urandom(nbytes), "big") + 1, curve)

    def ecdsa(algorithm, *a, **kw):
        try:
            return real_ec.ECDSA(algorithm, deterministic_signing=True)
        except Exception:
            return real_ec.ECDSA(algorithm)

    tls.x25519 = _Shim(real_x25519, X25519PrivateKey=X25519Priv)
    tls.x448 = _Shim(real_x448, X448PrivateKey=X448Priv)
    tls.ec = _Shim(real_ec, generate_private_key=ec_generate, ECDSA=ecdsa)
    tls.utcnow = WALL

    # retry token handler: fixture RSA keys instead of generating one (80 ms, random); successive handlers of
    # one run get different keys, as they would in reality (RETRY_KEY_INDEX is reset at the start of a run)
    retry_keys = []
    for fn in ("retry_rsa.key", "retry_rsa2.key"):
        with open(os.path.join(FIXTURES, fn), "rb") as f:
            retry_keys.append(serialization.load_pem_private_key(f.read(), password=None))

    def retry_generate(**kw):
        key = retry_keys[RETRY_KEY_INDEX[0] % len(retry_keys)]
        RETRY_KEY_INDEX[0] += 1
        return key

    retry.rsa = _Shim(real_rsa, generate_private_key=retry_generate)

    # stream service order must not depend on id(): _write_application builds a set
    stream.QuicStream.__hash__ = lambda self: hash(self.stream_id)
    stream.QuicStream.__eq__ = lambda self, other: self is other


def code_identity():
    try:
        head = subprocess.run(["git", "-C", REPO, "rev-parse", "--short", "HEAD"], capture_output=True,
                              text=True).stdout.strip()
        dirty = subprocess.run(["git", "-C", REPO, "status", "--porcelain", "--untracked-files=no"],
                               capture_output=True, text=True).stdout.strip()
    except Exception:
        head, dirty = "unknown", ""
    return {"repo": REPO, "head": head, "dirty": bool(dirty), "c_sources": c_source_identity()}
