"""WireMonitor: decrypts every datagram *as sent* with the independent wire/ stack,
keyed from each endpoint's secrets log (NSS key log lines) and the public Initial
secrets.  It attributes every packet to sender, packet number space, packet
number, DCID, key phase and frame list, and re-protects the plaintext to compare
with the wire bytes.  It never imports aioquic.

Put it first in the oracle list; later oracles read ``dgram.meta`` (list of
PacketInfo; None when monitoring is off).
"""
from wire import crypto as wc
from wire import frames as wf
from wire import header as wh
from wire import tparams as wtp  # noqa: F401
from wire.varint import ParseError

from .kernel import Violation
from .transport import Oracle

SPACE_OF = {"initial": "initial", "handshake": "handshake", "0rtt": "app", "1rtt": "app"}
LABELS = {
    ("client", "0rtt"): "CLIENT_EARLY_TRAFFIC_SECRET",
    ("client", "handshake"): "CLIENT_HANDSHAKE_TRAFFIC_SECRET",
    ("client", "1rtt"): "CLIENT_TRAFFIC_SECRET_0",
    ("server", "handshake"): "SERVER_HANDSHAKE_TRAFFIC_SECRET",
    ("server", "1rtt"): "SERVER_TRAFFIC_SECRET_0",
}


class PacketInfo:
    __slots__ = ("ptype", "space", "version", "pn", "pn_len", "dcid", "scid", "key_phase", "frames", "size",
                 "opaque", "ack_eliciting", "in_flight", "header", "payload", "keys", "token", "why", "view")

    def __init__(self):
        self.opaque = False
        self.frames = []
        self.pn = None
        self.key_phase = None
        self.ack_eliciting = False
        self.in_flight = False
        self.why = None
        self.keys = None

    def summary(self):
        if self.opaque:
            return "%s[opaque:%s]" % (self.ptype, self.why)
        return "%s#%s[%s]" % (self.ptype, self.pn, ",".join(f.name for f in self.frames))


class SenderState:
    def __init__(self):
        self.largest = {"initial": -1, "handshake": -1, "app": -1}
        self.secret_lines = 0
        self.secrets = {}  # label -> secret bytes
        self.keys = {}  # ptype -> list of candidate Keys (per version, suite)
        self.gen = None  # current 1-RTT Keys (generation tracking)
        self.gen_phase = 0
        self.gen_prev = None
        self.version_1rtt = None
        self.good = {}  # ptype -> Keys that opened a packet of that type
        self.packets = 0
        self.opaque = 0


class WireMonitor(Oracle):
    def __init__(self, strict_roundtrip=False):
        self.strict_roundtrip = strict_roundtrip
        self.state = {"client": SenderState(), "server": SenderState()}
        self.initial_dcids = []  # DCIDs of client Initials seen (key derivation input)
        self.initial_cache = {}
        self.n_packets = 0
        self.n_opaque = 0
        self.n_roundtrip_ok = 0
        self.frame_counts = {}
        self.suites_seen = set()
        self.versions_seen = set()
        self.key_phases_seen = set()
        self.last_dcid = {}
        self.listeners = []

    def on_start(self, sim):
        self.sim = sim
        if not sim.profile["secrets_log"]:
            raise RuntimeError("WireMonitor needs profile['secrets_log']=True")

    # ----------------------------------------------------------------- secrets
    def _refresh_secrets(self, ep):
        st = self.state[ep.name]
        f = ep.secrets
        if f is None:
            return
        lines = f.getvalue().split("\n")
        if len(lines) - 1 == st.secret_lines:
            return
        for line in lines[st.secret_lines:-1]:
            parts = line.split(" ")
            if len(parts) == 3:
                st.secrets[parts[0]] = bytes.fromhex(parts[2])
        st.secret_lines = len(lines) - 1
        st.keys.clear()

    def _candidates(self, ep, ptype, version):
        """candidate Keys for a packet sent by ep"""
        st = self.state[ep.name]
        if ptype == "initial":
            out = []
            for dcid in self.initial_dcids:
                k = self.initial_cache.get((dcid, version))
                if k is None:
                    k = self.initial_cache[(dcid, version)] = wc.initial_keys(dcid, version)
                out.append(k[0] if ep.is_client else k[1])
            return out
        label = LABELS.get((ep.name, ptype))
        if label is None:
            return []
        self._refresh_secrets(ep)
        secret = st.secrets.get(label)
        if secret is None:
            return []
        key = (ptype, version)
        ks = st.keys.get(key)
        if ks is None:
            if len(secret) == 48:
                suites = (wc.AES_256_GCM_SHA384,)
            else:
                suites = (wc.AES_128_GCM_SHA256, wc.CHACHA20_POLY1305_SHA256)
            ks = st.keys[key] = [wc.Keys(secret, s, version) for s in suites]
        return ks

    # ------------------------------------------------------------------ decode
    def decode_datagram(self, ep, data):
        """returns list[PacketInfo] for a datagram sent by ep"""
        peer_cid_len = ep.peer.config.connection_id_length if ep.peer.config is not None else \
            self.sim.cfg["server_cid_len" if ep.is_client else "client_cid_len"]
        views, trailing = wh.parse_datagram(data, peer_cid_len)
        out = []
        st = self.state[ep.name]
        for v in views:
            pi = PacketInfo()
            pi.view = v
            pi.ptype = v.ptype
            pi.version = v.version
            pi.dcid = v.dcid
            pi.scid = v.scid
            pi.size = v.end - v.start
            pi.token = v.token
            pi.space = SPACE_OF.get(v.ptype)
            out.append(pi)
            st.packets += 1
            self.n_packets += 1
            if v.ptype in ("retry", "vn"):
                continue
            if v.ptype == "initial" and ep.is_client and v.dcid not in self.initial_dcids:
                self.initial_dcids.append(v.dcid)
            if v.version is not None:
                self.versions_seen.add(v.version)
            self._open(ep, st, v, pi)
            if pi.opaque:
                st.opaque += 1
                self.n_opaque += 1
                continue
            try:
                pi.frames = wf.parse_frames(pi.payload)
            except ParseError as e:
                pi.opaque = True
                pi.why = "frames:%s" % e
                self.n_opaque += 1
                if self.strict_roundtrip:
                    raise Violation("c02.frames", "unparsable-frames",
                                    "%s sent a %s packet #%s whose payload the independent frame parser "
                                    "rejects: %s" % (ep.name, v.ptype, pi.pn, e))
                continue
            for f in pi.frames:
                self.frame_counts[f.name] = self.frame_counts.get(f.name, 0) + 1
                if wf.ACK_ELICITING(f):
                    pi.ack_eliciting = True
                if f.type not in (wf.ACK, wf.ACK_ECN, wf.CONNECTION_CLOSE, wf.CONNECTION_CLOSE_APP):
                    pi.in_flight = True
        if trailing and any(trailing):
            pi = PacketInfo()
            pi.ptype = "garbage"
            pi.opaque = True
            pi.why = "unparsable trailing bytes"
            pi.size = len(trailing)
            pi.space = None
            out.append(pi)
        return out

    def _open(self, ep, st, v, pi):
        space = pi.space
        largest = st.largest[space]
        if v.ptype == "1rtt":
            return self._open_short(ep, st, v, pi)
        for keys in self._candidates(ep, v.ptype, v.version):
            try:
                header, pn, pn_len, payload = wc.unprotect(keys, v.raw, v.pn_offset, largest)
            except wc.AuthError:
                continue
            self._opened(ep, st, v, pi, keys, header, pn, pn_len, payload)
            return
        if v.ptype == "initial" and largest != -1:
            # after an incompatible version negotiation the client restarts its packet numbers
            for keys in self._candidates(ep, v.ptype, v.version):
                try:
                    header, pn, pn_len, payload = wc.unprotect(keys, v.raw, v.pn_offset, -1)
                except wc.AuthError:
                    continue
                st.largest[space] = -1
                self._opened(ep, st, v, pi, keys, header, pn, pn_len, payload)
                return
        pi.opaque = True
        pi.why = "no-key"
        if self.strict_roundtrip and self._candidates(ep, v.ptype, v.version):
            raise Violation("c02.roundtrip", "undecryptable-%s" % v.ptype,
                            "%s sent a %s packet (%d bytes) that the independent RFC 9001/9369 implementation cannot "
                            "open with the keys from its secrets log" % (ep.name, v.ptype, len(v.raw)))

    def _open_short(self, ep, st, v, pi):
        largest = st.largest["app"]
        if st.gen is None:
            versions = [st.version_1rtt] if st.version_1rtt else []
            for ver in versions + [x for x in (wh.VERSION_1, wh.VERSION_2) if x not in versions]:
                for keys in self._candidates(ep, "1rtt", ver):
                    try:
                        header, pn, pn_len, payload = wc.unprotect(keys, v.raw, v.pn_offset, largest)
                    except wc.AuthError:
                        continue
                    st.gen = keys
                    st.gen_phase = (header[0] >> 2) & 1
                    st.version_1rtt = ver
                    self._opened(ep, st, v, pi, keys, header, pn, pn_len, payload)
                    return
            pi.opaque = True
            pi.why = "no-1rtt-key"
            return
        try:
            phase = wc.peek_short_key_phase(st.gen, v.raw, v.pn_offset)
        except wc.AuthError:
            pi.opaque = True
            pi.why = "short-too-short"
            return
        # the sender may have moved on by more than one generation without sending anything in
        # between (a peer-initiated update followed by a local one): try generations ahead whose
        # parity matches the key phase bit
        tries = []
        g1 = st.gen.next_generation()
        if phase == st.gen_phase:
            tries.append((st.gen, False))
            tries.append((g1.next_generation(), True))
        else:
            tries.append((g1, True))
            if st.gen_prev is not None:
                tries.append((st.gen_prev, False))
            tries.append((g1.next_generation().next_generation(), True))
        for keys, is_next in tries:
            try:
                header, pn, pn_len, payload = wc.unprotect(keys, v.raw, v.pn_offset, largest)
            except wc.AuthError:
                continue
            if is_next:
                st.gen_prev = st.gen
                st.gen = keys
                st.gen_phase = phase
            self._opened(ep, st, v, pi, keys, header, pn, pn_len, payload)
            return
        pi.opaque = True
        pi.why = "1rtt-auth(phase=%d)" % phase
        if self.strict_roundtrip:
            raise Violation("c02.roundtrip", "undecryptable-1rtt-keyphase",
                            "%s sent a 1-RTT packet (key phase bit %d, %d bytes) that the independent RFC 9001/9369 "
                            "implementation cannot open with the current, next or previous key generation (version "
                            "0x%x)" % (ep.name, phase, len(v.raw), st.gen.version))

    def _opened(self, ep, st, v, pi, keys, header, pn, pn_len, payload):
        pi.header = header
        pi.pn = pn
        pi.pn_len = pn_len
        pi.payload = payload
        pi.keys = keys
        st.good[v.ptype] = keys
        self.last_dcid[ep.name] = v.dcid
        if pn > st.largest[pi.space]:
            st.largest[pi.space] = pn
        self.suites_seen.add(keys.cipher_suite)
        if v.ptype == "1rtt":
            pi.key_phase = (header[0] >> 2) & 1
            self.key_phases_seen.add((ep.name, pi.key_phase))
        # re-protect: must reproduce the wire bytes bit for bit
        again = wc.protect(keys, header, pn, pn_len, payload)
        if again != v.raw:
            if self.strict_roundtrip:
                raise Violation("c02.roundtrip", "reprotect-differs",
                                "%s %s packet #%d: re-protecting the recovered plaintext with the independent "
                                "RFC 9001 implementation does not reproduce the wire bytes" % (ep.name, v.ptype, pn))
        else:
            self.n_roundtrip_ok += 1

    # ----------------------------------------------------------------- oracle
    def on_datagram_sent(self, ep, dgram):
        dgram.meta = self.decode_datagram(ep, dgram.data)
        if self.sim.k.keep_trace:
            self.sim.k.trace_lines.append("        %s -> %s" % (ep.name, " | ".join(p.summary() for p in dgram.meta)))

    def stats(self):
        return {
            "packets_decoded": self.n_packets,
            "opaque_packets": self.n_opaque,
            "reprotect_identical": self.n_roundtrip_ok,
        }
