"""Two real QuicConnection endpoints, a simulated network between them, their timers
and a scripted application, all under one seeded scheduler.

Everything that is not a QuicConnection here is a stub written for the harness.
Oracles plug in through the `Oracle` interface; the simulation itself asserts
nothing about the code under test.
"""
import hashlib
import io
import traceback
from collections import Counter

from . import bootstrap, fixtures
from .kernel import HarnessError, Kernel, Violation  # noqa: F401

V1 = 0x00000001
V2 = 0x6B3343CF

_PATTERN_LEN = 1 << 16
_PATTERN = None


def _pattern_blob():
    global _PATTERN
    if _PATTERN is None:
        out = bytearray()
        h = b"verif-pattern"
        while len(out) < _PATTERN_LEN * 2 + 64:
            h = hashlib.sha256(h).digest()
            out += h
        _PATTERN = bytes(out)
    return _PATTERN


def pattern(direction, stream_id, offset, n):
    """Deterministic stream content: what sender `direction` ('c'/'s') writes on
    stream_id at [offset, offset+n)."""
    blob = _pattern_blob()
    base = (stream_id * 7919 + (31337 if direction == "s" else 0)) % _PATTERN_LEN
    out = bytearray()
    pos = (base + offset) % _PATTERN_LEN
    while n > 0:
        take = min(n, _PATTERN_LEN - pos)
        out += blob[pos:pos + take]
        n -= take
        pos = (pos + take) % _PATTERN_LEN
    return bytes(out)


class EndpointBroken(Exception):
    """An API call of the code under test raised; the run cannot continue."""


class Oracle:
    """Interface; every method is optional."""

    def on_start(self, sim):
        pass

    def on_api_call(self, ep, name, args):
        pass

    def on_api_raised(self, ep, name, exc, where):
        pass

    def on_event(self, ep, event):
        pass

    def on_timer_value(self, ep, value):
        pass

    def before_transmit(self, ep):
        pass

    def on_datagram_sent(self, ep, dgram):
        pass

    def on_datagram_delivered(self, ep, dgram, copy_index):
        pass

    def on_frontend_datagram(self, ep, dgram, copy_index):
        """a datagram reached the server's address while no connection object existed: called before the
        front-end stub looks at it (it may answer with Retry / Version Negotiation, drop it, or create the
        connection, in which case on_datagram_delivered follows for the same datagram)"""
        pass

    def after_step(self):
        pass

    def goal_reached(self):
        return True

    def at_end(self, reason):
        pass


class Datagram:
    __slots__ = ("id", "sender", "data", "src", "dst", "sent_at", "fate", "copies", "phase", "meta", "rewritten")

    def __init__(self):
        self.meta = None
        self.rewritten = False


def innermost_frame(exc):
    """innermost traceback frame that lies inside the repository under test"""
    where = "?"
    for fs in traceback.extract_tb(exc.__traceback__):
        fn = fs.filename
        if "/aioquic/" in fn:
            where = "%s:%s" % (fn.split("/aioquic/")[-1], fs.name)
    return where


class Endpoint:
    def __init__(self, sim, name, is_client, addr, clock_offset, clock_rate):
        self.sim = sim
        self.k = sim.k
        self.name = name
        self.is_client = is_client
        self.addr = addr
        self.clock_offset = clock_offset
        self.clock_rate = clock_rate
        self.conn = None
        self.config = None
        self.secrets = None
        self.timer_ev = None
        self.timer_deadline = None
        self.terminated = False
        self.broken = False
        self.crashed = False
        self.stalled_until = None
        self.backlog = []
        self.handshake_complete = False
        self.app = AppSide(self)
        self.peer = None
        self.n_timer_fired = 0
        self.n_timer_noop = 0
        self.last_fired_deadline = None
        self.last_fired_deadline_now = None
        self.respins = 0

    # -- clocks
    def now(self):
        return self.clock_offset + self.k.now * self.clock_rate

    def to_global(self, local):
        return (local - self.clock_offset) / self.clock_rate

    # -- API wrapper
    def api(self, name, *args):
        sim = self.sim
        for o in sim.oracles:
            o.on_api_call(self, name, args)
        bootstrap.WALL.offset = sim.wall_base + self.k.now  # tls.utcnow() follows virtual time
        try:
            return getattr(self.conn, name)(*args)
        except Exception as exc:  # noqa
            where = innermost_frame(exc)
            self.broken = True
            sim.api_exception = (self.name, name, type(exc).__name__, where, str(exc)[:200])
            self.k.trace("api-raised", self.name, name, type(exc).__name__, where)
            for o in sim.oracles:
                o.on_api_raised(self, name, exc, where)
            self.k.stop("api-exception")
            raise EndpointBroken() from exc

    # -- driver, mirrors aioquic.asyncio.protocol: receive -> events -> transmit -> timer
    def pump(self):
        if self.conn is None or self.broken:
            return
        self.drain_events()
        self.transmit()

    def drain_events(self):
        while True:
            ev = self.api("next_event")
            if ev is None:
                break
            self.sim.dispatch_event(self, ev)

    def transmit(self):
        if self.terminated and not self.sim.poke_after_termination:
            return
        for o in self.sim.oracles:
            o.before_transmit(self)
        now = self.now()
        out = self.api("datagrams_to_send", now)
        for data, addr in out:
            if self.sim.rebind_each_left and self is self.sim.client and self.k.now < self.sim.cfg["t_fair"]:
                self.sim.rebind_each_left -= 1
                self.sim._rebind()
            self.sim.net.send(self, data, addr)
        self.rearm()

    def rearm(self):
        if self.terminated and not self.sim.poke_after_termination:
            return
        t = self.api("get_timer")
        for o in self.sim.oracles:
            o.on_timer_value(self, t)
        if t is None:
            if self.timer_ev is not None:
                self.timer_ev.cancelled = True
                self.timer_ev = None
            self.timer_deadline = None
            return
        if self.timer_ev is not None and self.timer_deadline == t:
            return
        if self.timer_ev is not None:
            self.timer_ev.cancelled = True
        lateness = self.sim.draw_lateness(self)
        if self.last_fired_deadline is not None and t <= self.last_fired_deadline_now:
            # the connection asks again for a deadline that already passed when its timer was
            # last handled (e.g. an ACK it cannot send under the anti-amplification limit): a real
            # loop would spin; back off so the spin does not eat the step budget (lateness is
            # arbitrary anyway), and count it as a probe
            self.respins += 1
            self.sim.probes["timer_respin"] += 1
            lateness = max(lateness, min(1e-6 * (2 ** min(self.respins, 20)), 0.02))
        else:
            self.respins = 0
        g = max(self.to_global(t), self.k.now) + lateness
        self.timer_armed_local = self.now()
        self.timer_deadline = t
        self.timer_ev = self.k.at(g, self._on_timer, tag="timer:" + self.name)

    def _on_timer(self):
        if self.crashed or self.broken:
            return
        if self.stalled_until is not None and self.k.now < self.stalled_until:
            # a stalled endpoint handles its timer when it wakes up
            self.timer_ev = self.k.at(self.stalled_until, self._on_timer, tag="timer:" + self.name)
            return
        deadline = self.timer_deadline
        self.timer_ev = None
        self.timer_deadline = None
        now = self.now()
        if now < deadline:  # float round trip through the clock mapping
            now = deadline
        self.n_timer_fired += 1
        self.last_fired_deadline = deadline
        self.last_fired_deadline_now = now
        self.k.trace("timer", self.name, "%.6f" % (now - deadline))
        self.sim.last_timer_lateness[self.name] = now - deadline
        # lateness the HARNESS injected: measured from the later of (deadline, moment it was asked for)
        self.sim.last_timer_injected[self.name] = now - max(deadline, self.timer_armed_local)
        self.api("handle_timer", now)
        self.pump()

    def on_datagram(self, dgram, copy_index):
        if self.crashed or self.broken:
            return
        if self.stalled_until is not None and self.k.now < self.stalled_until:
            self.backlog.append((dgram, copy_index))
            return
        sim = self.sim
        if self.conn is None:
            for o in sim.oracles:
                o.on_frontend_datagram(self, dgram, copy_index)
            if not sim.server_accept(self, dgram):
                return
        if self.terminated and not sim.poke_after_termination:
            return
        for o in sim.oracles:
            o.on_datagram_delivered(self, dgram, copy_index)
        self.api("receive_datagram", dgram.data, dgram.src, self.now())
        batch = sim.cfg.get("batch_rx")
        if batch is None:
            self.pump()
        elif not getattr(self, "pump_pending", False):
            # an application that reads every datagram that is (about to be) available before it asks the
            # connection for events and for what to send: a legal use of the Sans-IO API
            self.pump_pending = True
            self.k.at(self.k.now + batch, self._deferred_pump, tag="pump:" + self.name)

    def _deferred_pump(self):
        self.pump_pending = False
        if self.crashed or self.broken:
            return
        try:
            self.pump()
        except EndpointBroken:
            pass

    def wake(self):
        self.stalled_until = None
        backlog, self.backlog = self.backlog, []
        for dgram, ci in backlog:
            self.on_datagram(dgram, ci)


class SendState:
    __slots__ = ("written", "fin", "reset", "stopped_by_peer", "opened_at")

    def __init__(self):
        self.written = 0
        self.fin = False
        self.reset = False
        self.stopped_by_peer = False
        self.opened_at = 0.0


class RecvState:
    __slots__ = ("delivered", "fin", "reset", "stop_requested", "fin_count", "events_after_end")

    def __init__(self):
        self.delivered = 0
        self.fin = False
        self.reset = False
        self.stop_requested = False
        self.fin_count = 0
        self.events_after_end = 0


class AppSide:
    """The scripted application on one endpoint: only ever uses the public API the
    way its documentation allows."""

    def __init__(self, ep):
        self.ep = ep
        self.send = {}  # stream_id -> SendState
        self.recv = {}  # stream_id -> RecvState
        self.ping_uid = 0
        self.pings_sent = []
        self.pings_acked = []
        self.key_update_gate = None  # uid of the ping that must be acked first
        self.key_updates = 0
        self.cid_changes = 0

    @property
    def direction(self):
        return "c" if self.ep.is_client else "s"

    def writable_streams(self):
        out = []
        for sid, st in self.send.items():
            if not st.fin and not st.reset and not st.stopped_by_peer:
                out.append(sid)
        # peer-initiated bidirectional streams we have seen and never written to
        for sid, rs in self.recv.items():
            if sid not in self.send and not (sid & 2) and ((sid & 1) == 0) != self.ep.is_client:
                out.append(sid)
        return sorted(out)

    def stoppable_streams(self):
        out = []
        for sid, rs in self.recv.items():
            if not rs.fin and not rs.reset and not rs.stop_requested:
                out.append(sid)
        # our own bidirectional streams on which nothing was received yet
        for sid in self.send:
            if sid not in self.recv and not (sid & 2) and ((sid & 1) == 0) == self.ep.is_client:
                out.append(sid)
        return sorted(out)


class SimNetwork:
    def __init__(self, sim):
        self.sim = sim
        self.k = sim.k
        self.ch = sim.ch.stream("net")
        self.routes = {}  # addr -> Endpoint
        self.next_id = 0
        self.fired = Counter()
        self.sig = hashlib.sha256()
        self.in_flight = 0
        self.last_arrival = {}  # (src,dst) -> time, for FIFO in the fair phase
        self.former_client_addrs = set()

    def send(self, ep, data, dst):
        sim = self.sim
        cfg = sim.cfg
        d = Datagram()
        d.id = self.next_id
        self.next_id += 1
        d.sender = ep.name
        d.data = data
        d.src = ep.addr
        d.dst = dst
        d.sent_at = self.k.now
        d.copies = 0
        fair = self.k.now >= cfg["t_fair"]
        d.phase = "fair" if fair else "adv"
        for o in sim.oracles:
            o.on_datagram_sent(ep, d)
        sim.n_datagrams += 1
        base = cfg["latency"]
        fate = "deliver"
        delays = []
        if fair:
            delays = [base]
        elif any(b[0] <= self.k.now < b[1] and (len(b) < 3 or b[2] == ep.name) for b in cfg["blackouts"]):
            fate = "blackout"
        elif getattr(ep, "drop_next", 0) > 0:
            # targeted loss: the first datagrams after an operation that changes what the peer must understand
            ep.drop_next -= 1
            fate = "drop"
        else:
            idx = self.ch.weighted(cfg["fate_weights"])
            fate = ("deliver", "drop", "dup", "delay")[idx]
            jit = cfg["jitter"]
            if fate == "deliver":
                delays = [base + jit * self.ch.choose(8) / 8.0]
            elif fate == "delay":
                delays = [base + jit + base * (1 + self.ch.choose(24)) / 4.0]
            elif fate == "dup":
                n = 2 + self.ch.geometric(2, 0.4)
                delays = [base + jit * self.ch.choose(8) / 8.0]
                for _ in range(n - 1):
                    delays.append(base + base * self.ch.choose(32) / 4.0)
        d.fate = fate
        if fate != "deliver":
            self.fired[fate] += 1
        if not fair:
            self.sig.update(("%s:%s;" % (ep.name[0], fate[:2])).encode())
        self.k.trace("send", ep.name, d.id, len(data), hashlib.sha256(data).hexdigest()[:12], fate)
        for i, dl in enumerate(delays):
            t = self.k.now + dl
            if fair:
                key = (d.src, d.dst)
                t = max(t, self.last_arrival.get(key, 0.0))
                self.last_arrival[key] = t
            self.in_flight += 1
            self.k.at(t, self._arrive, d, i, tag="net")
        # address spoofing: a copy of a client datagram arrives from an address the
        # client does not own (responses to it go nowhere)
        if not fair and ep.is_client and cfg["p_spoof"] > 0 and self.ch.chance(cfg["p_spoof"]):
            self.fired["spoof"] += 1
            s = Datagram()
            s.id = self.next_id
            self.next_id += 1
            s.sender = "spoof"
            s.data = data
            s.src = ("203.0.113.9", 1000 + self.ch.choose(4))
            s.dst = dst
            s.sent_at = self.k.now
            s.fate = "spoof"
            s.phase = "adv"
            s.copies = 0
            s.meta = d.meta
            self.in_flight += 1
            self.k.at(self.k.now + base, self._arrive, s, 0, tag="net")

    def _arrive_junk(self, d):
        ep = self.routes.get(d.dst)
        if ep is None:
            return
        self.k.trace("arrive-junk", ep.name, d.id, len(d.data))
        try:
            ep.on_datagram(d, 0)
        except EndpointBroken:
            pass

    def _server_knows_newer(self, addr):
        """RFC 9000 9.3: an endpoint sends to the source address of the highest-numbered non-probing
        (1-RTT) packet it received. `expected_client_addr` is maintained by an oracle that decodes
        the wire (checks.c01.PathExpectation); None = unknown, be lenient."""
        exp = getattr(self, "expected_client_addr", None)
        return exp is not None and exp[0] == addr[0] and exp[1] > addr[1]

    def _arrive(self, d, copy_index):
        self.in_flight -= 1
        ep = self.routes.get(d.dst)
        if ep is None and d.dst in self.former_client_addrs and (
                self.k.now >= self.sim.cfg["t_fair"] or self.sim.cfg.get("old_addr_alive")):
            # fair phase: the NAT still forwards former mappings, so "the network eventually
            # delivers" also holds for a server that keeps using an older client address;
            # during the adversarial phase a rebound address is dead (unless the run drew a NAT that keeps
            # its former mappings: "old_addr_alive")
            ep = self.sim.client
            if self.sim.profile.get("strict_heal") and self._server_knows_newer(d.dst):
                # ... but not for a server to which the highest-numbered non-probing 1-RTT packet so far was
                # delivered from a newer address of this client: sending to the old mapping is its own doing
                ep = None
        if ep is None:
            self.k.trace("noroute", d.id)
            self.fired["noroute"] += 1
            return
        d.copies += 1
        self.k.trace("arrive", ep.name, d.id, copy_index)
        try:
            ep.on_datagram(d, copy_index)
        except EndpointBroken:
            pass


DEFAULT_PROFILE = {
    "faults": ("drop", "dup", "delay", "blackout", "rebind", "timer-late", "clock"),
    "fault_free": False,
    "max_ops": 14,
    "op_weights": {"write": 10, "fin": 3, "reset": 1.5, "stop": 1.0, "ping": 1.5, "key_update": 1.0, "change_cid": 1.0},
    "small_limits": 0.5,
    # a receive window of 0 is never raised by aioquic (used*2 > 0 never holds): "accept nothing" is a
    # configuration in which delivery is impossible, so it only appears in C06's safety-only runs
    "limit_values": (1, 2, 50, 500, 1199, 1200, 1201, 4000, 20000, 65536),
    "max_streams_per_kind": 4,
    "sizes": (0, 1, 2, 17, 100, 900, 1100, 1200, 1300, 2500, 6000, 20000, 66000),
    "t_adv_max": 8.0,
    "fair_budget": 150.0,
    "drain": 3.0,
    "max_steps": 60000,
    "versions": True,
    "cipher_suites": True,
    "poke_after_termination": False,
    "secrets_log": False,
    "quic_logger": False,
    "server_cert": None,
    "datagram_sizes": (1200, 1200, 1252, 1350, 1472),
    "cid_lengths": (8, 8, 8, 4, 5, 12, 16, 20),
    "idle_timeouts": (60.0, 120.0, 600.0),
}


class TransportSim:
    def __init__(self, chooser, profile=None, oracles=()):
        bootstrap.load()
        self.ch = chooser
        self.profile = dict(DEFAULT_PROFILE)
        if profile:
            self.profile.update(profile)
        self.k = Kernel()
        self.oracles = list(oracles)
        self.poke_after_termination = self.profile["poke_after_termination"]
        self.api_exception = None
        self.n_datagrams = 0
        self.n_events = Counter()
        self.last_timer_lateness = {}
        self.last_timer_injected = {}
        self.timer_stream = chooser.stream("timer")
        self.script_stream = chooser.stream("script")
        self.late_fired = 0
        self.probes = Counter()
        self.op_log = []
        self.ops_skipped = 0
        self.goal_at = None
        self.end_reason = None
        # the code under test draws "random" bytes already while connections are constructed
        bootstrap.DET.reseed(chooser.seed)
        self.wall_base = float((profile or {}).get("wall_base", 0.0))
        bootstrap.WALL.offset = self.wall_base
        self.cfg = self._draw_config()
        self.net = SimNetwork(self)
        self._build_endpoints()
        self._draw_script()

    # ------------------------------------------------------------------ config
    def _draw_config(self):
        c = self.ch.stream("config")
        p = self.profile
        faults = set(p["faults"]) if not p["fault_free"] else set()
        cfg = {}
        # swarm: each enabled fault kind is switched on for this run with prob 2/3
        on = set()
        for f in sorted(faults):
            if c.chance(0.66):
                on.add(f)
        cfg["faults_on"] = sorted(on)
        lat_choices = (0.001, 0.005, 0.02, 0.05, 0.1, 0.3)
        cfg["latency"] = lat_choices[c.choose(len(lat_choices))]
        cfg["jitter"] = cfg["latency"] * c.choose(5) / 4.0
        intensity = (0.02, 0.06, 0.15, 0.3)[c.weighted([4, 3, 2, 1])]
        w_drop = intensity if "drop" in on else 0.0
        w_dup = intensity * 0.6 if "dup" in on else 0.0
        w_delay = intensity if "delay" in on else 0.0
        cfg["fate_weights"] = [max(1.0 - w_drop - w_dup - w_delay, 0.05), w_drop, w_dup, w_delay]
        cfg["t_adv"] = 0.2 + p["t_adv_max"] * (1 + c.choose(16)) / 16.0
        if p["fault_free"]:
            cfg["t_adv"] = 0.2 + 2.0 * c.choose(4) / 4.0
        cfg["t_fair"] = cfg["t_adv"]
        cfg["blackouts"] = []
        if "blackout" in on and c.chance(0.5):
            start = cfg["t_adv"] * c.choose(8) / 8.0
            dur = min(0.05 + 3.0 * c.choose(8) / 8.0, cfg["t_adv"] - start)
            cfg["blackouts"].append((start, start + dur))
        # a one-way or two-way blackout that starts the moment the server accepts the connection (its whole
        # first flight and the retransmissions are lost while the client's first Initial got through)
        cfg["blackout_on_accept"] = None
        if on and p.get("blackout_on_accept_p") and c.chance(p["blackout_on_accept_p"]):
            cfg["blackout_on_accept"] = (0.2 + 4.0 * c.choose(8) / 8.0, (None, "server")[c.choose(2)])
        cfg["rebinds"] = []
        if "rebind" in on:
            for _ in range(c.geometric(p.get("max_rebinds", 3), p.get("rebind_mean", 0.7))):
                cfg["rebinds"].append(cfg["t_adv"] * (1 + c.choose(15)) / 16.0)
            if p.get("rebind_burst") and cfg["rebinds"] and c.chance(0.5):
                # a burst of address changes a few milliseconds apart
                cfg["old_addr_alive"] = c.chance(p.get("rebind_old_alive_p", 0.0)) if p.get("rebind_old_alive_p") else False
                gap = (0.001, 0.005, 0.02, 0.06)[c.choose(4)]
                t0 = min(cfg["rebinds"])
                if c.chance(0.5):
                    # ... or every one of the next n client datagrams leaves from a fresh address
                    cfg["rebind_each"] = len(cfg["rebinds"])
                    cfg["rebinds"] = [t0]
                else:
                    cfg["rebinds"] = [t0 + i * gap for i in range(len(cfg["rebinds"]))]
        cfg["p_spoof"] = 0.03 if "spoof" in on else 0.0
        cfg["p_timer_late"] = (0.0, 0.05, 0.2)[c.choose(3)] if "timer-late" in on else 0.0
        cfg["timer_late_max"] = (0.01, 0.1, 1.0)[c.choose(3)]
        if "clock" in on:
            cfg["clock"] = {
                "client": (1000.0 * c.choose(4), 1.0 + (c.choose(5) - 2) * 1e-4),
                "server": (5000.0 + 977.0 * c.choose(4), 1.0 + (c.choose(5) - 2) * 1e-4),
            }
        else:
            cfg["clock"] = {"client": (0.0, 1.0), "server": (0.0, 1.0)}
        cfg["stalls"] = []
        if "stall" in on:
            for _ in range(c.geometric(2, 0.6)):
                who = ("client", "server")[c.choose(2)]
                start = cfg["t_adv"] * c.choose(16) / 16.0
                cfg["stalls"].append((who, start, 0.01 + 1.5 * c.choose(8) / 8.0))
        cfg["crash"] = None
        if "peer-crash" in on and c.chance(0.5):
            cfg["crash"] = (("client", "server")[c.choose(2)], cfg["t_adv"] * (1 + c.choose(16)) / 16.0)

        # endpoint configuration
        cfg["cc"] = ("reno", "cubic")[c.choose(2)]
        vlists = ([V1, V2], [V2, V1], [V1], [V2])
        if p["versions"]:
            cv = vlists[c.choose(4)]
            sv = vlists[c.choose(4)]
            if cv[0] not in sv:  # incompatible negotiation needs a VN packet: see server_accept
                if not p.get("allow_vn"):
                    sv = [cv[0]] + [v for v in sv if v != cv[0]]
                elif not set(cv) & set(sv) and not p.get("allow_no_common_version"):
                    sv = list(sv) + [cv[-1]]  # Version Negotiation must be able to succeed
        else:
            cv, sv = [V1, V2], [V1, V2]
        cfg["client_versions"], cfg["server_versions"] = cv, sv
        suites_all = [0x1301, 0x1302, 0x1303]
        if p["cipher_suites"]:
            perm = [[0x1301, 0x1302, 0x1303], [0x1303, 0x1301, 0x1302], [0x1302, 0x1303, 0x1301],
                    [0x1301], [0x1302], [0x1303], None]
            cs = perm[c.choose(len(perm))]
            ss = perm[c.choose(len(perm))]
            if cs is not None and ss is not None and not set(cs) & set(ss) and not p.get("allow_disjoint_suites"):
                ss = None
        else:
            cs = ss = None
        cfg["client_suites"], cfg["server_suites"] = cs, ss
        ds = p["datagram_sizes"]
        cfg["client_mds"] = ds[c.choose(len(ds))]
        cfg["server_mds"] = ds[c.choose(len(ds))]
        cl = p["cid_lengths"]
        cfg["client_cid_len"] = cl[c.choose(len(cl))]
        cfg["server_cid_len"] = cl[c.choose(len(cl))]
        it = p["idle_timeouts"]
        cfg["client_idle"] = it[c.choose(len(it))]
        cfg["server_idle"] = it[c.choose(len(it))]
        cfg["initial_rtt"] = (0.1, 0.05, 0.333)[c.choose(3)]
        cfg["foreign_tp"] = bool(p.get("foreign_tp_p")) and c.chance(p["foreign_tp_p"])
        # one side advertises max_idle_timeout = 0 ("no idle timeout", RFC 9000 18.2), as a peer other than aioquic may
        cfg["idle_zero_side"] = c.choose(2) if p.get("idle_zero_p") and c.chance(p["idle_zero_p"]) else None
        cfg["batch_rx"] = (0.0, 0.0005, 0.005)[c.choose(3)] if p.get("batch_rx_p") and c.chance(p["batch_rx_p"]) else None
        cfg["quiet_side"] = c.choose(2) if p.get("quiet_side_p") and c.chance(p["quiet_side_p"]) else None
        cfg["retry"] = bool(p.get("retry_p")) and c.chance(p["retry_p"])
        cfg["retry_pad"] = 0
        if cfg["retry"] and p.get("retry_token_pads"):
            # a server may issue a token of any length; one that leaves no room in the client's Initial is hostile
            cfg["retry_pad"] = p["retry_token_pads"][c.choose(len(p["retry_token_pads"]))]
        if cfg["retry"] and not p.get("rebind_with_retry"):
            # a Retry token is bound to the client's address: an address change between Retry and its
            # use makes the handshake impossible by design (the client accepts only one Retry), so
            # liveness could not be judged
            cfg["rebinds"] = []

        def limit():
            if c.chance(p["small_limits"]):
                return p["limit_values"][c.choose(len(p["limit_values"]))]
            return 1048576

        cfg["client_max_data"] = max(limit(), 0)
        cfg["client_max_stream_data"] = limit()
        cfg["server_max_data"] = limit()
        cfg["server_max_stream_data"] = limit()
        # the three per-stream-type initial windows (bidi_local, bidi_remote, uni): aioquic's configuration has
        # one knob for all three; a peer may advertise three different values, produced by setting the
        # RECEIVING side's values right after construction, only when the profile asks for it
        for side in ("client", "server"):
            cfg[side + "_stream_data_split"] = None
            if p.get("split_stream_limits") and c.chance(p["split_stream_limits"]):
                vals = p["limit_values"]
                cfg[side + "_stream_data_split"] = tuple(vals[c.choose(len(vals))] for _ in range(3))
        # stream-count limits advertised by each side: aioquic hard-codes 128; a smaller value is
        # set on the RECEIVING side's limit objects right after construction (equivalent to a
        # peer that advertises less), only when the profile asks for it
        for side in ("client", "server"):
            if p.get("small_stream_limits", 0) and c.chance(p["small_stream_limits"]):
                cfg[side + "_max_streams"] = ((0, 1, 2, 3)[c.choose(4)], (0, 1, 2, 3)[c.choose(4)])
            else:
                cfg[side + "_max_streams"] = (128, 128)
        cert = p["server_cert"]
        if cert is None:
            cert = ("server_ed25519", "server_ed25519", "server_ed25519", "chain2", "chain5")[c.choose(5)]
            if p.get("big_cert_p") and c.chance(p["big_cert_p"]):
                # a Certificate message of 8 or 16 kB: first flight of many datagrams
                cert = ("bigchain8k", "bigchain16k")[c.choose(2)]
        cfg["server_cert"] = cert
        return cfg

    # --------------------------------------------------------------- endpoints
    def make_configuration(self, is_client):
        from aioquic.quic.configuration import QuicConfiguration
        from aioquic.tls import CipherSuite

        cfg = self.cfg
        side = "client" if is_client else "server"
        kw = dict(
            is_client=is_client,
            alpn_protocols=["verif"],
            congestion_control_algorithm=cfg["cc"],
            connection_id_length=cfg[side + "_cid_len"],
            idle_timeout=cfg[side + "_idle"],
            max_data=cfg[side + "_max_data"],
            max_stream_data=cfg[side + "_max_stream_data"],
            max_datagram_size=cfg[side + "_mds"],
            initial_rtt=cfg["initial_rtt"],
            supported_versions=list(cfg[side + "_versions"]),
        )
        conf = QuicConfiguration(**kw)
        suites = cfg[side + "_suites"]
        if suites is not None:
            conf.cipher_suites = [CipherSuite(s) for s in suites]
        if is_client:
            conf.server_name = "localhost"
            conf.cafile = fixtures.ca_path()
        else:
            cert, chain, key = fixtures.cert_chain(cfg["server_cert"])
            conf.certificate = cert
            conf.certificate_chain = chain
            conf.private_key = key
        if self.profile["secrets_log"]:
            conf.secrets_log_file = io.StringIO()
        if self.profile["quic_logger"]:
            from aioquic.quic.logger import QuicLogger

            conf.quic_logger = QuicLogger()
        hook = self.profile.get("configure")
        if hook:
            hook(self, conf, is_client)
        return conf

    def _build_endpoints(self):
        from aioquic.quic.connection import QuicConnection

        cfg = self.cfg
        self.client_addr_n = 0
        self.rebind_each_left = 0
        self.rebind_each_armed = False
        co, cr = cfg["clock"]["client"]
        so, sr = cfg["clock"]["server"]
        self.client = Endpoint(self, "client", True, ("10.0.0.1", 40000), co, cr)
        self.server = Endpoint(self, "server", False, ("10.0.0.2", 4433), so, sr)
        self.client.peer = self.server
        self.server.peer = self.client
        self.endpoints = [self.client, self.server]
        self.net.routes[self.client.addr] = self.client
        self.net.routes[self.server.addr] = self.server
        self.retry_state = {}
        sconf = self.make_configuration(False)
        self.server.config = sconf
        self.server.secrets = sconf.secrets_log_file
        conf = self.make_configuration(True)
        self.client.config = conf
        self.client.secrets = conf.secrets_log_file
        self.client.conn = QuicConnection(configuration=conf, **self.profile.get("client_kwargs", {}))
        self._post_create(self.client)

    def server_accept(self, ep, dgram):
        """What a server front-end (like aioquic.asyncio.server) does before a
        connection object exists: only a full-size Initial of a supported version
        creates state. Header fields are read here without aioquic."""
        from aioquic.quic.connection import QuicConnection

        data = dgram.data
        if self.profile.get("accept_any_first") and getattr(dgram, "sender", "") == "junk":
            # Sans-IO contract: ANY datagram may be the first one handed to a server connection
            # (the connection, not the front-end, must cope); ODCID from the header when there is one
            odcid = bytes(8)
            if len(data) >= 7 and (data[0] & 0x80) and data[5] <= 20 and len(data) >= 6 + data[5]:
                odcid = data[6:6 + data[5]]
            ep.conn = QuicConnection(configuration=ep.config, original_destination_connection_id=odcid,
                                     **self.profile.get("server_kwargs", {}))
            self.k.trace("server-created-by-junk", odcid.hex())
            self._post_create(ep)
            return True
        if len(data) < 1200 or not (data[0] & 0x80) or len(data) < 7:
            return False
        version = int.from_bytes(data[1:5], "big")
        dlen = data[5]
        if dlen > 20 or len(data) < 7 + dlen:
            return False
        dcid = data[6:6 + dlen]
        slen = data[6 + dlen]
        if slen > 20 or len(data) < 7 + dlen + slen:
            return False
        scid = data[7 + dlen:7 + dlen + slen]
        if version not in self.cfg["server_versions"]:
            if self.profile.get("allow_vn") and version != 0:
                # incompatible version negotiation (RFC 9368 2.2): built by the independent codec
                from wire import header as wh

                vn = wh.build_version_negotiation(scid, dcid, list(self.cfg["server_versions"]))
                self.net.fired["version-negotiation"] += 1
                self.net.send(ep, vn, dgram.src)
            return False
        ptype = (data[0] & 0x30) >> 4
        is_initial = ptype == (1 if version == V2 else 0)
        if not is_initial:
            return False
        kwargs = dict(self.profile.get("server_kwargs", {}))
        odcid = dcid
        if self.cfg.get("retry"):
            # address validation with Retry (what aioquic.asyncio.server does with retry=True),
            # Retry packet built by the independent codec; the token binds the source address
            from wire import header as wh
            from wire import varint as wv

            pos = 7 + dlen + slen
            try:
                tlen, pos = wv.dec(data, pos)
            except Exception:
                return False
            token = data[pos:pos + tlen]
            want = b"verif-retry-token:%s:%d" % (dgram.src[0].encode(), dgram.src[1])
            if not token:
                rscid = bootstrap.DET.urandom(8)
                # stateless, like a real server: the token itself carries ODCID and Retry SCID
                tok = want + b":" + dcid.hex().encode() + b":" + rscid.hex().encode()
                if self.cfg.get("retry_pad"):
                    tok += b":" + b"p" * self.cfg["retry_pad"]
                pkt = wh.build_retry(version, scid, rscid, tok, dcid)
                self.net.fired["retry"] += 1
                self.net.send(ep, pkt, dgram.src)
                return False
            parts = token[len(want):].split(b":") if token.startswith(want) else []
            try:
                t_odcid, t_rscid = bytes.fromhex(parts[1].decode()), bytes.fromhex(parts[2].decode())
            except Exception:
                t_odcid = t_rscid = None
            if t_rscid is None or dcid != t_rscid:
                self.net.fired["retry-bad-token"] += 1
                return False
            odcid = t_odcid
            kwargs["retry_source_connection_id"] = t_rscid
        conf = ep.config
        ep.conn = QuicConnection(
            configuration=conf, original_destination_connection_id=odcid, **kwargs)
        self.k.trace("server-created", dcid.hex())
        self._post_create(ep)
        return True

    def _post_create(self, ep):
        side = "client" if ep.is_client else "server"
        bidi, uni = self.cfg[side + "_max_streams"]
        if (bidi, uni) != (128, 128):
            c = ep.conn
            c._local_max_streams_bidi.value = c._local_max_streams_bidi.sent = bidi
            c._local_max_streams_uni.value = c._local_max_streams_uni.sent = uni
        split = self.cfg.get(side + "_stream_data_split")
        if split:
            c = ep.conn
            c._local_max_stream_data_bidi_local, c._local_max_stream_data_bidi_remote, c._local_max_stream_data_uni = split
        if self.cfg.get("foreign_tp") and not ep.is_client:
            self._advertise_foreign_parameters(ep.conn)
        if self.cfg.get("idle_zero_side") is not None and self.cfg["idle_zero_side"] == (0 if ep.is_client else 1):
            self._advertise_idle_zero(ep.conn)
            ep.advertises_idle_zero = True
        boa = self.cfg.get("blackout_on_accept")
        if boa and not ep.is_client and self.k.now < self.cfg["t_fair"]:
            end = min(self.k.now + boa[0], self.cfg["t_fair"])
            self.cfg["blackouts"].append((self.k.now, end) if boa[1] is None else (self.k.now, end, boa[1]))
            self.cfg["blackout_on_accept"] = None
        hook = self.profile.get("post_create")
        if hook:
            hook(self, ep)

    @staticmethod
    def _advertise_idle_zero(conn):
        """This endpoint advertises max_idle_timeout = 0 (it keeps its own configured period for itself): what the
        instance serialises is changed, nothing in the peer under observation."""
        import aioquic.quic.connection as qc

        orig_ser = conn._serialize_transport_parameters

        def serialize():
            orig_push = qc.push_quic_transport_parameters

            def push(buf, params):
                params.max_idle_timeout = 0
                return orig_push(buf, params)

            qc.push_quic_transport_parameters = push
            try:
                return orig_ser()
            finally:
                qc.push_quic_transport_parameters = orig_push

        conn._serialize_transport_parameters = serialize

    @staticmethod
    def _advertise_foreign_parameters(conn):
        """A server that is not aioquic may advertise transport parameters aioquic itself never sends
        (preferred_address, disable_active_migration): add them to what this server instance serialises."""
        import aioquic.quic.connection as qc
        from aioquic.quic.packet import QuicPreferredAddress

        orig_ser = conn._serialize_transport_parameters

        def serialize():
            orig_push = qc.push_quic_transport_parameters

            def push(buf, params):
                params.preferred_address = QuicPreferredAddress(
                    ipv4_address=("192.0.2.1", 4433), ipv6_address=("2001:db8::1", 4433),
                    connection_id=bytes(range(8)), stateless_reset_token=bytes(range(16)))
                params.disable_active_migration = True
                return orig_push(buf, params)

            qc.push_quic_transport_parameters = push
            try:
                return orig_ser()
            finally:
                qc.push_quic_transport_parameters = orig_push

        conn._serialize_transport_parameters = serialize

    def peer_stream_data_limit(self, ep, sid):
        """initial per-stream window the PEER of ep grants for ep's sending on stream sid"""
        side = "server" if ep.is_client else "client"
        split = self.cfg.get(side + "_stream_data_split")
        if not split:
            return self.cfg[side + "_max_stream_data"]
        if sid & 2:
            return split[2]
        mine = ((sid & 1) == 0) == ep.is_client
        # a stream ep opened is, for the peer, remotely initiated: its bidi_remote value applies
        return split[1] if mine else split[0]

    def peer_stream_limit(self, ep, uni):
        """stream-count limit the PEER of ep advertises initially"""
        side = "server" if ep.is_client else "client"
        return self.cfg[side + "_max_streams"][1 if uni else 0]

    # ------------------------------------------------------------------ timers
    def draw_lateness(self, ep):
        cfg = self.cfg
        s = self.timer_stream
        if self.k.now < cfg["t_fair"] and cfg["p_timer_late"] > 0 and s.chance(cfg["p_timer_late"]):
            self.late_fired += 1
            self.net.fired["timer-late"] += 1
            return 1e-6 + cfg["timer_late_max"] * (1 + s.choose(16)) / 16.0
        return 1e-6 * (1 + s.choose(4))

    # ------------------------------------------------------------------ script
    def _draw_script(self):
        s = self.script_stream
        p = self.profile
        cfg = self.cfg
        n = 1 + s.choose(p["max_ops"])
        kinds = sorted(p["op_weights"].keys())
        weights = [p["op_weights"][k] for k in kinds]
        # "write" first so that value 0 is the plainest op
        order = ["write"] + [k for k in kinds if k != "write"]
        weights = [p["op_weights"][k] for k in order]
        ops = []
        horizon = cfg["t_adv"] * 1.25
        for i in range(n):
            t = horizon * s.choose(64) / 64.0
            who = s.choose(2)
            kind = order[s.weighted(weights)]
            target = s.choose(12)
            size = p["sizes"][s.choose(len(p["sizes"]))]
            if size > 2:
                size = max(0, size + s.choose(5) - 2)
            fin = s.choose(4) == 1
            if cfg.get("quiet_side") is not None and who == cfg["quiet_side"]:
                # this endpoint's application only receives: all it ever does is update its keys
                kind = "key_update"
            ops.append((t, i, who, kind, target, size, fin))
        ops.sort()
        self.script = ops
        for t, i, who, kind, target, size, fin in ops:
            self.k.at(t, self._run_op, who, kind, target, size, fin, tag="app")
        for t in cfg["rebinds"]:
            self.k.at(t, self._rebind, tag="fault")
        for who, start, dur in cfg["stalls"]:
            self.k.at(start, self._stall, who, dur, tag="fault")
        if cfg["crash"]:
            self.k.at(cfg["crash"][1], self._crash, cfg["crash"][0], tag="fault")
        extra = self.profile.get("schedule_extra")
        if extra:
            extra(self)

    def _rebind(self):
        c = self.client
        if self.cfg.get("rebind_each") and not self.rebind_each_armed:
            self.rebind_each_armed = True
            self.rebind_each_left = self.cfg["rebind_each"]
        self.net.routes.pop(c.addr, None)
        self.net.former_client_addrs.add(c.addr)
        self.client_addr_n += 1
        c.addr = ("10.0.0.1", 40000 + self.client_addr_n)
        self.net.routes[c.addr] = c
        self.net.fired["rebind"] += 1
        self.k.trace("rebind", c.addr[1])

    def _stall(self, who, dur):
        ep = self.client if who == "client" else self.server
        if ep.stalled_until is None:
            ep.stalled_until = self.k.now + dur
            self.net.fired["stall"] += 1
            self.k.trace("stall", who, dur)
            self.k.at(ep.stalled_until, self._wake, ep, tag="fault")

    def _wake(self, ep):
        try:
            ep.wake()
        except EndpointBroken:
            pass

    def _crash(self, who):
        ep = self.client if who == "client" else self.server
        ep.crashed = True
        if ep.timer_ev is not None:
            ep.timer_ev.cancelled = True
        self.net.fired["peer-crash"] += 1
        self.k.trace("crash", who)

    def _run_op(self, who, kind, target, size, fin):
        ep = self.endpoints[who]
        try:
            self._do_op(ep, kind, target, size, fin)
        except EndpointBroken:
            pass

    def _do_op(self, ep, kind, target, size, fin):
        app = ep.app
        if ep.conn is None or ep.terminated or ep.broken or ep.crashed or ep.closing_requested():
            self.ops_skipped += 1
            return
        if ep.stalled_until is not None and self.k.now < ep.stalled_until:
            self.ops_skipped += 1
            return
        custom = self.profile.get("custom_ops", {}).get(kind)
        if not ep.is_client and not ep.handshake_complete and not (custom is not None and kind == "close"):
            self.ops_skipped += 1
            return
        if custom is not None:
            custom(self, ep, target, size, fin)
            return
        maxs = self.profile["max_streams_per_kind"]
        done = False
        if kind in ("write", "fin"):
            cands = list(app.writable_streams())
            own_bidi = [s for s in app.send if not (s & 2) and ((s & 1) == 0) == ep.is_client]
            own_uni = [s for s in app.send if (s & 2)]
            if len(own_bidi) < maxs:
                cands.append("new-bidi")
            if len(own_uni) < maxs:
                cands.append("new-uni")
            if cands:
                c = cands[target % len(cands)]
                if c == "new-bidi":
                    sid = ep.conn.get_next_available_stream_id(False)
                elif c == "new-uni":
                    sid = ep.conn.get_next_available_stream_id(True)
                else:
                    sid = c
                st = app.send.get(sid)
                if st is None:
                    st = app.send[sid] = SendState()
                    st.opened_at = self.k.now
                if kind == "fin":
                    size, fin = 0, True
                data = pattern(app.direction, sid, st.written, size)
                self.k.trace("op", ep.name, "write", sid, size, int(fin))
                self.op_log.append((round(self.k.now, 6), ep.name, "write", sid, size, int(fin)))
                ep.api("send_stream_data", sid, data, fin)
                st.written += size
                st.fin = st.fin or fin
                done = True
        elif kind == "reset":
            cands = [s for s in app.writable_streams() if s in app.send]
            if cands:
                sid = cands[target % len(cands)]
                self.k.trace("op", ep.name, "reset", sid)
                self.op_log.append((round(self.k.now, 6), ep.name, "reset", sid))
                ep.api("reset_stream", sid, 7 + size % 100)
                app.send[sid].reset = True
                done = True
        elif kind == "stop":
            cands = app.stoppable_streams()
            if cands:
                sid = cands[target % len(cands)]
                self.k.trace("op", ep.name, "stop", sid)
                self.op_log.append((round(self.k.now, 6), ep.name, "stop", sid))
                ep.api("stop_stream", sid, 3 + size % 100)
                if sid not in app.recv:
                    app.recv[sid] = RecvState()
                app.recv[sid].stop_requested = True
                done = True
        elif kind == "ping":
            app.ping_uid += 1
            uid = app.ping_uid
            self.k.trace("op", ep.name, "ping", uid)
            self.op_log.append((round(self.k.now, 6), ep.name, "ping", uid))
            ep.api("send_ping", uid)
            app.pings_sent.append(uid)
            done = True
        elif kind == "key_update":
            # RFC 9001 6.1: at most one update outstanding; the application waits for
            # an acknowledgement of a packet sent under the current keys. "An endpoint MUST NOT
            # initiate a key update prior to having confirmed the handshake": the public API has no
            # event for confirmation, so the script reads the connection's flag to respect the RFC.
            if ep.handshake_complete and getattr(ep.conn, "_handshake_confirmed", False):
                if app.key_update_gate is None:
                    app.ping_uid += 1
                    app.key_update_gate = ("wait", app.ping_uid)
                    self.k.trace("op", ep.name, "ku-ping", app.ping_uid)
                    ep.api("send_ping", app.ping_uid)
                    app.pings_sent.append(app.ping_uid)
                    done = True
                elif app.key_update_gate[0] == "ready":
                    self.k.trace("op", ep.name, "key_update")
                    self.op_log.append((round(self.k.now, 6), ep.name, "key_update"))
                    ep.api("request_key_update")
                    app.key_updates += 1
                    if self.profile.get("drop_after_ku_p") and self.k.now < self.cfg["t_fair"] and \
                            self.script_stream.chance(self.profile["drop_after_ku_p"]):
                        ep.drop_next = 1 + self.script_stream.choose(3)
                    if self.profile.get("ku_quiet_p") and self.script_stream.chance(self.profile["ku_quiet_p"]):
                        # the application updates its keys and sends nothing of its own: the new phase is first
                        # used by whatever the connection sends next (possibly only acknowledgements). No further
                        # update by this endpoint in this run (it could not tell when RFC 9001 6.1 allows one).
                        app.key_update_gate = ("closed", None)
                        done = True
                    else:
                        app.ping_uid += 1
                        app.key_update_gate = ("wait", app.ping_uid)
                        ep.api("send_ping", app.ping_uid)
                        app.pings_sent.append(app.ping_uid)
                        done = True
        elif kind == "change_cid":
            if ep.handshake_complete:
                self.k.trace("op", ep.name, "change_cid")
                self.op_log.append((round(self.k.now, 6), ep.name, "change_cid"))
                ep.api("change_connection_id")
                app.cid_changes += 1
                done = True
        if not done:
            self.ops_skipped += 1
            return
        ep.pump()

    # ------------------------------------------------------------------ events
    def dispatch_event(self, ep, ev):
        name = type(ev).__name__
        self.n_events[name] += 1
        app = ep.app
        self.k.trace("event", ep.name, name, getattr(ev, "stream_id", ""), len(getattr(ev, "data", b"") or b""),
                     int(bool(getattr(ev, "end_stream", False))))
        if name == "HandshakeCompleted":
            ep.handshake_complete = True
        elif name == "ConnectionTerminated":
            ep.terminated = True
            if ep.timer_ev is not None and not self.poke_after_termination:
                ep.timer_ev.cancelled = True
                ep.timer_ev = None
        elif name == "StreamDataReceived":
            rs = app.recv.get(ev.stream_id)
            if rs is None:
                rs = app.recv[ev.stream_id] = RecvState()
        elif name == "StreamReset":
            rs = app.recv.get(ev.stream_id)
            if rs is None:
                rs = app.recv[ev.stream_id] = RecvState()
        elif name == "StopSendingReceived":
            st = app.send.get(ev.stream_id)
            if st is None:
                st = app.send[ev.stream_id] = SendState()
            st.stopped_by_peer = True
        elif name == "PingAcknowledged":
            app.pings_acked.append(ev.uid)
            if app.key_update_gate == ("wait", ev.uid):
                app.key_update_gate = ("ready", ev.uid)
        for o in self.oracles:
            o.on_event(ep, ev)
        # bookkeeping after the oracles saw the pre-state
        if name == "StreamDataReceived":
            rs = app.recv[ev.stream_id]
            rs.delivered += len(ev.data)
            if ev.end_stream:
                rs.fin = True
                rs.fin_count += 1
        elif name == "StreamReset":
            app.recv[ev.stream_id].reset = True

    # --------------------------------------------------------------------- run
    def _watchdog(self):
        if self.k.stopped:
            return
        if self.goal_at is None:
            if all(o.goal_reached() for o in self.oracles):
                self.goal_at = self.k.now
        if self.goal_at is not None and self.k.now >= self.goal_at + self.profile["drain"] and self.net.in_flight == 0:
            self.k.stop("goal")
            return
        if all(e.terminated or e.crashed or e.conn is None for e in self.endpoints):
            self.k.stop("terminated")
            return
        self.k.after(0.25, self._watchdog, tag="watchdog")

    def run(self):
        cfg = self.cfg
        for o in self.oracles:
            o.on_start(self)
        self.k.trace("start")
        try:
            c = self.client
            c.api("connect", self.server.addr, c.now())
            c.pump()
        except EndpointBroken:
            pass
        self.k.at(max(cfg["t_fair"], self.script[-1][0] if self.script else 0.0) + 0.01, self._watchdog, tag="watchdog")
        until = cfg["t_fair"] + self.profile["fair_budget"]

        def after_step():
            for o in self.oracles:
                o.after_step()

        try:
            reason = self.k.run(until, self.profile["max_steps"], after_step)
        except EndpointBroken:
            reason = "api-exception"
        self.end_reason = reason
        self.k.trace("end", reason)
        for o in self.oracles:
            o.at_end(reason)
        return reason

    # ----------------------------------------------------------------- summary
    def summary(self):
        delivered = sum(rs.delivered for e in self.endpoints for rs in e.app.recv.values())
        fired = dict(self.net.fired)
        return {
            "reason": self.end_reason,
            "steps": self.k.steps,
            "sim_time": round(self.k.now, 6),
            "datagrams": self.n_datagrams,
            "bytes_delivered": delivered,
            "ops": len(self.op_log),
            "fired": fired,
            "sig": self.net.sig.hexdigest()[:16],
            "digest": self.k.digest(),
            "events": dict(self.n_events),
            "api_exception": self.api_exception,
            "probes": dict(self.probes),
        }


def _closing_requested(self):
    return getattr(self, "_closing", False)


Endpoint.closing_requested = _closing_requested
