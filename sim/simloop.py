"""A deterministic asyncio event loop on virtual time, an in-memory UDP network and the
fake `socket` namespace that `aioquic.asyncio.client` needs (property C19).

What is real: `asyncio.BaseEventLoop` machinery that does not touch the operating system
(`call_soon`, `create_future`, `create_task`, `run_until_complete`, `run_forever`, the C
`Task`/`Future`, `Handle._run`, `call_exception_handler`), and everything of aioquic.

What is replaced:
  * `time()`               virtual clock (float seconds), advanced only by `_run_once`
  * `call_at`              own timer heap; a timer whose deadline is `when` becomes runnable at
                           `max(when, now) + 1 us` (never exactly at its deadline: aioquic's loss
                           timer would spin in virtual time), later if the chooser says so
  * `_run_once`            ready callbacks first-in-first-out exactly as asyncio does; I/O callbacks
                           of an iteration are queued before the timers of that iteration, as
                           `BaseEventLoop._run_once` does; each callback may "take" virtual time
  * `create_datagram_endpoint` / `SimDatagramTransport`  modelled on
                           `asyncio.selector_events._SelectorDatagramTransport` (connection_made,
                           start of reading and the waiter are three `call_soon` callbacks; every
                           received datagram is one ready callback; `close()` stops reading at once
                           and reports `connection_lost` through `call_soon`)
  * `getaddrinfo`          returns the literal address one iteration later
  * no selector, no self-pipe, no executor, no signal handling, no threads, no sockets

Only schedules a single-threaded asyncio loop can produce are generated: the simulator never
reorders the ready queue, never runs a timer early and never runs two callbacks at once.
"""
import asyncio
import collections
import hashlib
import heapq
import itertools
from asyncio import events, tasks

from .kernel import HarnessError, Violation

MAPPED = "::ffff:"
AF_INET = 2
AF_INET6 = 10
SOCK_DGRAM = 2
_MIN_LATENESS = 1e-6


def norm_addr(addr):
    """(host, port[, flow, scope]) -> (plain host, port); '::ffff:a.b.c.d' -> 'a.b.c.d'"""
    host = addr[0]
    if host.startswith(MAPPED):
        host = host[len(MAPPED):]
    return (host, addr[1])


def as_seen_by_v6_socket(addr):
    """how a dual-stack AF_INET6 socket reports an IPv4 peer"""
    return (MAPPED + addr[0], addr[1], 0, 0)


class SimDeadlock(HarnessError):
    """nothing is ready, no timer is armed and nothing is in flight: a real loop would block forever"""


def callback_kind(cb):
    """stable description of a callback (no id(), no task names)"""
    f = getattr(cb, "func", cb)  # functools.partial
    q = getattr(f, "__qualname__", None)
    if q is None:
        q = type(f).__name__
    return q


# --------------------------------------------------------------------------- network
class Datagram:
    __slots__ = ("id", "data", "src", "dst", "sent_at", "fate", "phase", "spoofed")


class SimNet:
    """In-memory UDP. Fates are drawn from chooser stream "net" while the adversarial phase
    lasts; afterwards every datagram is delivered once, in order, after the base latency."""

    def __init__(self, loop, chooser, cfg):
        self.loop = loop
        self.ch = chooser.stream("net")
        self.cfg = cfg
        self.bound = {}  # (host, port) -> SimDatagramTransport / FakeSocket
        self.heap = []  # (arrival time, seq, Datagram)
        self.seq = itertools.count()
        self.next_id = 0
        self.fired = collections.Counter()
        self.sig = hashlib.sha256()
        self.last_arrival = {}
        self.taps = []  # callables (transport, data, dst) called for every sendto()
        self.spoof_filter = None  # callable (transport, data, dst) -> (probability of a spoofed copy, probe name)
        self.deliver_tap = None  # callable (transport, datagram) called just before datagram_received
        self.next_port = 50000
        self.host_ip = "10.0.0.1"  # address of every fake client socket bound to "::"
        self.sent = 0
        self.delivered = 0

    def alloc_port(self):
        self.next_port += 1
        return self.next_port

    # -- sending
    def send(self, transport, data, addr):
        cfg = self.cfg
        loop = self.loop
        now = loop._vtime
        dst = norm_addr(addr)
        data = bytes(data)
        for tap in self.taps:
            tap(transport, data, dst)
        self.sent += 1
        d = Datagram()
        d.id = self.next_id
        self.next_id += 1
        d.data = data
        d.src = transport.local
        d.dst = dst
        d.sent_at = now
        d.spoofed = False
        fair = now >= cfg["t_fair"]
        d.phase = "fair" if fair else "adv"
        base = cfg["latency"]
        fate = "deliver"
        delays = ()
        if fair:
            delays = (base,)
        elif any(a <= now < b for a, b in cfg["blackouts"]):
            fate = "blackout"
        else:
            idx = self.ch.weighted(cfg["fate_weights"])
            fate = ("deliver", "drop", "dup", "delay")[idx]
            jit = cfg["jitter"]
            if fate == "deliver":
                delays = (base + (jit * self.ch.choose(8) / 8.0 if jit else 0.0),)
            elif fate == "delay":
                delays = (base + jit + base * (1 + self.ch.choose(24)) / 4.0,)
            elif fate == "dup":
                n = 2 + self.ch.geometric(2, 0.4)
                dl = [base + (jit * self.ch.choose(8) / 8.0 if jit else 0.0)]
                for _ in range(n - 1):
                    dl.append(base + base * self.ch.choose(32) / 4.0)
                delays = tuple(dl)
        d.fate = fate
        if fate != "deliver":
            self.fired[fate] += 1
        if not fair:
            self.sig.update(("%d:%s;" % (transport.index, fate[:2])).encode())
        loop.log("send", transport.index, len(data), fate)
        for dl in delays:
            t = now + dl
            if fair:
                key = (d.src, d.dst)
                t = max(t, self.last_arrival.get(key, 0.0))
                self.last_arrival[key] = t
            heapq.heappush(self.heap, (t, next(self.seq), d))
        # spoofing: a copy arrives from an address its sender does not own
        if not fair and self.spoof_filter is not None:
            res = self.spoof_filter(transport, data, dst)
            p, tag = res[0], res[1]
            if p > 0 and self.ch.chance(p):
                s = Datagram()
                s.id = self.next_id
                self.next_id += 1
                s.data = data
                if len(res) > 2 and res[2] is not None:
                    # the forger may shorten its copy (an undersized Initial from an address nobody validated)
                    s.data = res[2](self.ch, data)
                s.src = self.spoofed_source(d.src)
                s.dst = dst
                s.sent_at = now
                s.fate = "spoof"
                s.phase = "adv"
                s.spoofed = True
                self.fired["spoof"] += 1
                if tag:
                    self.loop.probes[tag] += 1
                self.sig.update(b"sp;")
                loop.log("spoof", transport.index, len(data))
                heapq.heappush(self.heap, (now + base * self.ch.choose(9) / 4.0, next(self.seq), s))

    def spoofed_source(self, src):
        """an address the sender does not own: another host, or the same host with another
        port (sharing the high byte of the port or not), or another host with the same port"""
        host, port = src
        kind = self.ch.choose(4)
        if kind == 0:
            cand = ("203.0.113.%d" % (9 + self.ch.choose(2)), 1000 + self.ch.choose(3))
        elif kind == 1:  # same host, port differs in the low byte only
            low = (port + 1, port - 1, port + 17, port - 17, port ^ 0x0F, port ^ 0xFF, port ^ 0x80)[self.ch.choose(7)]
            cand = (host, (port & 0xFF00) | (low & 0xFF))
        elif kind == 2:  # same host, port differs in the high byte (low byte kept or not)
            cand = (host, (port ^ 0x0100, (port + 256) & 0xFFFF, port ^ 0x8000, (port ^ 0x0300) + 1)[self.ch.choose(4)] & 0xFFFF)
        else:  # other host, same port
            cand = ("203.0.113.%d" % (9 + self.ch.choose(2)), port)
        self.loop.probes["spoof_source:" + ("other-host", "same-host-port-low-byte", "same-host-port-high-byte",
                                             "other-host-same-port")[kind]] += 1
        if cand == src or cand in self.bound or cand[1] == 0:
            # never impersonate an endpoint that exists (its traffic must stay genuine)
            cand = ("203.0.113.%d" % (9 + self.ch.choose(2)), 1000 + self.ch.choose(3))
        return cand

    # -- arrival
    def next_arrival(self):
        return self.heap[0][0] if self.heap else None

    def deliver_due(self, now):
        heap = self.heap
        while heap and heap[0][0] <= now:
            _, _, d = heapq.heappop(heap)
            tr = self.bound.get(d.dst)
            if tr is None or not isinstance(tr, SimDatagramTransport) or not tr._reading:
                # nobody listens (never bound, reading not started, or closed): the datagram is lost
                self.fired["noroute"] += 1
                self.loop.log("noroute", len(d.data))
                continue
            tr._rx.append(d)


# ------------------------------------------------------------------ fake socket module
class FakeSocket:
    """What `aioquic.asyncio.client.connect` does with its socket, and nothing else."""

    def __init__(self, net, family, type_):
        self._net = net
        self.family = family
        self.type = type_
        self.local = None
        self.closed = False

    def setsockopt(self, *args):
        pass

    def setblocking(self, flag):
        pass

    def bind(self, address):
        port = address[1]
        if not isinstance(port, int) or not 0 <= port <= 65535:
            raise OverflowError("bind(): port must be 0-65535.")
        if port == 0:
            port = self._net.alloc_port()
        host = address[0]
        if host in ("::", "0.0.0.0", ""):
            host = self._net.host_ip
        local = (host, port)
        if local in self._net.bound:
            raise OSError(98, "Address already in use")
        self.local = local
        self._net.bound[local] = self

    def getsockname(self):
        return as_seen_by_v6_socket(self.local) if self.local else ("::", 0, 0, 0)

    def fileno(self):
        return -1

    def close(self):
        if not self.closed:
            self.closed = True
            if self.local is not None and self._net.bound.get(self.local) is self:
                del self._net.bound[self.local]


_CURRENT_NET = [None]


class FakeSocketNamespace:
    """stands in for the name `socket` inside aioquic.asyncio.client"""

    AF_INET = AF_INET
    AF_INET6 = AF_INET6
    SOCK_DGRAM = SOCK_DGRAM
    IPPROTO_IPV6 = 41
    IPV6_V6ONLY = 26

    @staticmethod
    def socket(family=AF_INET, type=SOCK_DGRAM, proto=0):  # noqa: A002
        net = _CURRENT_NET[0]
        if net is None:
            raise HarnessError("fake socket used outside a simulated run")
        return FakeSocket(net, family, type)


def install_client_socket_shim():
    """aioquic.asyncio.client creates and binds a real socket: give it the fake namespace."""
    from aioquic.asyncio import client

    if not isinstance(client.socket, FakeSocketNamespace):
        client.socket = FakeSocketNamespace()


# ------------------------------------------------------------------------- transport
class SimDatagramTransport(asyncio.DatagramTransport):
    """Behaves like asyncio.selector_events._SelectorDatagramTransport on an unconnected UDP socket."""

    def __init__(self, loop, net, local, protocol, waiter, sock=None):
        super().__init__({"sockname": as_seen_by_v6_socket(local), "peername": None})
        self._loop = loop
        self._net = net
        self.local = local
        self._protocol = protocol
        self._sock = sock
        self._rx = collections.deque()
        self._reading = False
        self._closing = False
        self._conn_lost = 0
        self._gone = False  # connection_lost delivered, socket closed
        self.index = len(loop._sim_transports)
        loop._sim_transports.append(self)
        net.bound[local] = self
        self.current = None  # datagram being handed to the protocol right now
        loop.call_soon(protocol.connection_made, self)
        loop.call_soon(self._start_reading)
        loop.call_soon(_set_result_unless_cancelled, waiter)

    def _start_reading(self):
        if not self._closing:
            self._reading = True

    def _read_ready(self):
        if self._conn_lost or not self._rx:
            return
        d = self._rx.popleft()
        self._net.delivered += 1
        self.current = d
        if self._net.deliver_tap is not None:
            self._net.deliver_tap(self, d)
        self._loop.log("recv", self.index, len(d.data))
        try:
            self._protocol.datagram_received(d.data, as_seen_by_v6_socket(d.src))
        finally:
            self.current = None

    def sendto(self, data, addr=None):
        if not isinstance(data, (bytes, bytearray, memoryview)):
            raise TypeError("data argument must be a bytes-like object, not %r" % type(data).__name__)
        if not data:
            return
        if self._gone:
            # the real transport has dropped its socket by now (self._sock is None)
            self._loop.probes["sendto_after_connection_lost"] += 1
            raise AttributeError("'NoneType' object has no attribute 'sendto'")
        if addr is None:
            raise ValueError("sendto() on an unconnected datagram transport needs an address")
        self._net.send(self, data, addr)

    def get_write_buffer_size(self):
        return 0

    def is_closing(self):
        return self._closing

    def abort(self):
        self.close()

    def close(self):
        if self._closing:
            return
        self._closing = True
        self._reading = False
        self._rx.clear()
        self._conn_lost += 1
        self._loop.call_soon(self._call_connection_lost, None)

    def _call_connection_lost(self, exc):
        try:
            self._protocol.connection_lost(exc)
        finally:
            self._gone = True
            if self._net.bound.get(self.local) is self:
                del self._net.bound[self.local]
            if self._sock is not None:
                self._sock.closed = True


def _set_result_unless_cancelled(fut):
    if not fut.cancelled():
        fut.set_result(None)


# ------------------------------------------------------------------------------ loop
class SimLoop(asyncio.BaseEventLoop):
    """cfg keys: t_fair, latency, jitter, fate_weights, blackouts, p_timer_late, timer_late_max,
    cb_cost, p_slow, slow_max, read_batch, max_callbacks"""

    def __init__(self, chooser, cfg):
        super().__init__()
        self.set_debug(False)
        self.cfg = cfg
        self._vtime = 0.0
        self._clock_resolution = 1e-9
        self._timers = []  # (due, seq, handle, already_delayed)
        self._tseq = itertools.count()
        self._tcancelled = 0
        self._respin = {}
        self._sim_transports = []
        self._timer_stream = chooser.stream("timer")
        self._sched_stream = chooser.stream("sched")
        self.net = SimNet(self, chooser, cfg)
        self.iterations = 0
        self.callbacks = 0
        self.fired = collections.Counter()
        self.probes = collections.Counter()
        self.after_iteration = None
        self.quiet = False  # shutdown: no faults, no hooks, exceptions ignored
        self.caught = []  # contexts that reached the loop exception handler
        self.pending_violation = None
        self.all_tasks = []
        self._task_n = itertools.count(1)
        self._digest = hashlib.sha256()
        self.keep_trace = False
        self.trace_lines = []
        self.capped = False
        self.set_exception_handler(SimLoop._on_exception)
        self.set_task_factory(SimLoop._make_task)

    # -- deterministic task names + registry (asyncio's Task-<n> counter is process-global)
    def _make_task(self, coro, **kw):
        task = tasks.Task(coro, loop=self, name="sim-%d" % next(self._task_n), **kw)
        self.all_tasks.append(task)
        return task

    # -- log / digest
    def log(self, *fields):
        line = "%d %.9f %s" % (self.callbacks, self._vtime, " ".join(str(f) for f in fields))
        self._digest.update(line.encode())
        self._digest.update(b"\n")
        if self.keep_trace:
            self.trace_lines.append(line)

    def digest(self):
        return self._digest.hexdigest()[:32]

    # -- exception handler: owned by the simulator
    def _on_exception(self, context):
        if self.quiet:
            return
        exc = context.get("exception")
        if isinstance(exc, Violation):
            if self.pending_violation is None:
                self.pending_violation = exc
            return
        self.caught.append(context)

    # -- clock and timers
    def time(self):
        return self._vtime

    def call_at(self, when, callback, *args, context=None):
        if when is None:
            raise TypeError("when cannot be None")
        self._check_closed()
        timer = events.TimerHandle(when, callback, args, self, context)
        lateness = _MIN_LATENESS
        if when <= self._vtime:
            # The caller asks for a deadline that has passed already.  aioquic does that over and
            # over while it owes an ACK it may not send (anti-amplification limit): a real loop
            # busy-spins through it at its own pace; in virtual time 1 us steps would eat the whole
            # callback budget.  Timers may always run late, so back off (at most 20 ms) and count it.
            owner = getattr(callback, "__self__", None)
            try:
                k = self._respin.get(owner, 0) + 1
                self._respin[owner] = k
            except TypeError:
                k = 1
            if k > 8:
                self.probes["timer_respin_backoff"] += 1
                lateness = min(_MIN_LATENESS * 2.0 ** min(k - 8, 20), 0.02)
        elif self._respin:
            owner = getattr(callback, "__self__", None)
            try:
                self._respin.pop(owner, None)
            except TypeError:
                pass
        due = (when if when > self._vtime else self._vtime) + lateness
        heapq.heappush(self._timers, (due, next(self._tseq), timer, False))
        timer._scheduled = True
        return timer

    def _timer_handle_cancelled(self, handle):
        if handle._scheduled:
            self._tcancelled += 1

    def _purge_timers(self):
        timers = self._timers
        if self._tcancelled > 64 and self._tcancelled * 2 > len(timers):
            keep = []
            for item in timers:
                if item[2]._cancelled:
                    item[2]._scheduled = False
                else:
                    keep.append(item)
            heapq.heapify(keep)
            self._timers = timers = keep
            self._tcancelled = 0
        while timers and timers[0][2]._cancelled:
            heapq.heappop(timers)[2]._scheduled = False
            self._tcancelled -= 1
        return timers

    def in_adversarial_phase(self):
        return not self.quiet and self._vtime < self.cfg["t_fair"]

    # -- things BaseEventLoop expects from a concrete loop
    def _process_events(self, event_list):
        pass

    def _write_to_self(self):
        pass

    async def shutdown_default_executor(self, timeout=None):
        pass

    def run_in_executor(self, executor, func, *args):
        raise HarnessError("the simulated loop has no executor (threads are not allowed)")

    async def getaddrinfo(self, host, port, *, family=0, type=0, proto=0, flags=0):  # noqa: A002
        fut = self.create_future()
        self.call_soon(_set_result_unless_cancelled, fut)
        await fut
        fam = AF_INET6 if ":" in host else AF_INET
        addr = (host, port, 0, 0) if fam == AF_INET6 else (host, port)
        return [(fam, type or SOCK_DGRAM, 17, "", addr)]

    async def create_datagram_endpoint(self, protocol_factory, local_addr=None, remote_addr=None, *,
                                       family=0, proto=0, flags=0, reuse_port=None, allow_broadcast=None,
                                       sock=None):
        net = self.net
        if remote_addr is not None:
            raise HarnessError("connected datagram endpoints are not simulated")
        if sock is not None:
            if not isinstance(sock, FakeSocket):
                raise HarnessError("a real socket reached the simulated loop: %r" % (sock,))
            if sock.type != SOCK_DGRAM:
                raise ValueError("A UDP Socket was expected, got %r" % (sock,))
            if local_addr:
                raise ValueError("socket modifier keyword arguments can not be used when sock is specified.")
            if sock.local is None:
                sock.bind(("::", 0, 0, 0))
            local = sock.local
            if net.bound.get(local) is sock:
                del net.bound[local]
        else:
            if not local_addr:
                raise ValueError("unexpected address family")
            host, port = local_addr[0], local_addr[1]
            if host in ("::", "0.0.0.0", ""):
                host = self.cfg.get("server_ip", "10.0.0.2")
            local = (host, port or net.alloc_port())
            if local in net.bound:
                raise OSError(98, "Address already in use")
        protocol = protocol_factory()
        waiter = self.create_future()
        transport = SimDatagramTransport(self, net, local, protocol, waiter, sock)
        try:
            await waiter
        except BaseException:
            transport.close()
            raise
        return transport, protocol

    # -- the scheduler
    def _run_once(self):
        ready = self._ready
        net = self.net
        cfg = self.cfg
        timers = self._purge_timers()
        transports = self._sim_transports
        if not ready and not self._stopping:
            readable = False
            for tr in transports:
                if tr._rx and tr._reading:
                    readable = True
                    break
            if not readable:
                # idle: jump the clock to the next thing that can happen
                t = timers[0][0] if timers else None
                ta = net.next_arrival()
                if ta is not None and (t is None or ta < t):
                    t = ta
                if t is None:
                    raise SimDeadlock("event loop idle for ever at t=%.6f" % self._vtime)
                if t > self._vtime:
                    self._vtime = t
        now = self._vtime
        adversarial = not self.quiet and now < cfg["t_fair"]

        # I/O callbacks of this iteration (BaseEventLoop: _process_events comes before the timers)
        net.deliver_due(now)
        batch = cfg["read_batch"]
        for tr in transports:
            if tr._rx and tr._reading:
                n = len(tr._rx)
                if n > batch:
                    n = batch
                for _ in range(n):
                    ready.append(events.Handle(tr._read_ready, (), self, None))

        # timers that are due; a timer may run (much) later than asked, never earlier
        p_late = cfg["p_timer_late"] if adversarial else 0.0
        while timers and timers[0][0] <= now:
            due, _, handle, delayed = heapq.heappop(timers)
            if handle._cancelled:
                handle._scheduled = False
                self._tcancelled -= 1
                continue
            if p_late > 0.0 and not delayed and self._timer_stream.chance(p_late):
                extra = cfg["timer_late_max"] * (1 + self._timer_stream.choose(16)) / 16.0
                self.fired["timer-late"] += 1
                net.sig.update(b"tl;")
                heapq.heappush(timers, (now + extra, next(self._tseq), handle, True))
                continue
            handle._scheduled = False
            ready.append(handle)

        # run what is ready now; callbacks queued meanwhile wait for the next iteration
        cost = cfg["cb_cost"]
        p_slow = cfg["p_slow"] if adversarial else 0.0
        ntodo = len(ready)
        for _ in range(ntodo):
            handle = ready.popleft()
            if handle._cancelled:
                continue
            self.callbacks += 1
            self.log("cb", callback_kind(handle._callback))
            handle._run()
            dt = cost
            if p_slow > 0.0 and self._sched_stream.chance(p_slow):
                dt += cfg["slow_max"] * (1 + self._sched_stream.choose(8)) / 8.0
                self.fired["slow-callback"] += 1
                net.sig.update(b"sl;")
            self._vtime += dt
        handle = None
        self.iterations += 1
        if not self.quiet:
            if self.after_iteration is not None:
                self.after_iteration()
            if self.pending_violation is not None:
                v, self.pending_violation = self.pending_violation, None
                raise v
            if self.callbacks >= cfg["max_callbacks"]:
                self.capped = True
                raise StepCap()

    # -- orderly end of a run (never part of the verdict)
    def shutdown(self, budget=600.0):
        self.quiet = True
        self.after_iteration = None
        try:
            for _ in range(3):
                pend = [t for t in self.all_tasks if not t.done()]
                if not pend:
                    break
                for t in pend:
                    t.cancel()
                try:
                    self.run_until_complete(asyncio.wait(pend, timeout=budget))
                except Exception:
                    break
            for t in self.all_tasks:
                if not t.done():
                    t._log_destroy_pending = False
                elif not t.cancelled():
                    t.exception()  # mark retrieved
            try:
                self.run_until_complete(self.shutdown_asyncgens())
            except Exception:
                pass
        finally:
            _CURRENT_NET[0] = None
            self.close()


class StepCap(Exception):
    """callback budget of a run used up (the run is inconclusive, never a verdict)"""


def new_loop(chooser, cfg):
    loop = SimLoop(chooser, cfg)
    _CURRENT_NET[0] = loop.net
    return loop
