"""Forger / MITM: builds correctly protected packets under the genuine keys (learnt by the
WireMonitor from the secrets logs) in the name of an endpoint, and re-protects genuine
packets after changing them.  Uses only the independent wire/ stack."""
from wire import crypto as wc
from wire import frames as wf  # noqa: F401
from wire import header as wh

from .transport import Datagram


class Forger:
    def __init__(self, sim, monitor):
        self.sim = sim
        self.mon = monitor
        self.pn_bump = {}  # (name, space) -> next forged pn
        self.sent = 0

    # ------------------------------------------------------------------- keys
    def keys(self, ep, ptype):
        """Keys with which `ep` protects packets of `ptype` (None if not known yet)."""
        st = self.mon.state[ep.name]
        if ptype == "1rtt":
            if st.gen is not None:
                return st.gen
            for ver in (st.version_1rtt, self.version(ep)):
                if ver:
                    ks = self.mon._candidates(ep, "1rtt", ver)
                    if ks:
                        want = self.negotiated_suite()
                        for k in ks:
                            if want is None or k.cipher_suite == want:
                                return k
            return None
        good = getattr(st, "good", None)
        if good and ptype in good:
            return good[ptype]
        ks = self.mon._candidates(ep, ptype, self.version(ep))
        if not ks:
            return None
        if ptype == "initial":
            return ks[-1]
        want = self.negotiated_suite()
        for k in ks:
            if want is None or k.cipher_suite == want:
                return k
        return ks[0]

    def negotiated_suite(self):
        for name in ("client", "server"):
            st = self.mon.state[name]
            for k in (st.gen,):
                if k is not None:
                    return k.cipher_suite
            good = getattr(st, "good", {})
            for pt in ("handshake",):
                if pt in good:
                    return good[pt].cipher_suite
        return None

    def version(self, ep):
        c = ep.conn if ep.conn is not None else ep.peer.conn
        v = getattr(c, "_version", None)
        return v or wh.VERSION_1

    # ---------------------------------------------------------------- numbers
    def next_pn(self, ep, space, jump=1):
        st = self.mon.state[ep.name]
        key = (ep.name, space)
        base = max(st.largest[space] + 1, self.pn_bump.get(key, 0))
        pn = base + jump - 1
        self.pn_bump[key] = pn + 1
        return pn

    # ------------------------------------------------------------------ build
    def build(self, ep, ptype, payload, pn=None, pn_len=2, dcid=None, scid=None, token=b"", key_phase=None,
              keys=None, version=None, pad_to=None, reserved_bits=0):
        """One protected packet as `ep` would send it. payload = concatenated frames."""
        space = {"initial": "initial", "handshake": "handshake", "0rtt": "app", "1rtt": "app"}[ptype]
        if pn is None:
            pn = self.next_pn(ep, space)
        if keys is None:
            keys = self.keys(ep, ptype)
        if keys is None:
            return None
        peer = ep.peer
        if dcid is None:
            dcid = self.current_dcid(ep)
        if scid is None:
            scid = ep.conn.host_cid if ep.conn is not None else b""
        if len(payload) + pn_len < 4:
            payload = payload + b"\x00" * (4 - pn_len - len(payload))
        if pad_to:
            # pad_to = total packet size wanted
            pass
        if ptype == "1rtt":
            if key_phase is None:
                st = self.mon.state[ep.name]
                key_phase = st.gen_phase if st.gen is not None else 0
            header = wh.build_short_header(dcid, pn, pn_len, key_phase)
            if reserved_bits:
                header = bytes([header[0] | ((reserved_bits & 3) << 3)]) + header[1:]
        else:
            if version is None:
                version = keys.version
            header = wh.build_long_header(ptype, version, dcid, scid, token, pn, pn_len, len(payload) + 16)
            if pad_to:
                need = pad_to - (len(header) + len(payload) + 16)
                if need > 0:
                    payload = payload + b"\x00" * need
                    header = wh.build_long_header(ptype, version, dcid, scid, token, pn, pn_len, len(payload) + 16)
            if reserved_bits:
                header = bytes([header[0] | ((reserved_bits & 3) << 2)]) + header[1:]
        self.sent += 1
        return wc.protect(keys, header, pn, pn_len, payload)

    def current_dcid(self, ep):
        """DCID that `ep` currently puts on its packets (from the last packet seen)."""
        last = getattr(self.mon, "last_dcid", {}).get(ep.name)
        if last is not None:
            return last
        return ep.conn._peer_cid.cid

    # ---------------------------------------------------------------- deliver
    def inject(self, target, data, src=None, tag="forged"):
        """Hand a datagram to `target` right now, as if it arrived from `src`
        (default: the peer's current address)."""
        d = Datagram()
        d.id = self.sim.net.next_id
        self.sim.net.next_id += 1
        d.sender = tag
        d.data = data
        d.src = src if src is not None else target.peer.addr
        d.dst = target.addr
        d.sent_at = self.sim.k.now
        d.fate = tag
        d.copies = 1
        d.phase = "adv"
        d.meta = None
        self.sim.k.trace("inject", target.name, d.id, len(data), tag)
        return d
