#!/venv/bin/python
"""Entry point for every check.  Usage:
    cli.py <Cxx> quick|thorough
    cli.py --replay <file>
    cli.py selftest determinism|sensitivity [args]
Exit status: 0 held / 1 VIOLATION / 2 HARNESS-ERROR / 3 replay did not reproduce.
"""
import importlib
import os
import sys

HERE = os.path.dirname(os.path.abspath(__file__))
if os.environ.get("PYTHONHASHSEED") is None:
    os.environ["PYTHONHASHSEED"] = "0"
    os.execv(sys.executable, [sys.executable] + sys.argv)
sys.path.insert(0, HERE)

CHECKS = {
    "C01": "checks.c01",
    "C02": "checks.c02",
    "C03": "checks.c03",
    "C04": "checks.c04",
    "C05": "checks.c05",
    "C11": "checks.c11",
    "C07": "checks.c07",
    "C09": "checks.c09",
    "C20": "checks.c20",
    "C14": "checks.c14",
    "C16": "checks.c16",
    "C18": "checks.c18",
    "C19": "checks.c19",
    "C06": "checks.c06",
    "C08": "checks.c08",
    "C10": "checks.c10",
    "C12": "checks.c12",
    "C13": "checks.c13",
}


def ensure_asan(clean=True):
    """C04 runs against a sanitizer build: re-execute the interpreter with the ASan runtime and the
    libcrypto shim preloaded (PYTHONMALLOC=malloc so that bytes objects get red zones)."""
    if os.environ.get("VERIF_CFLAVOUR") == "asan":
        return None
    from sim import bootstrap

    # one log directory per invocation (concurrent checks must not touch each other's logs);
    # directories older than six hours are removed
    import shutil
    import time

    root = os.path.join(HERE, ".cache", "asan")
    os.makedirs(root, exist_ok=True)
    for d in os.listdir(root):
        path = os.path.join(root, d)
        try:
            if time.time() - os.path.getmtime(path) > 6 * 3600:
                shutil.rmtree(path, ignore_errors=True)
        except OSError:
            pass
    logdir = os.path.join(root, "run-%d" % os.getpid())
    os.makedirs(logdir, exist_ok=True)
    try:
        env = bootstrap.asan_env(os.path.join(logdir, "log"))
        for name in ("_crypto", "_buffer"):  # compile before the runtime is preloaded into everything
            bootstrap.build_ext(name, "asan")
    except Exception as e:
        print("HARNESS-ERROR cannot set up the sanitizer environment: %r" % (e,))
        return 2
    os.execve(sys.executable, [sys.executable, os.path.join(HERE, "cli.py")] + sys.argv[1:], env)


def reap_symbolizers():
    """The sanitizer runtime starts an llvm-symbolizer child per reporting process; when that process is killed
    the symbolizer can survive, holding our stdout/stderr open, and whoever captures the output of this command
    waits forever. Kill the ones that carry this invocation's log prefix in their environment."""
    marker = os.environ.get("VERIF_ASAN_LOG")
    if not marker:
        return
    import signal

    for pid in os.listdir("/proc"):
        if not pid.isdigit() or int(pid) == os.getpid():
            continue
        try:
            with open("/proc/%s/comm" % pid) as f:
                if not f.read().startswith("llvm-symbolizer"):
                    continue
            with open("/proc/%s/environ" % pid, "rb") as f:
                if ("VERIF_ASAN_LOG=" + marker).encode() not in f.read():
                    continue
            os.kill(int(pid), signal.SIGKILL)
        except (OSError, ValueError):
            pass


def main(argv):
    try:
        return _main(argv)
    finally:
        reap_symbolizers()


def _main(argv):
    if len(argv) >= 2 and argv[0] == "--replay":
        try:
            import json

            with open(argv[1]) as f:
                if json.load(f).get("module", "").endswith("c04"):
                    rc = ensure_asan(clean=False)
                    if rc is not None:
                        return rc
        except (OSError, ValueError):
            pass
        from sim import runner

        return runner.replay_file(argv[1])
    if argv and argv[0] == "selftest":
        from sim import selftest

        return selftest.main(argv[1:])
    if len(argv) >= 2 and argv[0] == "--module":  # development: run a check module that is not registered yet
        CHECKS[argv[1]] = argv[1]
        argv = argv[1:]
    if len(argv) < 1 or argv[0] not in CHECKS:
        print(__doc__)
        return 2
    prop = argv[0]
    if CHECKS[prop].endswith("c04"):
        rc = ensure_asan()
        if rc is not None:
            return rc
    tier = argv[1] if len(argv) > 1 else os.environ.get("VERIF_TIER", "quick")
    seed = int(os.environ.get("VERIF_SEED", "1"))
    from sim import runner

    try:
        mod = importlib.import_module(CHECKS[prop])
        return runner.run_check(mod, tier, seed)
    except Exception:
        import traceback

        print("HARNESS-ERROR %s" % traceback.format_exc())
        return 2


if __name__ == "__main__":
    sys.exit(main(sys.argv[1:]))
