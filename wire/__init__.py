"""Independent reference implementation of the QUIC wire format and packet
protection (RFC 9000, RFC 9001, RFC 9221, RFC 9369).

Written from the RFCs; deliberately imports nothing from aioquic (only
``wire.selftest`` cross-checks against it).
"""

from .varint import ParseError  # noqa: F401
from .crypto import AuthError  # noqa: F401
from .header import VERSION_1, VERSION_2  # noqa: F401
