"""Self-test for the ``wire`` package.

Run with ``cd /verif && /venv/bin/python -m wire.selftest [--no-aioquic] [-n N]``.

  A. RFC 9001 appendix A / RFC 9369 appendix A test vectors.
  B. Internal round-trip and robustness properties (seeded random inputs).
  C. Cross-check against aioquic (the ONLY place in this package that imports
     it, from ``$VERIF_REPO/src``, default ``/repo/src``).  A mismatch there is
     reported as a DISAGREEMENT, not as a failure of this package: the code
     here follows the RFCs.

Exit status: 0 if parts A and B pass (disagreements do not change it), 1
otherwise.
"""

import hashlib
import io
import os
import random
import sys

from . import crypto, frames, header, tparams, varint
from .crypto import AuthError, Keys
from .frames import Frame
from .header import VERSION_1, VERSION_2
from .varint import ParseError

H = bytes.fromhex
SUITES = (
    crypto.AES_128_GCM_SHA256,
    crypto.AES_256_GCM_SHA384,
    crypto.CHACHA20_POLY1305_SHA256,
)
VERSIONS = (VERSION_1, VERSION_2)


class Results:
    def __init__(self):
        self.checks = 0
        self.failures = []
        self.disagreements = {}  # text -> count
        self.notes = []

    def check(self, name, cond, detail=""):
        self.checks += 1
        if not cond:
            self.failures.append("%s %s" % (name, detail))
        return cond

    def eq(self, name, got, want):
        def show(v):
            return v.hex() if isinstance(v, (bytes, bytearray)) else repr(v)

        return self.check(name, got == want, "got %s want %s" % (show(got), show(want)))

    def disagree(self, text):
        self.disagreements[text] = self.disagreements.get(text, 0) + 1

    def note(self, text):
        self.notes.append(text)


# =========================================================== A. RFC vectors


def rfc_vectors(res: Results):
    dcid = H("8394c8f03e515708")

    # RFC 9001 A.1
    ck, sk = crypto.initial_keys(dcid, VERSION_1)
    res.eq("v1 client initial secret", ck.secret,
           H("c00cf151ca5be075ed0ebfb5c80323c42d6b7db67881289af4008f1f6c357aea"))
    res.eq("v1 client key", ck.key, H("1f369613dd76d5467730efcbe3b1a22d"))
    res.eq("v1 client iv", ck.iv, H("fa044b2f42a3fd3b46fb255c"))
    res.eq("v1 client hp", ck.hp, H("9f50449e04a0e810283a1e9933adedd2"))
    res.eq("v1 server initial secret", sk.secret,
           H("3c199828fd139efd216c155ad844cc81fb82fa8d7446fa7d78be803acdda951b"))
    res.eq("v1 server key", sk.key, H("cf3a5331653c364c88f0f379b6067e37"))
    res.eq("v1 server iv", sk.iv, H("0ac1493ca1905853b0bba03e"))
    res.eq("v1 server hp", sk.hp, H("c206b8d9b9f0f37644430b490eeaa314"))

    # RFC 9369 A.1
    ck2, sk2 = crypto.initial_keys(dcid, VERSION_2)
    res.eq("v2 client initial secret", ck2.secret,
           H("14ec9d6eb9fd7af83bf5a668bc17a7e283766aade7ecd0891f70f9ff7f4bf47b"))
    res.eq("v2 client key", ck2.key, H("8b1a0bc121284290a29e0971b5cd045d"))
    res.eq("v2 client iv", ck2.iv, H("91f73e2351d8fa91660e909f"))
    res.eq("v2 client hp", ck2.hp, H("45b95e15235d6f45a6b19cbcb0294ba9"))
    res.eq("v2 server initial secret", sk2.secret,
           H("0263db1782731bf4588e7e4d93b7463907cb8cd8200b5da55a8bd488eafc37c1"))
    res.eq("v2 server key", sk2.key, H("82db637861d55e1d011f19ea71d5d2a7"))
    res.eq("v2 server iv", sk2.iv, H("dd13c276499c0249d3310652"))
    res.eq("v2 server hp", sk2.hp, H("edf6d05c83121201b436e16877593c3a"))

    # RFC 9001 A.5 / RFC 9369 A.5: ChaCha20-Poly1305 short header packet
    secret = H("9ac312a7f877468ebe69422748ad00a15443f18203a07d6060f688f30f21632b")
    vectors = {
        VERSION_1: (
            "c6d98ff3441c3fe1b2182094f69caa2ed4b716b65488960a7a984979fb23e1c8",
            "e0459b3474bdd0e44a41c144",
            "25a282b9e82f06f21f488917a4fc8f1b73573685608597d0efcb076b0ab7a7a4",
            "1223504755036d556342ee9361d253421a826c9ecdf3c7148684b36b714881f9",
            "4cfe4189655e5cd55c41f69080575d7999c25a5bfb",
        ),
        VERSION_2: (
            "3bfcddd72bcf02541d7fa0dd1f5f9eeea817e09a6963a0e6c7df0f9a1bab90f2",
            "a6b5bc6ab7dafce30ffff5dd",
            "d659760d2ba434a226fd37b35c69e2da8211d10c4f12538787d65645d5d1b8e2",
            "c69374c49e3d2a9466fa689e49d476db5d0dfbc87d32ceeaa6343fd0ae4c7d88",
            "5558b1c60ae7b6b932bc27d786f4bc2bb20f2162ba",
        ),
    }
    pn = 654360564
    for version, (key, iv, hp, ku, packet) in vectors.items():
        tag = "chacha v%s " % ("1" if version == VERSION_1 else "2")
        k = Keys(secret, crypto.CHACHA20_POLY1305_SHA256, version)
        res.eq(tag + "key", k.key, H(key))
        res.eq(tag + "iv", k.iv, H(iv))
        res.eq(tag + "hp", k.hp, H(hp))
        nxt = k.next_generation()
        res.eq(tag + "ku secret", nxt.secret, H(ku))
        res.eq(tag + "ku keeps hp", nxt.hp, k.hp)
        res.check(tag + "ku changes key", nxt.key != k.key and nxt.iv != k.iv)
        hdr = header.build_short_header(b"", pn, 3, key_phase=0)
        res.eq(tag + "unprotected header", hdr, H("4200bff4"))
        res.eq(tag + "packet", crypto.protect(k, hdr, pn, 3, b"\x01"), H(packet))
        got = crypto.unprotect(k, H(packet), 1, pn - 1)
        res.eq(tag + "unprotect", got, (H("4200bff4"), pn, 3, b"\x01"))
        res.eq(tag + "key phase", crypto.peek_short_key_phase(k, H(packet), 1), 0)

    # RFC 9001 A.4 / RFC 9369 A.4: Retry
    scid = H("f067a5502a4262b5")
    retry1 = H("ff000000010008f067a5502a4262b5746f6b656e04a265ba2eff4d829058fb3f0f2496ba")
    retry2 = H("cf6b3343cf0008f067a5502a4262b5746f6b656ec8646ce8bfe33952d955543665dcc7b6")
    for version, want in ((VERSION_1, retry1), (VERSION_2, retry2)):
        tag = "retry v%s " % ("1" if version == VERSION_1 else "2")
        res.eq(tag + "build", header.build_retry(version, b"", scid, b"token", dcid, unused=0xF), want)
        res.eq(tag + "tag", crypto.retry_integrity_tag(want[:-16], dcid, version), want[-16:])
        pkts, trailing = header.parse_datagram(want, 8)
        ok = res.check(tag + "parse", len(pkts) == 1 and trailing == b"")
        if ok:
            p = pkts[0]
            res.eq(tag + "fields",
                   (p.ptype, p.version, p.dcid, p.scid, p.token, p.integrity_tag, p.pn_offset),
                   ("retry", version, b"", scid, b"token", want[-16:], None))
    # the v1 Retry key/nonce are themselves derived from a published secret
    rs = H("d9c9943e6101fd200021506bcc02814c73030f25c79d71ce876eca876e6fca8e")
    res.eq("retry v1 key derivation",
           crypto.hkdf_expand_label("sha256", rs, b"quic key", b"", 16), crypto._RETRY[VERSION_1][0])
    res.eq("retry v1 nonce derivation",
           crypto.hkdf_expand_label("sha256", rs, b"quic iv", b"", 12), crypto._RETRY[VERSION_1][1])

    # RFC 9000 A.2 / A.3 and section 17.1 examples
    res.eq("encode_pn 0xac5c02", crypto.encode_pn(0xAC5C02, 0xABE8B3), (0x5C02, 2))
    res.eq("encode_pn 0xace8fe", crypto.encode_pn(0xACE8FE, 0xABE8B3), (0xACE8FE, 3))
    res.eq("encode_pn first", crypto.encode_pn(0, None), (0, 1))
    res.eq("decode_pn example", crypto.decode_pn(0xA82F30EA, 0x9B32, 16), 0xA82F9B32)
    res.eq("decode_pn first", crypto.decode_pn(-1, 0, 8), 0)

    # RFC 9000 A.1 varint examples
    for hexstr, value in (("c2197c5eff14e88c", 151288809941952652), ("9d7f3e7d", 494878333),
                          ("7bbd", 15293), ("25", 37), ("4025", 37)):
        res.eq("varint dec " + hexstr, varint.dec(H(hexstr), 0), (value, len(hexstr) // 2))
    res.eq("varint enc", varint.enc(151288809941952652), H("c2197c5eff14e88c"))
    res.eq("varint enc_sized", varint.enc_sized(37, 2), H("4025"))

    # RFC 5869 A.1 (HKDF-SHA256)
    prk = crypto.hkdf_extract("sha256", H("000102030405060708090a0b0c"), b"\x0b" * 22)
    res.eq("hkdf extract", prk,
           H("077709362c2e32df0ddc3f0dc47bba6390b6c73bb50f9c3122ec844ad7c2b3e5"))
    res.eq("hkdf expand", crypto.hkdf_expand("sha256", prk, H("f0f1f2f3f4f5f6f7f8f9"), 42),
           H("3cb25f25faacd57a90434f64d0362f2a2d2d0a90cf1a5a4c5db02d56ecc4c5bf34007208d5b887185865"))


# ============================================================ random inputs


def rand_varint(rng, maximum=varint.MAX):
    bits = rng.choice((0, 3, 6, 7, 14, 15, 30, 31, 62))
    return min(rng.getrandbits(bits) if bits else 0, maximum)


def rand_ranges(rng):
    """Disjoint, non-adjacent inclusive ranges, descending."""
    hi = rand_varint(rng, (1 << 40))
    out = []
    for _ in range(rng.randint(1, 6)):
        lo = hi - min(hi, rng.choice((0, 0, 1, 5, 300)))
        out.append((lo, hi))
        hi = lo - 2 - rng.choice((0, 0, 1, 70, 20000))
        if hi < 0:
            break
    return out


def rand_frame(rng, last: bool) -> Frame:
    """A random valid frame; frames that extend to the end of the packet are
    only produced when ``last``."""
    f = frames
    kind = rng.choice((
        f.PING, f.ACK, f.ACK_ECN, f.RESET_STREAM, f.STOP_SENDING, f.CRYPTO, f.NEW_TOKEN,
        f.STREAM_BASE, f.STREAM_BASE, f.MAX_DATA, f.MAX_STREAM_DATA, f.MAX_STREAMS_BIDI,
        f.MAX_STREAMS_UNI, f.DATA_BLOCKED, f.STREAM_DATA_BLOCKED, f.STREAMS_BLOCKED_BIDI,
        f.STREAMS_BLOCKED_UNI, f.NEW_CONNECTION_ID, f.RETIRE_CONNECTION_ID, f.PATH_CHALLENGE,
        f.PATH_RESPONSE, f.CONNECTION_CLOSE, f.CONNECTION_CLOSE_APP, f.HANDSHAKE_DONE,
        f.DATAGRAM, f.DATAGRAM_LEN,
    ))  # fmt: skip
    v = lambda m=varint.MAX: rand_varint(rng, m)  # noqa: E731
    blob = lambda lo=0, hi=40: rng.randbytes(rng.randint(lo, hi))  # noqa: E731
    if kind in (f.PING, f.HANDSHAKE_DONE):
        return Frame(kind)
    if kind in (f.ACK, f.ACK_ECN):
        ranges = rand_ranges(rng)
        ecn = (v(), v(), v()) if kind == f.ACK_ECN else None
        return Frame(kind, {"largest": ranges[0][1], "delay": v(), "ranges": ranges, "ecn": ecn})
    if kind == f.RESET_STREAM:
        return Frame(kind, {"stream_id": v(), "error_code": v(), "final_size": v()})
    if kind == f.STOP_SENDING:
        return Frame(kind, {"stream_id": v(), "error_code": v()})
    if kind == f.CRYPTO:
        data = blob()
        return Frame(kind, {"offset": v(varint.MAX - len(data)), "data": data})
    if kind == f.NEW_TOKEN:
        return Frame(kind, {"token": blob(1)})
    if kind == f.STREAM_BASE:
        data = blob()
        has_len = True if not last else rng.random() < 0.5
        has_off = rng.random() < 0.5
        fin = rng.random() < 0.5
        t = 0x08 | (4 if has_off else 0) | (2 if has_len else 0) | (1 if fin else 0)
        return Frame(t, {"stream_id": v(), "offset": v(varint.MAX - len(data)) if has_off else 0,
                         "data": data, "fin": fin, "has_len": has_len, "has_off": has_off})
    if kind in (f.MAX_DATA, f.DATA_BLOCKED):
        return Frame(kind, {"limit": v()})
    if kind in (f.MAX_STREAM_DATA, f.STREAM_DATA_BLOCKED):
        return Frame(kind, {"stream_id": v(), "limit": v()})
    if kind in (f.MAX_STREAMS_BIDI, f.MAX_STREAMS_UNI, f.STREAMS_BLOCKED_BIDI, f.STREAMS_BLOCKED_UNI):
        return Frame(kind, {"limit": v(1 << 60), "uni": bool(kind & 1)})
    if kind == f.NEW_CONNECTION_ID:
        seq = v()
        return Frame(kind, {"seq": seq, "retire_prior_to": v(seq), "cid": blob(1, 20),
                            "token": rng.randbytes(16)})
    if kind == f.RETIRE_CONNECTION_ID:
        return Frame(kind, {"seq": v()})
    if kind in (f.PATH_CHALLENGE, f.PATH_RESPONSE):
        return Frame(kind, {"data": rng.randbytes(8)})
    if kind == f.CONNECTION_CLOSE:
        return Frame(kind, {"error_code": v(), "frame_type": v(), "reason": blob()})
    if kind == f.CONNECTION_CLOSE_APP:
        return Frame(kind, {"error_code": v(), "reason": blob()})
    if kind == f.DATAGRAM and not last:
        kind = f.DATAGRAM_LEN
    return Frame(kind, {"data": blob(), "has_len": kind == f.DATAGRAM_LEN})


def rand_payload_frames(rng):
    """A list of frames whose canonical encoding parses back to itself."""
    out = []
    n = rng.randint(1, 8)
    for i in range(n):
        if rng.random() < 0.25 and not (out and out[-1].type == frames.PADDING):
            out.append(Frame(frames.PADDING, {"length": rng.choice((1, 2, 3, 17, 900))}))
        out.append(rand_frame(rng, last=(i == n - 1)))
    if out[-1].type not in (frames.DATAGRAM,) and not (
        0x08 <= out[-1].type <= 0x0F and not out[-1].type & 2
    ):
        if rng.random() < 0.4 and out[-1].type != frames.PADDING:
            out.append(Frame(frames.PADDING, {"length": rng.randint(1, 60)}))
    return out


def rand_cid(rng, lo=0, hi=20):
    return rng.randbytes(rng.randint(lo, hi))


def rand_pn(rng):
    """(full pn, largest processed so far by the receiver, pn_len)."""
    pn = rng.getrandbits(rng.choice((0, 4, 8, 16, 24, 31, 40, 61)))
    largest_acked = pn - 1 - rng.getrandbits(rng.choice((0, 3, 7, 12, 15, 20, 23, 30)))
    if largest_acked < 0:
        largest_acked = -1
    _, nbytes = crypto.encode_pn(pn, largest_acked)
    pn_len = rng.randint(nbytes, 4)
    # the receiver has processed at least what it acknowledged, at most pn - 1
    largest = rng.randint(largest_acked, pn - 1) if pn - 1 > largest_acked else largest_acked
    return pn, largest, pn_len


def rand_secret(rng, suite):
    return rng.randbytes(48 if suite == crypto.AES_256_GCM_SHA384 else 32)


def rand_header(rng, version, pn, pn_len, payload_len, short_dcid_len=8, ptype=None):
    """(ptype, unprotected header, pn_offset, fields)"""
    ptype = ptype or rng.choice(("initial", "0rtt", "handshake", "1rtt"))
    if ptype == "1rtt":
        dcid = rng.randbytes(short_dcid_len)
        kp = rng.getrandbits(1)
        hdr = header.build_short_header(dcid, pn, pn_len, key_phase=kp, spin=rng.getrandbits(1))
        return ptype, hdr, len(hdr) - pn_len, {"dcid": dcid, "scid": b"", "token": b"", "kp": kp}
    dcid, scid = rand_cid(rng), rand_cid(rng)
    token = rng.randbytes(rng.choice((0, 0, 5, 70))) if ptype == "initial" else b""
    size = rng.choice((2, 2, 4, 8)) if pn_len + payload_len + 16 >= 64 else rng.choice((1, 2, 4, 8))
    hdr = header.build_long_header(ptype, version, dcid, scid, token, pn, pn_len,
                                   payload_len + 16, length_size=size)
    return ptype, hdr, len(hdr) - pn_len, {"dcid": dcid, "scid": scid, "token": token}


# =================================================== B. internal properties


def internal_properties(res: Results, rng, n):
    # ---- varint
    for _ in range(n):
        v = rand_varint(rng)
        e = varint.enc(v)
        res.check("varint roundtrip", varint.dec(e, 0) == (v, len(e)) and len(e) == varint.size(v))
        for size in (1, 2, 4, 8):
            if size >= len(e):
                es = varint.enc_sized(v, size)
                res.check("varint sized", len(es) == size and varint.dec(b"\xff" + es, 1) == (v, 1 + size))
        for cut in range(len(e)):
            try:
                varint.dec(e[:cut], 0)
                res.check("varint truncation", False, e[:cut].hex())
            except ParseError:
                pass
    for bad in (-1, 1 << 62):
        try:
            varint.enc(bad)
            res.check("varint range", False, str(bad))
        except ValueError:
            pass

    # ---- packet numbers: every legal encoding decodes to itself
    for _ in range(n):
        pn, largest, pn_len = rand_pn(rng)
        got = crypto.decode_pn(largest, pn & ((1 << (8 * pn_len)) - 1), 8 * pn_len)
        res.check("pn roundtrip", got == pn, "pn=%d largest=%d len=%d got=%d" % (pn, largest, pn_len, got))

    # ---- frames
    for _ in range(n):
        want = rand_payload_frames(rng)
        payload = frames.encode_frames(want)
        try:
            got = frames.parse_frames(payload)
        except ParseError as exc:
            res.check("frames roundtrip", False, "%s on %r" % (exc, want))
            continue
        res.check("frames roundtrip", got == want, "got %r want %r" % (got, want))
        res.check("frames re-encode", frames.encode_frames(got) == payload)
        for fr in got:
            quiet = fr.name in ("PADDING", "ACK", "ACK_ECN", "CONNECTION_CLOSE", "CONNECTION_CLOSE_APP")
            res.check("ack eliciting", frames.ACK_ELICITING(fr) == (not quiet), fr.name)
    # truncations / garbage only ever raise ParseError
    for _ in range(n):
        payload = frames.encode_frames(rand_payload_frames(rng))
        cut = payload[: rng.randint(0, len(payload))]
        garbage = rng.randbytes(rng.randint(0, 40))
        for blob in (cut, garbage, cut + garbage):
            try:
                frames.parse_frames(blob)
            except ParseError:
                pass
            except Exception as exc:  # noqa: BLE001
                res.check("frames robustness", False, "%r on %s" % (exc, blob.hex()))
    res.eq("padding collapse", frames.parse_frames(bytes(1000) + b"\x01" + bytes(3)),
           [Frame(0, {"length": 1000}), Frame(1), Frame(0, {"length": 3})])
    must_fail = {
        "empty payload": b"",
        "unknown type": b"\x1f",
        "non-minimal type": b"\x40\x01",
        "NEW_TOKEN empty": b"\x07\x00",
        "NCID len 0": b"\x18\x01\x00\x00" + bytes(16),
        "NCID len 21": b"\x18\x01\x00\x15" + bytes(37),
        "NCID retire>seq": b"\x18\x01\x02\x01" + bytes(17),
        "MAX_STREAMS > 2^60": b"\x12" + varint.enc((1 << 60) + 1),
        "ACK underflow": b"\x02\x05\x00\x00\x06",
        "ACK range underflow": b"\x02\x05\x00\x01\x00\x02\x02",
        "STREAM past 2^62": b"\x0e" + b"\x00" + varint.enc(varint.MAX) + b"\x01a",
        "CRYPTO truncated": b"\x06\x00\x05abc",
    }
    for name, blob in must_fail.items():
        try:
            frames.parse_frames(blob)
            res.check("frames reject " + name, False)
        except ParseError:
            res.check("frames reject " + name, True)
    res.eq("non-strict type", frames.parse_frames(b"\x40\x01", strict=False), [Frame(1)])
    res.eq("encode_stream default", frames.encode_stream(4, 0, b"hi", True), b"\x0b\x04\x02hi")
    res.eq("encode_stream odd", frames.encode_stream(4, 0, b"hi", False, with_len=False, with_off=True),
           b"\x0c\x04\x00hi")
    res.eq("encode_ack order", frames.encode_ack([(0, 1), (7, 9), (4, 4)], 3),
           b"\x02\x09\x03\x02\x02\x01\x00\x01\x01")
    res.check("allowed_in", frames.allowed_in(frames.CRYPTO, "initial")
              and not frames.allowed_in(frames.STREAM_BASE, "handshake")
              and not frames.allowed_in(frames.ACK, "0rtt") and frames.allowed_in(0x0F, "0rtt")
              and frames.allowed_in(frames.HANDSHAKE_DONE, "1rtt"))

    # ---- transport parameters
    for _ in range(n // 4 + 1):
        named = rand_tparams(rng)
        blob = tparams.encode(named)
        res.check("tparams roundtrip", tparams.decode_named(blob) == named,
                  "%r vs %r" % (tparams.decode_named(blob), named))
        res.check("tparams by id", tparams.decode(blob) == {tparams.IDS[k]: v for k, v in named.items()})
        grease = varint.enc(27 + 31 * rng.randint(0, 1000)) + b"\x03abc"
        res.check("tparams grease", tparams.decode_named(grease + blob) == named)
        for bad in (blob[: rng.randint(0, len(blob))] + rng.randbytes(3), blob + blob):
            try:
                tparams.decode(bad)
            except ParseError:
                pass
            except Exception as exc:  # noqa: BLE001
                res.check("tparams robustness", False, "%r on %s" % (exc, bad.hex()))
    res.eq("tparams unknown id", tparams.decode_named(b"\x40\x40\x02hi"), {"0x40": b"hi"})
    for name, bad in (("dup", b"\x01\x01\x05\x01\x01\x05"), ("int size", b"\x01\x02\x05\x05"),
                      ("flag", b"\x0c\x01\x00"), ("vinfo", b"\x11\x03\x00\x00\x01")):
        try:
            tparams.decode(bad)
            res.check("tparams reject " + name, False)
        except ParseError:
            res.check("tparams reject " + name, True)

    # ---- protect / unprotect, parse_datagram on coalesced packets
    for _ in range(n // 4 + 1):
        version = rng.choice(VERSIONS)
        suite = rng.choice(SUITES)
        keys = Keys(rand_secret(rng, suite), suite, version)
        cid_len = rng.randint(0, 20)
        datagram = b""
        expected = []
        count = rng.randint(1, 4)
        for i in range(count):
            pn, largest, pn_len = rand_pn(rng)
            payload = rng.randbytes(rng.randint(max(0, 4 - pn_len), 300))
            ptype = rng.choice(("initial", "0rtt", "handshake")) if i < count - 1 else None
            ptype, hdr, pn_offset, fields = rand_header(rng, version, pn, pn_len, len(payload), cid_len, ptype)
            packet = crypto.protect(keys, hdr, pn, pn_len, payload)
            res.check("protect length", len(packet) == len(hdr) + len(payload) + 16)
            expected.append((ptype, len(datagram), hdr, pn_offset, fields, pn, largest, pn_len, payload, packet))
            datagram += packet
            if ptype == "1rtt":
                break
        padding = bytes(rng.choice((0, 0, 13))) if expected[-1][0] != "1rtt" else b""
        pkts, trailing = header.parse_datagram(datagram + padding, cid_len)
        if not res.check("datagram split", len(pkts) == len(expected) and trailing == padding,
                         "%r trailing=%d" % (pkts, len(trailing))):
            continue
        for p, (ptype, start, hdr, pn_offset, fields, pn, largest, pn_len, payload, packet) in zip(pkts, expected):
            res.check("view fields", (p.ptype, p.start, p.end, p.pn_offset, p.dcid, p.scid, p.token, p.raw)
                      == (ptype, start, start + len(packet), pn_offset, fields["dcid"], fields["scid"],
                          fields["token"], packet), repr(p))
            res.check("view misc", p.form == ("short" if ptype == "1rtt" else "long")
                      and p.version == (None if ptype == "1rtt" else version) and p.first_byte == packet[0])
            try:
                got = crypto.unprotect(keys, p.raw, p.pn_offset, largest)
            except AuthError as exc:
                res.check("unprotect", False, str(exc))
                continue
            res.check("unprotect", got == (hdr, pn, pn_len, payload))
            if ptype == "1rtt":
                res.eq("peek key phase", crypto.peek_short_key_phase(keys, p.raw, p.pn_offset), fields["kp"])
            # any single bit flip must fail authentication (or change the pn_len and fail)
            idx = rng.randrange(len(packet))
            bad = bytearray(packet)
            bad[idx] ^= 1 << rng.randrange(8)
            try:
                crypto.unprotect(keys, bytes(bad), pn_offset, largest)
                res.check("tamper detected", False, "byte %d" % idx)
            except AuthError:
                pass
            # truncation never raises anything but AuthError
            try:
                crypto.unprotect(keys, packet[: rng.randint(0, len(packet) - 1)], pn_offset, largest)
                res.check("truncation detected", False)
            except AuthError:
                pass
    try:
        crypto.protect(Keys(bytes(32), SUITES[0], VERSION_1), b"\x40\x00", 0, 1, b"ab")
        res.check("protect short plaintext", False)
    except ValueError:
        pass

    # ---- parse_datagram never raises
    for _ in range(n):
        blob = bytearray(rng.randbytes(rng.randint(0, 60)))
        if blob and rng.random() < 0.7:
            blob[0] |= 0xC0
            if len(blob) > 5:
                blob[1:5] = rng.choice((VERSION_1, VERSION_2, 0)).to_bytes(4, "big")
            if len(blob) > 6 and rng.random() < 0.7:
                blob[5] = rng.randint(0, 8)
        try:
            pkts, trailing = header.parse_datagram(bytes(blob), rng.randint(0, 20))
            res.check("parse_datagram accounting",
                      sum(len(p.raw) for p in pkts) + len(trailing) == len(blob))
        except Exception as exc:  # noqa: BLE001
            res.check("parse_datagram robustness", False, "%r on %s" % (exc, blob.hex()))
    vn = header.build_version_negotiation(b"\x01" * 30, b"\x02" * 25, [VERSION_1, VERSION_2, 0x0A0A0A0A])
    pkts, trailing = header.parse_datagram(vn, 8)
    res.check("vn parse", len(pkts) == 1 and not trailing and pkts[0].ptype == "vn"
              and pkts[0].supported_versions == [VERSION_1, VERSION_2, 0x0A0A0A0A]
              and pkts[0].dcid == b"\x01" * 30 and pkts[0].scid == b"\x02" * 25
              and pkts[0].first_byte == 0xAA and pkts[0].pn_offset is None)
    res.eq("zero padding is trailing", header.parse_datagram(bytes(20), 8), ([], bytes(20)))


def rand_tparams(rng):
    named = {}
    for pid, (name, kind) in tparams.PARAMS.items():
        if rng.random() < 0.4:
            continue
        if kind == "int":
            named[name] = rand_varint(rng)
        elif kind == "flag":
            named[name] = True
        elif kind == "version_information":
            named[name] = (rng.choice(VERSIONS), [rng.getrandbits(32) | 1 for _ in range(rng.randint(0, 3))])
        elif name == "stateless_reset_token":
            named[name] = rng.randbytes(16)
        elif name == "preferred_address":
            cid = rng.randbytes(rng.randint(1, 20))
            named[name] = rng.randbytes(24) + bytes([len(cid)]) + cid + rng.randbytes(16)
        else:
            named[name] = rand_cid(rng)
    items = list(named.items())
    rng.shuffle(items)
    return dict(items)


# ================================================= C. cross-check vs aioquic


def aioquic_crosscheck(res: Results, rng, n):
    from aioquic.buffer import Buffer, BufferReadError, encode_uint_var
    from aioquic.quic import packet as aq
    from aioquic.quic.crypto import CryptoContext, CryptoPair, derive_key_iv_hp, next_key_phase
    from aioquic.quic.packet_builder import QuicPacketBuilder
    from aioquic.quic.rangeset import RangeSet
    from aioquic.tls import CipherSuite

    def dis(cond, text):
        res.checks += 1
        if not cond:
            res.disagree(text)
        return cond

    ptype_of = {
        aq.QuicPacketType.INITIAL: "initial", aq.QuicPacketType.ZERO_RTT: "0rtt",
        aq.QuicPacketType.HANDSHAKE: "handshake", aq.QuicPacketType.RETRY: "retry",
        aq.QuicPacketType.VERSION_NEGOTIATION: "vn", aq.QuicPacketType.ONE_RTT: "1rtt",
    }  # fmt: skip
    aq_type = {v: k for k, v in ptype_of.items()}
    vname = {VERSION_1: "v1", VERSION_2: "v2"}

    # ---- varints
    for _ in range(n):
        v = rand_varint(rng)
        dis(encode_uint_var(v) == varint.enc(v), "varint encoding differs")
        size = rng.choice([s for s in (1, 2, 4, 8) if s >= varint.size(v)])
        dis(Buffer(data=varint.enc_sized(v, size)).pull_uint_var() == v, "varint decoding differs")

    # ---- packet number decoding
    for _ in range(n):
        largest = rng.getrandbits(rng.choice((0, 8, 16, 32, 61, 62))) - 1
        bits = rng.choice((8, 16, 24, 32))
        trunc = rng.getrandbits(bits)
        dis(aq.decode_packet_number(trunc, bits, largest + 1) == crypto.decode_pn(largest, trunc, bits),
            "decode_pn differs")

    # ---- key derivation, packet protection, key update
    for version in VERSIONS:
        odcid = rng.randbytes(8)
        ck, sk = crypto.initial_keys(odcid, version)
        pair = CryptoPair()
        pair.setup_initial(odcid, is_client=True, version=version)
        dis((pair.send.secret, pair.recv.secret) == (ck.secret, sk.secret),
            "initial secrets differ (%s)" % vname[version])
        for suite in SUITES:
            tag = "%s suite 0x%04x" % (vname[version], suite)
            secret = rand_secret(rng, suite)
            mine = Keys(secret, suite, version)
            theirs = derive_key_iv_hp(cipher_suite=CipherSuite(suite), secret=secret, version=version)
            dis(theirs == (mine.key, mine.iv, mine.hp), "key/iv/hp derivation differs (%s)" % tag)
            ctx = CryptoContext()
            ctx.setup(cipher_suite=CipherSuite(suite), secret=secret, version=version)
            for _ in range(n // 10 + 1):
                pn, largest, pn_len = rand_pn(rng)
                payload = rng.randbytes(rng.randint(max(0, 4 - pn_len), 1100))
                ptype, hdr, pn_offset, fields = rand_header(rng, version, pn, pn_len, len(payload))
                if ptype == "1rtt" and fields["kp"]:
                    hdr = bytes([hdr[0] & ~0x04]) + hdr[1:]  # key phase handled below
                packet = crypto.protect(mine, hdr, pn, pn_len, payload)
                dis(ctx.encrypt_packet(hdr, payload, pn) == packet, "protected packet bytes differ (%s)" % tag)
                try:
                    got = ctx.decrypt_packet(packet, pn_offset, largest + 1)
                    dis(got[:3] == (hdr, payload, pn), "aioquic decrypts our packet differently (%s)" % tag)
                except Exception as exc:  # noqa: BLE001
                    if pn_len == 4 and pn & 0x80000000:
                        # _crypto.c HeaderProtection_remove: Py_BuildValue("y#i", .., uint32_t)
                        dis(False, "aioquic cannot open a valid packet whose 4-byte truncated packet "
                            "number has its top bit set (HeaderProtection.remove returns it as a "
                            "NEGATIVE int, so the packet number is mis-decoded): %s" % type(exc).__name__)
                    else:
                        dis(False, "aioquic cannot decrypt our packet (%s): %r" % (tag, exc))
            # key update: compare the next-generation secret, and let aioquic
            # open a phase-1 packet protected with OUR next-generation keys
            nxt = mine.next_generation()
            same = next_key_phase(ctx).secret == nxt.secret
            hdr = header.build_short_header(rng.randbytes(8), 7, 2, key_phase=1)
            packet = crypto.protect(nxt, hdr, 7, 2, b"\x01" + bytes(20))
            try:
                opened = ctx.decrypt_packet(packet, 9, 7)[1:] == (b"\x01" + bytes(20), 7, True)
            except Exception:  # noqa: BLE001
                opened = False
            if not (same and opened):
                alt = crypto.hkdf_expand_label(mine.hashname, secret, b"quic ku", b"", len(secret))
                why = ""
                if version == VERSION_2 and next_key_phase(ctx).secret == alt:
                    why = '; aioquic derives it with label "quic ku", RFC 9369 3.3.2 requires "quicv2 ku"'
                res.disagree("key update: next-generation secret differs and aioquic cannot open a "
                             "phase-1 packet sealed with RFC keys (%s)%s" % (vname[version], why))
            res.checks += 1

    # ---- headers: ours -> pull_quic_header
    for _ in range(n // 4 + 1):
        version = rng.choice(VERSIONS)
        keys = Keys(bytes(32), SUITES[0], version)
        cid_len = rng.randint(0, 20)
        datagram = b""
        made = []
        count = rng.randint(1, 4)
        for i in range(count):
            pn, _largest, pn_len = rand_pn(rng)
            payload = rng.randbytes(rng.randint(3, 200))
            ptype = rng.choice(("initial", "0rtt", "handshake")) if i < count - 1 else None
            ptype, hdr, pn_offset, fields = rand_header(rng, version, pn, pn_len, len(payload), cid_len, ptype)
            packet = crypto.protect(keys, hdr, pn, pn_len, payload)
            made.append((ptype, fields, pn_offset, len(packet)))
            datagram += packet
        buf = Buffer(data=datagram)
        for ptype, fields, pn_offset, size in made:
            start = buf.tell()
            try:
                h = aq.pull_quic_header(buf, host_cid_length=cid_len)
            except Exception as exc:  # noqa: BLE001
                dis(False, "aioquic rejects our %s header: %r" % (ptype, exc))
                break
            dis((ptype_of[h.packet_type], h.destination_cid, h.source_cid, h.token, h.packet_length,
                 buf.tell() - start, h.version)
                == (ptype, fields["dcid"], fields["scid"], fields["token"], size, pn_offset,
                    None if ptype == "1rtt" else version),
                "aioquic parses our %s header differently" % ptype)
            buf.seek(start + h.packet_length)

    # ---- headers + protection: QuicPacketBuilder -> ours
    for _ in range(n // 10 + 1):
        version = rng.choice(VERSIONS)
        suite = rng.choice(SUITES)
        host_cid, peer_cid = rand_cid(rng), rand_cid(rng)
        token = rng.randbytes(rng.choice((0, 9, 100)))
        first_pn = rng.getrandbits(rng.choice((0, 10, 17, 30)))
        builder = QuicPacketBuilder(host_cid=host_cid, peer_cid=peer_cid, version=version,
                                    is_client=True, max_datagram_size=1280, packet_number=first_pn,
                                    peer_token=token, spin_bit=bool(rng.getrandbits(1)))
        plan = []
        for ptype in rng.choice((("initial",), ("initial", "handshake"), ("handshake", "1rtt"),
                                 ("initial", "0rtt"), ("1rtt",), ("initial", "handshake", "1rtt"))):
            secret = rand_secret(rng, suite)
            pair = CryptoPair()
            pair.send.setup(cipher_suite=CipherSuite(suite), secret=secret, version=version)
            pair.recv.setup(cipher_suite=CipherSuite(suite), secret=secret, version=version)
            builder.start_packet(aq_type[ptype], pair)
            want = [fr for fr in rand_payload_frames(rng) if fr.type != frames.PADDING
                    and fr.get("has_len", True)][:3] or [Frame(frames.PING)]
            body = frames.encode_frames(want)
            builder.start_frame(want[0].type, capacity=len(body)).push_bytes(body[1:])
            plan.append((ptype, Keys(secret, suite, version), want))
        datagrams, _sent = builder.flush()
        if not dis(len(datagrams) == 1, "QuicPacketBuilder produced %d datagrams" % len(datagrams)):
            continue
        pkts, trailing = header.parse_datagram(datagrams[0], len(peer_cid))
        if not dis(len(pkts) == len(plan) and not trailing.strip(b"\x00"),
                   "QuicPacketBuilder datagram splits differently"):
            continue
        for i, (p, (ptype, keys, want)) in enumerate(zip(pkts, plan)):
            ok = (p.ptype, p.dcid, p.scid, p.token) == (
                ptype, peer_cid, b"" if ptype == "1rtt" else host_cid, token if ptype == "initial" else b"")
            dis(ok, "QuicPacketBuilder %s header fields differ" % ptype)
            try:
                _hdr, pn, pn_len, payload = crypto.unprotect(keys, p.raw, p.pn_offset, first_pn + i - 1)
            except AuthError:
                dis(False, "cannot open QuicPacketBuilder %s packet" % ptype)
                continue
            got = [fr for fr in frames.parse_frames(payload) if fr.type != frames.PADDING]
            dis((pn, pn_len, got) == (first_pn + i, 2, want), "QuicPacketBuilder %s content differs" % ptype)

    # ---- Retry and Version Negotiation
    for _ in range(n // 10 + 1):
        version = rng.choice(VERSIONS)
        dcid, scid, odcid = rand_cid(rng), rand_cid(rng), rand_cid(rng)
        token = rng.randbytes(rng.randint(1, 60))
        unused = rng.getrandbits(4)
        theirs = aq.encode_quic_retry(version, scid, dcid, odcid, token, unused)
        dis(theirs == header.build_retry(version, dcid, scid, token, odcid, unused=unused),
            "Retry packet bytes differ (%s)" % vname[version])
        h = aq.pull_quic_header(Buffer(data=theirs), host_cid_length=8)
        (p,), trailing = header.parse_datagram(theirs, 8)
        dis((ptype_of[h.packet_type], h.destination_cid, h.source_cid, h.token, h.integrity_tag)
            == (p.ptype, p.dcid, p.scid, p.token, p.integrity_tag) and p.ptype == "retry" and not trailing,
            "Retry parses differently")
        versions = [rng.getrandbits(32) for _ in range(rng.randint(1, 5))]
        theirs = aq.encode_quic_version_negotiation(scid, dcid, versions)
        dis(theirs[1:] == header.build_version_negotiation(dcid, scid, versions)[1:] and theirs[0] & 0x80,
            "Version Negotiation bytes differ")
        h = aq.pull_quic_header(Buffer(data=theirs), host_cid_length=8)
        (p,), trailing = header.parse_datagram(theirs, 8)
        dis((p.ptype, h.destination_cid, h.source_cid, h.supported_versions)
            == ("vn", p.dcid, p.scid, p.supported_versions) and p.supported_versions == versions,
            "Version Negotiation parses differently")

    # ---- mutated headers: accept / reject agreement
    for _ in range(n):
        version = rng.choice(VERSIONS)
        pn, _largest, pn_len = rand_pn(rng)
        ptype, hdr, pn_offset, fields = rand_header(rng, version, pn, pn_len, 30, 8)
        blob = bytearray(hdr + rng.randbytes(46))
        for _ in range(rng.randint(1, 3)):
            blob[rng.randrange(min(len(blob), len(hdr) + 2))] = rng.getrandbits(8)
        blob = bytes(blob[: rng.choice((len(blob), len(blob), rng.randint(1, len(blob))))])
        try:
            h = aq.pull_quic_header(Buffer(data=blob), host_cid_length=8)
            theirs = (ptype_of[h.packet_type], h.version, h.destination_cid, h.source_cid, h.token,
                      h.packet_length, h.supported_versions, h.integrity_tag)
        except (ValueError, BufferReadError):
            theirs = None
        pkts, _trailing = header.parse_datagram(blob, 8)
        ours = None
        if pkts:
            p = pkts[0]
            ours = (p.ptype, p.version, p.dcid, p.scid, p.token, len(p.raw), p.supported_versions,
                    p.integrity_tag)
        if theirs != ours:
            long_form = bool(blob[0] & 0x80)
            v = int.from_bytes(blob[1:5], "big") if len(blob) >= 5 else None
            if long_form and theirs is not None and v not in (0, VERSION_1, VERSION_2):
                res.note("expected difference: aioquic decodes long headers of unknown versions as v1; "
                         "wire returns them as trailing bytes")
            elif not long_form and theirs is not None and ours is None and len(blob) == 9:
                res.note("expected difference: wire rejects a short header with no byte after the DCID")
            else:
                res.disagree("mutated header: aioquic=%r wire=%r" % (
                    None if theirs is None else theirs[0], None if ours is None else ours[0]))
        res.checks += 1

    # ---- ACK frames
    for _ in range(n):
        ranges = rand_ranges(rng)
        delay = rand_varint(rng)
        rs = RangeSet()
        for lo, hi in ranges:
            rs.add(lo, hi + 1)
        buf = Buffer(capacity=256)
        aq.push_ack_frame(buf, rs, delay)
        shuffled = ranges[:]
        rng.shuffle(shuffled)
        dis(b"\x02" + buf.data == frames.encode_ack(shuffled, delay), "ACK frame encoding differs")
        got_rs, got_delay = aq.pull_ack_frame(Buffer(data=frames.encode_ack(ranges, delay)[1:]))
        (mine,) = frames.parse_frames(frames.encode_ack(ranges, delay))
        dis([(r.start, r.stop - 1) for r in reversed(list(got_rs))] == mine["ranges"] == ranges
            and got_delay == mine["delay"], "ACK frame decoding differs")

    # ---- transport parameters
    for _ in range(n // 4 + 1):
        named = rand_tparams(rng)
        blob = tparams.encode(named)
        try:
            tp = aq.pull_quic_transport_parameters(Buffer(data=blob))
        except Exception as exc:  # noqa: BLE001
            dis(False, "aioquic rejects our transport parameters: %r" % (exc,))
            continue
        for name, value in named.items():
            theirs = getattr(tp, name)
            if name == "preferred_address":
                b = Buffer(capacity=128)
                aq.push_quic_preferred_address(b, theirs)
                theirs = b.data
                if theirs != value:  # all-zero address with non-zero port is not preserved
                    continue
            elif name == "version_information":
                theirs = (theirs.chosen_version, theirs.available_versions)
            dis(theirs == value, "transport parameter %s decodes differently" % name)
        b = Buffer(capacity=2048)
        aq.push_quic_transport_parameters(b, tp)
        back = tparams.decode_named(b.data)
        back.pop("preferred_address", None)
        want = {k: v for k, v in named.items() if k != "preferred_address"}
        dis(back == want, "transport parameters from aioquic decode differently")


# ----------------------------------------------- end-to-end: monitor a session


def aioquic_end_to_end(res: Results, version: int, suite: int):
    """Run an in-memory aioquic handshake + traffic + key update and decrypt
    every datagram with this package alone (keys from the TLS secrets log)."""
    import ssl

    from aioquic.quic.configuration import QuicConfiguration
    from aioquic.quic.connection import QuicConnection
    from aioquic.tls import CipherSuite

    tests = os.path.join(os.path.dirname(REPO_SRC), "tests")
    tag = "e2e %s 0x%04x" % ("v1" if version == VERSION_1 else "v2", suite)
    log = io.StringIO()
    ccfg = QuicConfiguration(is_client=True, cipher_suites=[CipherSuite(suite)], original_version=version,
                             supported_versions=[version], secrets_log_file=log,
                             max_datagram_frame_size=65536, verify_mode=ssl.CERT_NONE)
    scfg = QuicConfiguration(is_client=False, supported_versions=[version], secrets_log_file=log,
                             max_datagram_frame_size=65536)
    scfg.load_cert_chain(os.path.join(tests, "ssl_cert.pem"), os.path.join(tests, "ssl_key.pem"))
    client = QuicConnection(configuration=ccfg)
    server = QuicConnection(configuration=scfg,
                            original_destination_connection_id=client.original_destination_connection_id)
    client._ack_delay = server._ack_delay = 0

    ck, sk = crypto.initial_keys(client.original_destination_connection_id, version)
    keys = {("c", "initial"): ck, ("s", "initial"): sk}
    labels = {"CLIENT_HANDSHAKE_TRAFFIC_SECRET": ("c", "handshake"), "SERVER_HANDSHAKE_TRAFFIC_SECRET": ("s", "handshake"),
              "CLIENT_TRAFFIC_SECRET_0": ("c", "1rtt"), "SERVER_TRAFFIC_SECRET_0": ("s", "1rtt")}
    phase = {"c": 0, "s": 0}
    largest = {}
    seen = set()
    stats = {"packets": 0, "reencode_same": 0, "updates": 0}
    clock = [1000.0]

    def load_secrets():
        for line in log.getvalue().splitlines():
            label, _rand, secret = line.split()
            if label in labels and labels[label] not in keys:
                keys[labels[label]] = Keys(bytes.fromhex(secret), suite, version)

    def monitor(who, data):
        load_secrets()
        pkts, trailing = header.parse_datagram(data, 8)
        res.check(tag + " trailing is zero padding", not trailing.strip(b"\x00"), trailing[:16].hex())
        res.check(tag + " datagram not empty", bool(pkts))
        for p in pkts:
            k = keys.get((who, p.ptype))
            if not res.check(tag + " keys known for " + p.ptype, k is not None):
                continue
            space = (who, p.ptype)
            try:
                if p.ptype == "1rtt" and crypto.peek_short_key_phase(k, p.raw, p.pn_offset) != phase[who]:
                    nxt = k.next_generation()
                    try:
                        opened = crypto.unprotect(nxt, p.raw, p.pn_offset, largest.get(space, -1))
                    except AuthError:
                        alt = crypto.hkdf_expand_label(k.hashname, k.secret, b"quic ku", b"", len(k.secret))
                        nxt = Keys(alt, suite, version, _hp=k.hp)
                        opened = crypto.unprotect(nxt, p.raw, p.pn_offset, largest.get(space, -1))
                        res.disagree('key update on the wire: aioquic packets after a key update open only '
                                     'with the "quic ku" label, not with "quicv2 ku" (v2; RFC 9369 3.3.2)')
                    keys[space] = nxt
                    phase[who] ^= 1
                    stats["updates"] += 1
                else:
                    opened = crypto.unprotect(k, p.raw, p.pn_offset, largest.get(space, -1))
            except AuthError as exc:
                res.disagree("%s: cannot open a %s packet sent by aioquic: %s" % (tag, p.ptype, exc))
                continue
            _hdr, pn, _pn_len, payload = opened
            largest[space] = max(largest.get(space, -1), pn)
            stats["packets"] += 1
            try:
                frs = frames.parse_frames(payload)
            except ParseError as exc:
                res.disagree("%s: cannot parse frames sent by aioquic: %s (%s)" % (tag, exc, payload[:32].hex()))
                continue
            again = frames.encode_frames(frs)
            stats["reencode_same"] += again == payload
            res.check(tag + " frames stable", frames.parse_frames(again) == frs)
            for fr in frs:
                seen.add(fr.name)
                if not frames.allowed_in(fr, p.ptype):
                    res.disagree("%s: aioquic sent %s in a %s packet" % (tag, fr.name, p.ptype))

    def pump(rounds=4):
        for _ in range(rounds):
            for who, src, dst, addr in (("c", client, server, ("1.2.3.4", 1234)), ("s", server, client, ("2.3.4.5", 4433))):
                clock[0] += 0.01
                for data, _addr in src.datagrams_to_send(now=clock[0]):
                    monitor(who, data)
                    dst.receive_datagram(data, addr, now=clock[0])

    client.connect(("2.3.4.5", 4433), now=clock[0])
    pump()
    res.check(tag + " handshake complete", client._handshake_complete and server._handshake_complete)
    sid = client.get_next_available_stream_id()
    client.send_stream_data(sid, b"x" * 5000, end_stream=False)
    client.send_datagram_frame(b"datagram")
    client.send_ping(1)
    pump()
    server.send_stream_data(sid, b"y" * 3000, end_stream=True)
    uni = server.get_next_available_stream_id(is_unidirectional=True)
    server.send_stream_data(uni, b"z" * 10, end_stream=False)
    pump()
    client.request_key_update()
    client.send_stream_data(sid, b"after update", end_stream=False)
    pump()
    client.stop_stream(uni, 7)
    client.reset_stream(sid, 9)
    client.change_connection_id()
    pump()
    server.request_key_update()
    server.send_ping(2)
    pump()
    client.close(error_code=0x11, reason_phrase="bye")
    pump(1)
    res.check(tag + " saw key updates", stats["updates"] >= 3, str(stats["updates"]))
    return stats, seen


# ======================================================================= main

REPO_SRC = os.path.join(os.environ.get("VERIF_REPO", "/repo"), "src")


def main(argv):
    n = 300
    use_aioquic = True
    args = list(argv)
    while args:
        a = args.pop(0)
        if a == "--no-aioquic":
            use_aioquic = False
        elif a == "-n":
            n = int(args.pop(0))
        else:
            print(__doc__)
            return 2

    res = Results()
    rfc_vectors(res)
    a_checks, a_fail = res.checks, len(res.failures)
    print("A. RFC vectors:          %d checks, %d failed" % (a_checks, a_fail))

    seed = int.from_bytes(hashlib.sha256(b"wire.selftest").digest()[:4], "big")
    internal_properties(res, random.Random(seed), n)
    print("B. internal properties:  %d checks, %d failed" % (res.checks - a_checks, len(res.failures) - a_fail))
    own_failures = list(res.failures)

    if use_aioquic:
        sys.path.insert(0, REPO_SRC)
        before = res.checks
        aioquic_crosscheck(res, random.Random(seed + 1), n)
        print("C. aioquic cross-check:  %d comparisons" % (res.checks - before))
        all_seen = set()
        for version in VERSIONS:
            for suite in SUITES:
                stats, seen = aioquic_end_to_end(res, version, suite)
                all_seen |= seen
                print("   e2e %s suite 0x%04x: %d packets opened, %d key updates followed, "
                      "%d payloads re-encode byte-identically"
                      % ("v1" if version == VERSION_1 else "v2", suite, stats["packets"],
                         stats["updates"], stats["reencode_same"]))
        print("   frame types seen end-to-end: %s" % ", ".join(sorted(all_seen)))
        for text in sorted(set(res.notes)):
            print("   note: %s (x%d)" % (text, res.notes.count(text)))

    for f in res.failures:
        print("FAIL: " + f)
    for text, count in sorted(res.disagreements.items()):
        print("DISAGREEMENT with aioquic (x%d): %s" % (count, text))
    print("total: %d checks, %d failures (%d in A+B), %d distinct disagreements with aioquic"
          % (res.checks, len(res.failures), len(own_failures), len(res.disagreements)))
    return 1 if res.failures else 0


if __name__ == "__main__":
    sys.exit(main(sys.argv[1:]))
