"""QUIC packet headers (RFC 8999, RFC 9000 section 17, RFC 9369 section 3.2):
splitting datagrams into coalesced packets without decrypting, and building
unprotected headers, Retry and Version Negotiation packets."""

from . import varint
from .crypto import VERSION_1, VERSION_2, retry_integrity_tag
from .varint import ParseError

MAX_CID_LEN = 20
RETRY_TAG_LEN = 16

# long-header type bits -> packet type, per version
_TYPE_BITS = {
    VERSION_1: ("initial", "0rtt", "handshake", "retry"),
    VERSION_2: ("retry", "initial", "0rtt", "handshake"),
}
_BITS_OF = {
    version: {name: bits for bits, name in enumerate(names)}
    for version, names in _TYPE_BITS.items()
}


class PacketView:
    """One packet of a datagram, as visible without keys.

    ``start``/``end`` are offsets within the datagram; ``pn_offset`` is
    relative to the packet start (``raw[pn_offset]`` is the first protected
    packet-number byte), so for long headers
    ``end == start + pn_offset + Length``.
    """

    __slots__ = (
        "form",
        "ptype",
        "version",
        "dcid",
        "scid",
        "token",
        "supported_versions",
        "integrity_tag",
        "pn_offset",
        "start",
        "end",
        "first_byte",
        "raw",
    )

    def __init__(
        self,
        form,
        ptype,
        version,
        dcid,
        scid,
        start,
        end,
        first_byte,
        raw,
        pn_offset=None,
        token=b"",
        supported_versions=(),
        integrity_tag=b"",
    ):
        self.form = form
        self.ptype = ptype
        self.version = version
        self.dcid = dcid
        self.scid = scid
        self.token = token
        self.supported_versions = list(supported_versions)
        self.integrity_tag = integrity_tag
        self.pn_offset = pn_offset
        self.start = start
        self.end = end
        self.first_byte = first_byte
        self.raw = raw

    def __repr__(self):
        return "PacketView(%s, v=%s, dcid=%s, scid=%s, [%d:%d], pn_offset=%s)" % (
            self.ptype,
            None if self.version is None else "0x%08x" % self.version,
            self.dcid.hex(),
            self.scid.hex(),
            self.start,
            self.end,
            self.pn_offset,
        )


def _parse_one(data: bytes, start: int, short_dcid_len: int) -> PacketView:
    """Parse the packet beginning at ``data[start]``; raises ParseError."""
    n = len(data)
    first = data[start]

    if not first & 0x80:  # ---- short header: extends to the end of the datagram
        if not first & 0x40:
            raise ParseError("short header with fixed bit clear")
        pn_offset = 1 + short_dcid_len
        if start + pn_offset >= n:
            raise ParseError("short header truncated")
        return PacketView(
            "short",
            "1rtt",
            None,
            data[start + 1 : start + pn_offset],
            b"",
            start,
            n,
            first,
            data[start:],
            pn_offset=pn_offset,
        )

    # ---- long header invariants: version, DCID, SCID
    pos = start + 1
    if pos + 5 > n:
        raise ParseError("long header truncated")
    version = int.from_bytes(data[pos : pos + 4], "big")
    pos += 4
    dcid_len = data[pos]
    pos += 1
    if pos + dcid_len + 1 > n:
        raise ParseError("long header truncated in DCID")
    dcid = data[pos : pos + dcid_len]
    pos += dcid_len
    scid_len = data[pos]
    pos += 1
    if pos + scid_len > n:
        raise ParseError("long header truncated in SCID")
    scid = data[pos : pos + scid_len]
    pos += scid_len

    if version == 0:  # ---- version negotiation
        rest = n - pos
        if rest == 0 or rest % 4:
            raise ParseError("malformed supported version list")
        versions = [
            int.from_bytes(data[i : i + 4], "big") for i in range(pos, n, 4)
        ]
        return PacketView(
            "long", "vn", 0, dcid, scid, start, n, first, data[start:],
            supported_versions=versions,
        )  # fmt: skip

    if version not in _TYPE_BITS:
        raise ParseError("unknown version 0x%08x" % version)
    if not first & 0x40:
        raise ParseError("long header with fixed bit clear")
    if dcid_len > MAX_CID_LEN or scid_len > MAX_CID_LEN:
        raise ParseError("connection ID longer than 20 bytes")
    ptype = _TYPE_BITS[version][(first >> 4) & 3]

    if ptype == "retry":  # ---- extends to the end of the datagram
        if n - pos < RETRY_TAG_LEN:
            raise ParseError("retry packet truncated")
        return PacketView(
            "long", "retry", version, dcid, scid, start, n, first, data[start:],
            token=data[pos : n - RETRY_TAG_LEN],
            integrity_tag=data[n - RETRY_TAG_LEN :],
        )  # fmt: skip

    token = b""
    if ptype == "initial":
        token_len, pos = varint.dec(data, pos)
        if pos + token_len > n:
            raise ParseError("initial token truncated")
        token = data[pos : pos + token_len]
        pos += token_len
    length, pos = varint.dec(data, pos)
    end = pos + length
    if end > n:
        raise ParseError("Length field exceeds the datagram")
    return PacketView(
        "long", ptype, version, dcid, scid, start, end, first, data[start:end],
        pn_offset=pos - start, token=token,
    )  # fmt: skip


def parse_datagram(data: bytes, short_dcid_len: int):
    """Split a UDP datagram into its coalesced packets without decrypting.

    Returns ``(packets, trailing)``: ``trailing`` is the remainder that could
    not be parsed as a packet (``b""`` if everything was consumed) -- typically
    zero padding after the last long-header packet, or garbage.  Never raises.
    ``short_dcid_len`` is the connection ID length the receiver of this
    datagram issued (needed to parse short headers).
    """
    data = bytes(data)
    packets = []
    pos = 0
    n = len(data)
    while pos < n:
        try:
            pkt = _parse_one(data, pos, short_dcid_len)
        except ParseError:
            break
        packets.append(pkt)
        pos = pkt.end
    return packets, data[pos:]


# ------------------------------------------------------------------ builders


def _check_cid(cid: bytes, limit: int = 255):
    if len(cid) > limit:
        raise ValueError("connection ID too long")


def long_first_byte(ptype: str, version: int, low_bits: int = 0) -> int:
    """First byte of a long header with the given low four bits."""
    if version not in _BITS_OF:
        raise ValueError("unsupported QUIC version 0x%08x" % version)
    if ptype not in _BITS_OF[version]:
        raise ValueError("not a long-header packet type: %r" % (ptype,))
    return 0xC0 | (_BITS_OF[version][ptype] << 4) | (low_bits & 0x0F)


def build_long_header(
    ptype: str,
    version: int,
    dcid: bytes,
    scid: bytes,
    token: bytes,
    pn: int,
    pn_len: int,
    payload_len_with_tag: int,
    length_size: int = 2,
) -> bytes:
    """Unprotected Initial / 0-RTT / Handshake header INCLUDING the plaintext
    packet number field (reserved bits zero).  ``pn`` may be the full packet
    number; only its low ``pn_len`` bytes are written.  The Length field is
    ``pn_len + payload_len_with_tag`` encoded on ``length_size`` bytes.
    ``token`` is only written for Initial packets."""
    if ptype not in ("initial", "0rtt", "handshake"):
        raise ValueError("build_long_header cannot build %r packets" % (ptype,))
    if not 1 <= pn_len <= 4:
        raise ValueError("pn_len must be 1..4")
    _check_cid(dcid)
    _check_cid(scid)
    out = bytearray()
    out.append(long_first_byte(ptype, version, pn_len - 1))
    out += version.to_bytes(4, "big")
    out.append(len(dcid))
    out += dcid
    out.append(len(scid))
    out += scid
    if ptype == "initial":
        out += varint.enc(len(token))
        out += token
    out += varint.enc_sized(pn_len + payload_len_with_tag, length_size)
    out += (pn & ((1 << (8 * pn_len)) - 1)).to_bytes(pn_len, "big")
    return bytes(out)


def build_short_header(
    dcid: bytes, pn: int, pn_len: int, key_phase: int, spin: int = 0
) -> bytes:
    """Unprotected 1-RTT header including the plaintext packet number."""
    if not 1 <= pn_len <= 4:
        raise ValueError("pn_len must be 1..4")
    first = 0x40 | ((spin & 1) << 5) | ((key_phase & 1) << 2) | (pn_len - 1)
    return (
        bytes([first])
        + dcid
        + (pn & ((1 << (8 * pn_len)) - 1)).to_bytes(pn_len, "big")
    )


def build_retry(
    version: int, dcid: bytes, scid: bytes, token: bytes, odcid: bytes, unused: int = 0
) -> bytes:
    """Complete Retry packet including its integrity tag.  ``unused`` fills the
    low four (unused) bits of the first byte."""
    _check_cid(dcid)
    _check_cid(scid)
    body = (
        bytes([long_first_byte("retry", version, unused)])
        + version.to_bytes(4, "big")
        + bytes([len(dcid)])
        + dcid
        + bytes([len(scid)])
        + scid
        + token
    )
    return body + retry_integrity_tag(body, odcid, version)


def build_version_negotiation(
    dcid: bytes, scid: bytes, versions, first_byte_random: int = 0x2A
) -> bytes:
    """Version Negotiation packet; the low seven bits of the first byte are
    unused and taken from ``first_byte_random``."""
    _check_cid(dcid)
    _check_cid(scid)
    out = bytearray([0x80 | (first_byte_random & 0x7F)])
    out += b"\x00\x00\x00\x00"
    out.append(len(dcid))
    out += dcid
    out.append(len(scid))
    out += scid
    for v in versions:
        out += v.to_bytes(4, "big")
    return bytes(out)
