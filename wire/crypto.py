"""QUIC packet protection (RFC 9001, RFC 9369) and packet-number coding
(RFC 9000 appendix A).  Pure functions plus the immutable ``Keys`` class."""

import hashlib
import hmac

from cryptography.exceptions import InvalidTag
from cryptography.hazmat.primitives.ciphers import Cipher, algorithms, modes
from cryptography.hazmat.primitives.ciphers.aead import AESGCM, ChaCha20Poly1305

VERSION_1 = 0x00000001
VERSION_2 = 0x6B3343CF

AES_128_GCM_SHA256 = 0x1301
AES_256_GCM_SHA384 = 0x1302
CHACHA20_POLY1305_SHA256 = 0x1303

TAG_LEN = 16
SAMPLE_LEN = 16

# cipher suite -> (hash name, key length); IV is always 12 bytes and the
# header-protection key has the same length as the AEAD key.
_SUITES = {
    AES_128_GCM_SHA256: ("sha256", 16),
    AES_256_GCM_SHA384: ("sha384", 32),
    CHACHA20_POLY1305_SHA256: ("sha256", 32),
}

# RFC 9001 section 5.2 / RFC 9369 section 3.3.1
_INITIAL_SALT = {
    VERSION_1: bytes.fromhex("38762cf7f55934b34d179ae6a4c80cadccbb7f0a"),
    VERSION_2: bytes.fromhex("0dede3def700a6db819381be6e269dcbf9bd2ed9"),
}

# RFC 9001 section 5.8 / RFC 9369 section 3.3.3: (key, nonce)
_RETRY = {
    VERSION_1: (
        bytes.fromhex("be0c690b9f66575a1d766b54e368c84e"),
        bytes.fromhex("461599d35d632bf2239825bb"),
    ),
    VERSION_2: (
        bytes.fromhex("8fb4b01b56ac48e260fbcbcead7ccc92"),
        bytes.fromhex("d86969bc2d7c6d9990efb04a"),
    ),
}


class AuthError(Exception):
    """Packet could not be authenticated (or is too short to even try)."""


def _label_prefix(version: int) -> bytes:
    if version == VERSION_1:
        return b"quic "
    if version == VERSION_2:
        return b"quicv2 "
    raise ValueError("unsupported QUIC version 0x%08x" % version)


# --------------------------------------------------------------------- HKDF


def hkdf_extract(hashname: str, salt: bytes, ikm: bytes) -> bytes:
    """RFC 5869 HKDF-Extract."""
    if not salt:
        salt = bytes(hashlib.new(hashname).digest_size)
    return hmac.new(salt, ikm, hashname).digest()


def hkdf_expand(hashname: str, prk: bytes, info: bytes, length: int) -> bytes:
    """RFC 5869 HKDF-Expand."""
    out = b""
    block = b""
    counter = 1
    while len(out) < length:
        block = hmac.new(prk, block + info + bytes([counter]), hashname).digest()
        out += block
        counter += 1
    return out[:length]


def hkdf_expand_label(
    hashname: str, secret: bytes, label: bytes, context: bytes, length: int
) -> bytes:
    """TLS 1.3 HKDF-Expand-Label (RFC 8446 section 7.1); ``label`` is given
    without the ``"tls13 "`` prefix."""
    full = b"tls13 " + label
    info = (
        length.to_bytes(2, "big")
        + bytes([len(full)])
        + full
        + bytes([len(context)])
        + context
    )
    return hkdf_expand(hashname, secret, info, length)


# --------------------------------------------------------------------- keys


class Keys:
    """One direction of packet protection keys for one key generation.

    ``secret`` is the TLS traffic secret (or the QUIC initial secret for that
    direction).  Instances are immutable; AEAD / ECB objects are cached.
    """

    __slots__ = (
        "secret",
        "cipher_suite",
        "version",
        "hashname",
        "key",
        "iv",
        "hp",
        "_iv_int",
        "_aead",
        "_hp_ecb",
    )

    def __init__(self, secret: bytes, cipher_suite: int, version: int, _hp=None):
        if cipher_suite not in _SUITES:
            raise ValueError("unsupported cipher suite 0x%04x" % cipher_suite)
        prefix = _label_prefix(version)
        hashname, key_len = _SUITES[cipher_suite]
        self.secret = bytes(secret)
        self.cipher_suite = cipher_suite
        self.version = version
        self.hashname = hashname
        self.key = hkdf_expand_label(hashname, secret, prefix + b"key", b"", key_len)
        self.iv = hkdf_expand_label(hashname, secret, prefix + b"iv", b"", 12)
        if _hp is None:
            _hp = hkdf_expand_label(hashname, secret, prefix + b"hp", b"", key_len)
        self.hp = _hp
        self._iv_int = int.from_bytes(self.iv, "big")
        if cipher_suite == CHACHA20_POLY1305_SHA256:
            self._aead = ChaCha20Poly1305(self.key)
            self._hp_ecb = None
        else:
            self._aead = AESGCM(self.key)
            # ECB is stateless, so a single encryptor can be reused forever.
            self._hp_ecb = Cipher(algorithms.AES(self.hp), modes.ECB()).encryptor()

    def __repr__(self):
        return "Keys(suite=0x%04x, version=0x%08x, secret=%s..)" % (
            self.cipher_suite,
            self.version,
            self.secret[:4].hex(),
        )

    def next_generation(self) -> "Keys":
        """Keys after one key update (RFC 9001 section 6, RFC 9369 3.3.2):
        secret' = HKDF-Expand-Label(secret, "quic ku" | "quicv2 ku", "", Hash.length);
        the header protection key is NOT updated."""
        digest_size = hashlib.new(self.hashname).digest_size
        secret = hkdf_expand_label(
            self.hashname,
            self.secret,
            _label_prefix(self.version) + b"ku",
            b"",
            digest_size,
        )
        return Keys(secret, self.cipher_suite, self.version, _hp=self.hp)

    def nonce(self, pn: int) -> bytes:
        return (self._iv_int ^ pn).to_bytes(12, "big")

    def seal(self, header: bytes, pn: int, payload: bytes) -> bytes:
        """AEAD-protect ``payload`` with ``header`` as associated data;
        returns ciphertext || 16-byte tag."""
        return self._aead.encrypt(self.nonce(pn), payload, header)

    def open(self, header: bytes, pn: int, ciphertext: bytes) -> bytes:
        if len(ciphertext) < TAG_LEN:
            raise AuthError("ciphertext shorter than the AEAD tag")
        try:
            return self._aead.decrypt(self.nonce(pn), ciphertext, header)
        except InvalidTag:
            raise AuthError("AEAD authentication failed") from None

    def hp_mask(self, sample: bytes) -> bytes:
        """5-byte header protection mask for a 16-byte ciphertext sample."""
        if len(sample) != SAMPLE_LEN:
            raise ValueError("header protection sample must be 16 bytes")
        if self._hp_ecb is not None:
            return self._hp_ecb.update(sample)[:5]
        # RFC 9001 5.4.4: counter = first 4 sample bytes (little endian),
        # nonce = remaining 12.  `cryptography` wants counter||nonce, which is
        # the sample as-is.
        enc = Cipher(algorithms.ChaCha20(self.hp, sample), mode=None).encryptor()
        return enc.update(b"\x00\x00\x00\x00\x00")


def initial_keys(dcid: bytes, version: int):
    """``(client_keys, server_keys)`` derived from the client's first
    Destination Connection ID (RFC 9001 section 5.2)."""
    if version not in _INITIAL_SALT:
        raise ValueError("unsupported QUIC version 0x%08x" % version)
    initial_secret = hkdf_extract("sha256", _INITIAL_SALT[version], dcid)
    client = hkdf_expand_label("sha256", initial_secret, b"client in", b"", 32)
    server = hkdf_expand_label("sha256", initial_secret, b"server in", b"", 32)
    return (
        Keys(client, AES_128_GCM_SHA256, version),
        Keys(server, AES_128_GCM_SHA256, version),
    )


# ------------------------------------------------------------ packet numbers


def encode_pn(full_pn: int, largest_acked):
    """RFC 9000 A.2.  ``largest_acked`` is the largest packet number the peer
    has acknowledged in this space (``None`` or a negative value if none).
    Returns ``(truncated_value, nbytes)`` with the smallest legal ``nbytes``."""
    if largest_acked is None or largest_acked < 0:
        num_unacked = full_pn + 1
    else:
        num_unacked = full_pn - largest_acked
    if num_unacked <= 0:
        raise ValueError("packet number not above largest acknowledged")
    # ceil((log2(num_unacked) + 1) / 8): smallest n with 2**(8n-1) >= num_unacked
    nbytes = 1
    while (1 << (8 * nbytes - 1)) < num_unacked:
        nbytes += 1
    if nbytes > 4:
        raise ValueError("packet number too far ahead of largest acknowledged")
    return full_pn & ((1 << (8 * nbytes)) - 1), nbytes


def decode_pn(largest_pn: int, truncated: int, nbits: int) -> int:
    """RFC 9000 A.3.

    ``largest_pn`` is the LARGEST packet number successfully processed so far
    in this packet number space (-1 if none) -- NOT the next expected one; the
    function adds one itself.  ``nbits`` is 8, 16, 24 or 32."""
    expected = largest_pn + 1
    win = 1 << nbits
    hwin = win >> 1
    mask = win - 1
    candidate = (expected & ~mask) | truncated
    if candidate <= expected - hwin and candidate < (1 << 62) - win:
        return candidate + win
    if candidate > expected + hwin and candidate >= win:
        return candidate - win
    return candidate


# ---------------------------------------------------------- packet protection


def protect(keys: Keys, header: bytes, pn: int, pn_len: int, payload: bytes) -> bytes:
    """Build a protected packet.

    ``header`` is the complete unprotected header whose last ``pn_len`` bytes
    are the (truncated) packet number; ``pn`` is the FULL packet number (used
    for the nonce).  The Length field of long headers must already account for
    ``pn_len + len(payload) + 16``."""
    if not 1 <= pn_len <= 4:
        raise ValueError("pn_len must be 1..4")
    if len(header) < 1 + pn_len:
        raise ValueError("header shorter than its packet number field")
    if pn_len + len(payload) < 4:
        raise ValueError("plaintext too short to provide a header protection sample")
    sealed = keys.seal(header, pn, payload)
    sample_at = 4 - pn_len
    mask = keys.hp_mask(sealed[sample_at : sample_at + SAMPLE_LEN])
    out = bytearray(header)
    out[0] ^= mask[0] & (0x0F if out[0] & 0x80 else 0x1F)
    pn_offset = len(header) - pn_len
    for i in range(pn_len):
        out[pn_offset + i] ^= mask[1 + i]
    return bytes(out) + sealed


def _remove_hp(keys: Keys, packet: bytes, pn_offset: int):
    """Returns (unprotected first byte, mask); raises AuthError if too short."""
    sample = packet[pn_offset + 4 : pn_offset + 4 + SAMPLE_LEN]
    if pn_offset < 1 or len(sample) < SAMPLE_LEN:
        raise AuthError("packet too short for a header protection sample")
    mask = keys.hp_mask(sample)
    first = packet[0]
    first ^= mask[0] & (0x0F if first & 0x80 else 0x1F)
    return first, mask


def peek_short_key_phase(keys: Keys, packet: bytes, pn_offset: int) -> int:
    """Remove header protection only and return the Key Phase bit (0/1) of a
    short-header packet.  Header protection keys do not change on key update,
    so any generation of ``keys`` works."""
    first, _ = _remove_hp(keys, packet, pn_offset)
    return (first >> 2) & 1


def unprotect(keys: Keys, packet: bytes, pn_offset: int, largest_pn: int):
    """Remove header and payload protection from exactly one packet.

    ``packet`` must end where the packet ends (``PacketView.raw``).
    ``largest_pn`` is the largest successfully processed packet number in the
    space so far (-1 if none).  Returns
    ``(plain_header, pn, pn_len, payload)``; raises ``AuthError``."""
    first, mask = _remove_hp(keys, packet, pn_offset)
    pn_len = (first & 0x03) + 1
    end = pn_offset + pn_len
    header = bytearray(packet[:end])
    header[0] = first
    truncated = 0
    for i in range(pn_len):
        b = header[pn_offset + i] ^ mask[1 + i]
        header[pn_offset + i] = b
        truncated = (truncated << 8) | b
    pn = decode_pn(largest_pn, truncated, 8 * pn_len)
    header = bytes(header)
    return header, pn, pn_len, keys.open(header, pn, packet[end:])


# ---------------------------------------------------------------------- retry


def retry_integrity_tag(retry_without_tag: bytes, odcid: bytes, version: int) -> bytes:
    """RFC 9001 section 5.8: AEAD_AES_128_GCM tag over the Retry pseudo-packet
    (ODCID length, ODCID, Retry packet without its tag), empty plaintext."""
    if version not in _RETRY:
        raise ValueError("unsupported QUIC version 0x%08x" % version)
    key, nonce = _RETRY[version]
    pseudo = bytes([len(odcid)]) + odcid + retry_without_tag
    return AESGCM(key).encrypt(nonce, b"", pseudo)
