"""QUIC variable-length integers (RFC 9000 section 16)."""

MAX = (1 << 62) - 1

_PREFIX = {1: 0x00, 2: 0x40, 4: 0x80, 8: 0xC0}
_LIMIT = {1: 1 << 6, 2: 1 << 14, 4: 1 << 30, 8: 1 << 62}


class ParseError(Exception):
    """Raised when wire data is truncated or malformed."""


def size(v: int) -> int:
    """Number of bytes of the shortest encoding of ``v``."""
    if v < 0:
        raise ValueError("varint must be non-negative")
    if v < 0x40:
        return 1
    if v < 0x4000:
        return 2
    if v < 0x40000000:
        return 4
    if v <= MAX:
        return 8
    raise ValueError("varint out of range: %d" % v)


def enc_sized(v: int, size: int) -> bytes:
    """Encode ``v`` on exactly ``size`` (1, 2, 4 or 8) bytes."""
    if size not in _PREFIX:
        raise ValueError("varint size must be 1, 2, 4 or 8")
    if v < 0 or v >= _LIMIT[size]:
        raise ValueError("value %d does not fit a %d-byte varint" % (v, size))
    out = bytearray(v.to_bytes(size, "big"))
    out[0] |= _PREFIX[size]
    return bytes(out)


def enc(v: int) -> bytes:
    """Shortest encoding of ``v``."""
    return enc_sized(v, size(v))


def dec(data: bytes, pos: int = 0):
    """Decode one varint at ``data[pos:]``; returns ``(value, newpos)``."""
    if pos < 0 or pos >= len(data):
        raise ParseError("varint truncated at offset %d" % pos)
    first = data[pos]
    n = 1 << (first >> 6)
    end = pos + n
    if end > len(data):
        raise ParseError("varint truncated at offset %d" % pos)
    if n == 1:
        return first, end
    return int.from_bytes(data[pos:end], "big") & ((1 << (8 * n - 2)) - 1), end
