"""QUIC transport parameters: RFC 9000 section 18, RFC 9221 (0x20) and
RFC 9368 version_information (0x11)."""

from .varint import ParseError, dec, enc

_INT = "int"
_BYTES = "bytes"
_FLAG = "flag"
_VINFO = "version_information"

# id -> (name, kind)
PARAMS = {
    0x00: ("original_destination_connection_id", _BYTES),
    0x01: ("max_idle_timeout", _INT),
    0x02: ("stateless_reset_token", _BYTES),
    0x03: ("max_udp_payload_size", _INT),
    0x04: ("initial_max_data", _INT),
    0x05: ("initial_max_stream_data_bidi_local", _INT),
    0x06: ("initial_max_stream_data_bidi_remote", _INT),
    0x07: ("initial_max_stream_data_uni", _INT),
    0x08: ("initial_max_streams_bidi", _INT),
    0x09: ("initial_max_streams_uni", _INT),
    0x0A: ("ack_delay_exponent", _INT),
    0x0B: ("max_ack_delay", _INT),
    0x0C: ("disable_active_migration", _FLAG),
    0x0D: ("preferred_address", _BYTES),
    0x0E: ("active_connection_id_limit", _INT),
    0x0F: ("initial_source_connection_id", _BYTES),
    0x10: ("retry_source_connection_id", _BYTES),
    0x11: ("version_information", _VINFO),
    0x20: ("max_datagram_frame_size", _INT),
}
IDS = {name: pid for pid, (name, _kind) in PARAMS.items()}


def is_grease(pid: int) -> bool:
    """Reserved identifiers of the form 31 * N + 27 (RFC 9000 18.1)."""
    return pid >= 27 and (pid - 27) % 31 == 0


def _decode_value(pid: int, raw: bytes):
    if pid not in PARAMS:
        return raw
    name, kind = PARAMS[pid]
    if kind == _INT:
        value, end = dec(raw, 0)
        if end != len(raw):
            raise ParseError("%s: integer does not fill the parameter" % name)
        return value
    if kind == _FLAG:
        if raw:
            raise ParseError("%s must be empty" % name)
        return True
    if kind == _VINFO:
        if len(raw) < 4 or len(raw) % 4:
            raise ParseError("malformed version_information")
        words = [int.from_bytes(raw[i : i + 4], "big") for i in range(0, len(raw), 4)]
        return (words[0], words[1:])
    return raw


def decode(data: bytes, keep_grease: bool = False) -> dict:
    """``{id: value}``.  Known integer parameters are ints,
    disable_active_migration is True, version_information is
    ``(chosen, [available...])``, everything else (connection IDs, tokens,
    preferred_address, unknown ids) is raw bytes.  Grease ids are dropped
    unless ``keep_grease``.  Raises ``ParseError`` on truncation, duplicate
    ids and malformed known values."""
    data = bytes(data)
    out = {}
    seen = set()
    pos = 0
    n = len(data)
    while pos < n:
        pid, pos = dec(data, pos)
        length, pos = dec(data, pos)
        if pos + length > n:
            raise ParseError("transport parameter 0x%x truncated" % pid)
        raw = data[pos : pos + length]
        pos += length
        if pid in seen:
            raise ParseError("duplicate transport parameter 0x%x" % pid)
        seen.add(pid)
        if is_grease(pid) and not keep_grease:
            continue
        out[pid] = _decode_value(pid, raw)
    return out


def decode_named(data: bytes) -> dict:
    """Like ``decode`` but keyed by parameter name; unknown (non-grease) ids
    appear as ``"0x<id>"`` with their raw bytes."""
    return {
        (PARAMS[pid][0] if pid in PARAMS else "0x%x" % pid): value
        for pid, value in decode(data).items()
    }


def _encode_value(kind, value) -> bytes:
    if isinstance(value, (bytes, bytearray)):
        return bytes(value)  # raw bytes are always written verbatim
    if kind == _FLAG:
        return b""
    if kind == _VINFO:
        chosen, available = value
        return b"".join(v.to_bytes(4, "big") for v in [chosen, *available])
    if isinstance(value, int):
        return enc(value)
    raise ValueError("cannot encode transport parameter value %r" % (value,))


def encode(params: dict) -> bytes:
    """Encode ``{name_or_id: value}`` in dict order.  Ints become varints,
    bytes are written verbatim (also for integer parameters, which lets a
    forger write odd encodings), flags take True (False/None omits them),
    version_information takes ``(chosen, [available...])``."""
    out = bytearray()
    for key, value in params.items():
        if isinstance(key, str):
            if key in IDS:
                pid = IDS[key]
            elif key.startswith("0x"):
                pid = int(key, 16)
            else:
                raise ValueError("unknown transport parameter %r" % key)
        else:
            pid = key
        kind = PARAMS[pid][1] if pid in PARAMS else _BYTES
        if value is None or value is False:
            continue
        body = _encode_value(kind, value)
        out += enc(pid)
        out += enc(len(body))
        out += body
    return bytes(out)
