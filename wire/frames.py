"""QUIC frames: RFC 9000 section 19 and RFC 9221 DATAGRAM.

``parse_frames`` is strict (it raises ``ParseError`` for everything the RFC
calls a FRAME_ENCODING_ERROR); the encoders are permissive so that a forger
can produce odd or invalid frames on purpose.
"""

from . import varint
from .varint import ParseError, dec, enc

PADDING = 0x00
PING = 0x01
ACK = 0x02
ACK_ECN = 0x03
RESET_STREAM = 0x04
STOP_SENDING = 0x05
CRYPTO = 0x06
NEW_TOKEN = 0x07
STREAM_BASE = 0x08  # 0x08..0x0f, flag bits OFF=0x04 LEN=0x02 FIN=0x01
MAX_DATA = 0x10
MAX_STREAM_DATA = 0x11
MAX_STREAMS_BIDI = 0x12
MAX_STREAMS_UNI = 0x13
DATA_BLOCKED = 0x14
STREAM_DATA_BLOCKED = 0x15
STREAMS_BLOCKED_BIDI = 0x16
STREAMS_BLOCKED_UNI = 0x17
NEW_CONNECTION_ID = 0x18
RETIRE_CONNECTION_ID = 0x19
PATH_CHALLENGE = 0x1A
PATH_RESPONSE = 0x1B
CONNECTION_CLOSE = 0x1C
CONNECTION_CLOSE_APP = 0x1D
HANDSHAKE_DONE = 0x1E
DATAGRAM = 0x30
DATAGRAM_LEN = 0x31

NAMES = {
    PADDING: "PADDING",
    PING: "PING",
    ACK: "ACK",
    ACK_ECN: "ACK_ECN",
    RESET_STREAM: "RESET_STREAM",
    STOP_SENDING: "STOP_SENDING",
    CRYPTO: "CRYPTO",
    NEW_TOKEN: "NEW_TOKEN",
    MAX_DATA: "MAX_DATA",
    MAX_STREAM_DATA: "MAX_STREAM_DATA",
    MAX_STREAMS_BIDI: "MAX_STREAMS_BIDI",
    MAX_STREAMS_UNI: "MAX_STREAMS_UNI",
    DATA_BLOCKED: "DATA_BLOCKED",
    STREAM_DATA_BLOCKED: "STREAM_DATA_BLOCKED",
    STREAMS_BLOCKED_BIDI: "STREAMS_BLOCKED_BIDI",
    STREAMS_BLOCKED_UNI: "STREAMS_BLOCKED_UNI",
    NEW_CONNECTION_ID: "NEW_CONNECTION_ID",
    RETIRE_CONNECTION_ID: "RETIRE_CONNECTION_ID",
    PATH_CHALLENGE: "PATH_CHALLENGE",
    PATH_RESPONSE: "PATH_RESPONSE",
    CONNECTION_CLOSE: "CONNECTION_CLOSE",
    CONNECTION_CLOSE_APP: "CONNECTION_CLOSE_APP",
    HANDSHAKE_DONE: "HANDSHAKE_DONE",
    DATAGRAM: "DATAGRAM",
    DATAGRAM_LEN: "DATAGRAM",
}
for _t in range(0x08, 0x10):
    NAMES[_t] = "STREAM"
del _t

MAX_STREAMS_LIMIT = 1 << 60

_NOT_ACK_ELICITING = frozenset(
    (PADDING, ACK, ACK_ECN, CONNECTION_CLOSE, CONNECTION_CLOSE_APP)
)

# RFC 9000 table 3 (+ RFC 9221): frame types allowed outside 1-RTT packets.
_INITIAL_HANDSHAKE_OK = frozenset((PADDING, PING, ACK, ACK_ECN, CRYPTO, CONNECTION_CLOSE))
_ZERO_RTT_FORBIDDEN = frozenset(
    (ACK, ACK_ECN, CRYPTO, NEW_TOKEN, PATH_RESPONSE, RETIRE_CONNECTION_ID, HANDSHAKE_DONE)
)


class Frame:
    """A decoded frame: wire ``type``, ``name`` and a ``fields`` dict."""

    __slots__ = ("type", "name", "fields")

    def __init__(self, type: int, fields=None, name=None):
        self.type = type
        self.name = name if name is not None else NAMES.get(type, "0x%02x" % type)
        self.fields = fields if fields is not None else {}

    def __getitem__(self, key):
        return self.fields[key]

    def get(self, key, default=None):
        return self.fields.get(key, default)

    def __eq__(self, other):
        return (
            isinstance(other, Frame)
            and self.type == other.type
            and self.fields == other.fields
        )

    def __repr__(self):
        parts = []
        for k, v in self.fields.items():
            if isinstance(v, (bytes, bytearray)) and len(v) > 16:
                v = "<%d bytes %s..>" % (len(v), bytes(v[:8]).hex())
            elif isinstance(v, (bytes, bytearray)):
                v = bytes(v).hex()
            parts.append("%s=%s" % (k, v))
        return "%s(%s)" % (self.name, ", ".join(parts))


def ACK_ELICITING(frame) -> bool:
    """True for every frame except PADDING, ACK and CONNECTION_CLOSE.
    Accepts a ``Frame`` or a frame type."""
    t = frame.type if isinstance(frame, Frame) else frame
    return t not in _NOT_ACK_ELICITING


def allowed_in(frame, ptype: str) -> bool:
    """May this frame (``Frame`` or type) appear in a packet of type
    'initial' | 'handshake' | '0rtt' | '1rtt'?  (RFC 9000 table 3)"""
    t = frame.type if isinstance(frame, Frame) else frame
    if ptype in ("initial", "handshake"):
        return t in _INITIAL_HANDSHAKE_OK
    if ptype == "0rtt":
        return t not in _ZERO_RTT_FORBIDDEN
    if ptype == "1rtt":
        return True
    raise ValueError("no frames in %r packets" % (ptype,))


# -------------------------------------------------------------------- parsing


def _take(payload: bytes, pos: int, n: int):
    end = pos + n
    if n < 0 or end > len(payload):
        raise ParseError("frame truncated: need %d bytes at offset %d" % (n, pos))
    return payload[pos:end], end


def _parse_ack(ftype, payload, pos):
    largest, pos = dec(payload, pos)
    delay, pos = dec(payload, pos)
    count, pos = dec(payload, pos)
    first, pos = dec(payload, pos)
    lo = largest - first
    if lo < 0:
        raise ParseError("ACK first range larger than largest acknowledged")
    ranges = [(lo, largest)]
    for _ in range(count):
        gap, pos = dec(payload, pos)
        length, pos = dec(payload, pos)
        hi = lo - gap - 2
        lo = hi - length
        if lo < 0:
            raise ParseError("ACK range below packet number zero")
        ranges.append((lo, hi))
    ecn = None
    if ftype == ACK_ECN:
        ect0, pos = dec(payload, pos)
        ect1, pos = dec(payload, pos)
        ce, pos = dec(payload, pos)
        ecn = (ect0, ect1, ce)
    fields = {"largest": largest, "delay": delay, "ranges": ranges, "ecn": ecn}
    return Frame(ftype, fields), pos


def _parse_stream(ftype, payload, pos):
    stream_id, pos = dec(payload, pos)
    has_off = bool(ftype & 0x04)
    has_len = bool(ftype & 0x02)
    offset = 0
    if has_off:
        offset, pos = dec(payload, pos)
    if has_len:
        length, pos = dec(payload, pos)
        data, pos = _take(payload, pos, length)
    else:
        data = payload[pos:]
        pos = len(payload)
    if offset + len(data) > varint.MAX:
        raise ParseError("STREAM frame exceeds the maximum stream offset")
    fields = {
        "stream_id": stream_id,
        "offset": offset,
        "data": data,
        "fin": bool(ftype & 0x01),
        "has_len": has_len,
        "has_off": has_off,
    }
    return Frame(ftype, fields), pos


def _parse_one(payload: bytes, pos: int, strict: bool):
    start = pos
    ftype, pos = dec(payload, pos)
    if strict and pos - start != varint.size(ftype):
        raise ParseError("frame type 0x%x not minimally encoded" % ftype)

    if ftype == PADDING:
        # collapse the whole run of zero bytes (only reached via non-strict
        # long encodings of type 0; the fast path lives in parse_frames)
        return Frame(PADDING, {"length": pos - start}), pos
    if ftype == PING or ftype == HANDSHAKE_DONE:
        return Frame(ftype), pos
    if ftype == ACK or ftype == ACK_ECN:
        return _parse_ack(ftype, payload, pos)
    if 0x08 <= ftype <= 0x0F:
        return _parse_stream(ftype, payload, pos)
    if ftype == CRYPTO:
        offset, pos = dec(payload, pos)
        length, pos = dec(payload, pos)
        data, pos = _take(payload, pos, length)
        if offset + length > varint.MAX:
            raise ParseError("CRYPTO frame exceeds the maximum offset")
        return Frame(ftype, {"offset": offset, "data": data}), pos
    if ftype == RESET_STREAM:
        stream_id, pos = dec(payload, pos)
        error_code, pos = dec(payload, pos)
        final_size, pos = dec(payload, pos)
        fields = {"stream_id": stream_id, "error_code": error_code, "final_size": final_size}
        return Frame(ftype, fields), pos
    if ftype == STOP_SENDING:
        stream_id, pos = dec(payload, pos)
        error_code, pos = dec(payload, pos)
        return Frame(ftype, {"stream_id": stream_id, "error_code": error_code}), pos
    if ftype == NEW_TOKEN:
        length, pos = dec(payload, pos)
        token, pos = _take(payload, pos, length)
        if not token:
            raise ParseError("NEW_TOKEN with an empty token")
        return Frame(ftype, {"token": token}), pos
    if ftype == MAX_DATA or ftype == DATA_BLOCKED:
        limit, pos = dec(payload, pos)
        return Frame(ftype, {"limit": limit}), pos
    if ftype == MAX_STREAM_DATA or ftype == STREAM_DATA_BLOCKED:
        stream_id, pos = dec(payload, pos)
        limit, pos = dec(payload, pos)
        return Frame(ftype, {"stream_id": stream_id, "limit": limit}), pos
    if MAX_STREAMS_BIDI <= ftype <= MAX_STREAMS_UNI or (
        STREAMS_BLOCKED_BIDI <= ftype <= STREAMS_BLOCKED_UNI
    ):
        limit, pos = dec(payload, pos)
        if limit > MAX_STREAMS_LIMIT:
            raise ParseError("%s limit above 2^60" % NAMES[ftype])
        return Frame(ftype, {"limit": limit, "uni": bool(ftype & 1)}), pos
    if ftype == NEW_CONNECTION_ID:
        seq, pos = dec(payload, pos)
        retire_prior_to, pos = dec(payload, pos)
        raw_len, pos = _take(payload, pos, 1)
        cid_len = raw_len[0]
        if not 1 <= cid_len <= 20:
            raise ParseError("NEW_CONNECTION_ID with connection ID length %d" % cid_len)
        cid, pos = _take(payload, pos, cid_len)
        token, pos = _take(payload, pos, 16)
        if retire_prior_to > seq:
            raise ParseError("NEW_CONNECTION_ID retire_prior_to above sequence number")
        fields = {"seq": seq, "retire_prior_to": retire_prior_to, "cid": cid, "token": token}
        return Frame(ftype, fields), pos
    if ftype == RETIRE_CONNECTION_ID:
        seq, pos = dec(payload, pos)
        return Frame(ftype, {"seq": seq}), pos
    if ftype == PATH_CHALLENGE or ftype == PATH_RESPONSE:
        data, pos = _take(payload, pos, 8)
        return Frame(ftype, {"data": data}), pos
    if ftype == CONNECTION_CLOSE:
        error_code, pos = dec(payload, pos)
        frame_type, pos = dec(payload, pos)
        length, pos = dec(payload, pos)
        reason, pos = _take(payload, pos, length)
        fields = {"error_code": error_code, "frame_type": frame_type, "reason": reason}
        return Frame(ftype, fields), pos
    if ftype == CONNECTION_CLOSE_APP:
        error_code, pos = dec(payload, pos)
        length, pos = dec(payload, pos)
        reason, pos = _take(payload, pos, length)
        return Frame(ftype, {"error_code": error_code, "reason": reason}), pos
    if ftype == DATAGRAM:
        return Frame(ftype, {"data": payload[pos:], "has_len": False}), len(payload)
    if ftype == DATAGRAM_LEN:
        length, pos = dec(payload, pos)
        data, pos = _take(payload, pos, length)
        return Frame(ftype, {"data": data, "has_len": True}), pos
    raise ParseError("unknown frame type 0x%x" % ftype)


def parse_frames(payload: bytes, strict: bool = True):
    """Decode a decrypted packet payload into a list of ``Frame``.

    A run of consecutive zero bytes becomes ONE PADDING frame with field
    ``length``.  Raises ``ParseError`` on truncated, malformed or unknown
    frames, on an empty payload (RFC 9000 12.4) and -- when ``strict`` -- on
    frame types that are not minimally encoded."""
    payload = bytes(payload)
    n = len(payload)
    if n == 0:
        raise ParseError("packet without frames")
    frames = []
    pos = 0
    while pos < n:
        if payload[pos] == 0:
            rest = n - pos
            run = rest - len(payload[pos:].lstrip(b"\x00"))
            frames.append(Frame(PADDING, {"length": run}))
            pos += run
            continue
        frame, pos = _parse_one(payload, pos, strict)
        frames.append(frame)
    return frames


# ------------------------------------------------------------------- encoding


def encode_padding(length: int = 1) -> bytes:
    return bytes(length)


def encode_ping() -> bytes:
    return b"\x01"


def encode_ack(ranges, delay: int, ecn=None) -> bytes:
    """``ranges``: inclusive ``(lo, hi)`` tuples in any order; they are sorted
    descending but not merged (overlapping or adjacent ranges cannot be
    expressed on the wire and raise ValueError).  ``ecn``: ``(ect0, ect1, ce)``
    selects type 0x03."""
    ordered = sorted(ranges, key=lambda r: r[1], reverse=True)
    if not ordered:
        raise ValueError("ACK needs at least one range")
    lo, hi = ordered[0]
    if lo > hi or lo < 0:
        raise ValueError("bad ACK range (%d, %d)" % (lo, hi))
    out = bytearray(enc(ACK if ecn is None else ACK_ECN))
    out += enc(hi)
    out += enc(delay)
    out += enc(len(ordered) - 1)
    out += enc(hi - lo)
    prev_lo = lo
    for lo, hi in ordered[1:]:
        gap = prev_lo - hi - 2
        if lo > hi or lo < 0 or gap < 0:
            raise ValueError("ACK ranges must be disjoint and non-adjacent")
        out += enc(gap)
        out += enc(hi - lo)
        prev_lo = lo
    if ecn is not None:
        for v in ecn:
            out += enc(v)
    return bytes(out)


def encode_reset_stream(stream_id: int, error_code: int, final_size: int) -> bytes:
    return enc(RESET_STREAM) + enc(stream_id) + enc(error_code) + enc(final_size)


def encode_stop_sending(stream_id: int, error_code: int) -> bytes:
    return enc(STOP_SENDING) + enc(stream_id) + enc(error_code)


def encode_crypto(offset: int, data: bytes) -> bytes:
    return enc(CRYPTO) + enc(offset) + enc(len(data)) + bytes(data)


def encode_new_token(token: bytes) -> bytes:
    return enc(NEW_TOKEN) + enc(len(token)) + bytes(token)


def encode_stream(
    stream_id: int, offset: int, data: bytes, fin: bool, with_len: bool = True, with_off=None
) -> bytes:
    """``with_off=None`` writes the Offset field only when ``offset != 0``;
    ``with_off=True`` forces an explicit (possibly zero) offset.  Without a
    Length field the frame extends to the end of the packet."""
    if with_off is None:
        with_off = offset != 0
    if not with_off and offset != 0:
        raise ValueError("non-zero offset needs with_off")
    ftype = STREAM_BASE | (0x04 if with_off else 0) | (0x02 if with_len else 0) | (1 if fin else 0)
    out = bytearray([ftype])
    out += enc(stream_id)
    if with_off:
        out += enc(offset)
    if with_len:
        out += enc(len(data))
    out += data
    return bytes(out)


def encode_max_data(limit: int) -> bytes:
    return enc(MAX_DATA) + enc(limit)


def encode_max_stream_data(stream_id: int, limit: int) -> bytes:
    return enc(MAX_STREAM_DATA) + enc(stream_id) + enc(limit)


def encode_max_streams(limit: int, uni: bool = False) -> bytes:
    return enc(MAX_STREAMS_UNI if uni else MAX_STREAMS_BIDI) + enc(limit)


def encode_data_blocked(limit: int) -> bytes:
    return enc(DATA_BLOCKED) + enc(limit)


def encode_stream_data_blocked(stream_id: int, limit: int) -> bytes:
    return enc(STREAM_DATA_BLOCKED) + enc(stream_id) + enc(limit)


def encode_streams_blocked(limit: int, uni: bool = False) -> bytes:
    return enc(STREAMS_BLOCKED_UNI if uni else STREAMS_BLOCKED_BIDI) + enc(limit)


def encode_new_connection_id(seq: int, retire_prior_to: int, cid: bytes, token: bytes) -> bytes:
    """No validation: wrong-sized ``cid`` / ``token`` are written as given."""
    return (
        enc(NEW_CONNECTION_ID)
        + enc(seq)
        + enc(retire_prior_to)
        + bytes([len(cid)])
        + bytes(cid)
        + bytes(token)
    )


def encode_retire_connection_id(seq: int) -> bytes:
    return enc(RETIRE_CONNECTION_ID) + enc(seq)


def encode_path_challenge(data: bytes) -> bytes:
    return enc(PATH_CHALLENGE) + bytes(data)


def encode_path_response(data: bytes) -> bytes:
    return enc(PATH_RESPONSE) + bytes(data)


def encode_connection_close(error_code: int, frame_type=None, reason: bytes = b"") -> bytes:
    """``frame_type=None`` builds the application variant (0x1d); an integer
    builds the transport variant (0x1c)."""
    if frame_type is None:
        return enc(CONNECTION_CLOSE_APP) + enc(error_code) + enc(len(reason)) + bytes(reason)
    return (
        enc(CONNECTION_CLOSE)
        + enc(error_code)
        + enc(frame_type)
        + enc(len(reason))
        + bytes(reason)
    )


def encode_handshake_done() -> bytes:
    return enc(HANDSHAKE_DONE)


def encode_datagram(data: bytes, with_len: bool = True) -> bytes:
    if with_len:
        return enc(DATAGRAM_LEN) + enc(len(data)) + bytes(data)
    return enc(DATAGRAM) + bytes(data)


def encode_frame(frame: Frame) -> bytes:
    """Canonical (shortest varints) encoding of a ``Frame`` as produced by
    ``parse_frames`` or built by hand with the same field names."""
    t = frame.type
    f = frame.fields
    if t == PADDING:
        return encode_padding(f.get("length", 1))
    if t == PING:
        return encode_ping()
    if t == HANDSHAKE_DONE:
        return encode_handshake_done()
    if t == ACK or t == ACK_ECN:
        ecn = f.get("ecn")
        if t == ACK_ECN and ecn is None:
            ecn = (0, 0, 0)
        return encode_ack(f["ranges"], f["delay"], ecn if t == ACK_ECN else None)
    if t == RESET_STREAM:
        return encode_reset_stream(f["stream_id"], f["error_code"], f["final_size"])
    if t == STOP_SENDING:
        return encode_stop_sending(f["stream_id"], f["error_code"])
    if t == CRYPTO:
        return encode_crypto(f["offset"], f["data"])
    if t == NEW_TOKEN:
        return encode_new_token(f["token"])
    if 0x08 <= t <= 0x0F:
        return encode_stream(
            f["stream_id"],
            f.get("offset", 0),
            f["data"],
            bool(t & 0x01),
            with_len=bool(t & 0x02),
            with_off=bool(t & 0x04),
        )
    if t == MAX_DATA:
        return encode_max_data(f["limit"])
    if t == MAX_STREAM_DATA:
        return encode_max_stream_data(f["stream_id"], f["limit"])
    if t == MAX_STREAMS_BIDI or t == MAX_STREAMS_UNI:
        return encode_max_streams(f["limit"], uni=t == MAX_STREAMS_UNI)
    if t == DATA_BLOCKED:
        return encode_data_blocked(f["limit"])
    if t == STREAM_DATA_BLOCKED:
        return encode_stream_data_blocked(f["stream_id"], f["limit"])
    if t == STREAMS_BLOCKED_BIDI or t == STREAMS_BLOCKED_UNI:
        return encode_streams_blocked(f["limit"], uni=t == STREAMS_BLOCKED_UNI)
    if t == NEW_CONNECTION_ID:
        return encode_new_connection_id(f["seq"], f["retire_prior_to"], f["cid"], f["token"])
    if t == RETIRE_CONNECTION_ID:
        return encode_retire_connection_id(f["seq"])
    if t == PATH_CHALLENGE:
        return encode_path_challenge(f["data"])
    if t == PATH_RESPONSE:
        return encode_path_response(f["data"])
    if t == CONNECTION_CLOSE:
        return encode_connection_close(f["error_code"], f["frame_type"], f.get("reason", b""))
    if t == CONNECTION_CLOSE_APP:
        return encode_connection_close(f["error_code"], None, f.get("reason", b""))
    if t == DATAGRAM or t == DATAGRAM_LEN:
        return encode_datagram(f["data"], with_len=t == DATAGRAM_LEN)
    raise ValueError("cannot encode frame type 0x%x" % t)


def encode_frames(frames) -> bytes:
    return b"".join(encode_frame(f) for f in frames)
