"""C08 part (b): in-flight bytes on the wire versus the congestion window."""
from checks.wire_oracles import C08WireOracle
from sim.goals import DeliveryGoal
from sim.harness import run_resumed, run_transport

PROFILE = {"faults": ("drop", "dup", "delay", "blackout", "timer-late", "rebind"), "small_limits": 0.2, "big_cert_p": 0.3,
           "blackout_on_accept_p": 0.2, "retry_p": 0.15, "allow_vn": True,
           "sizes": (0, 1, 100, 1200, 6000, 20000, 66000, 66000, 200000)}


def run_wire(seed, tier="quick", replay=None, variant="wire"):
    holder = {}

    def make(mon):
        holder["o"] = C08WireOracle()
        return [holder["o"], DeliveryGoal()]

    def extra(sim, s):
        o = holder["o"]
        s["extra"]["transmit_calls_judged"] = o.n_calls
        s["probes"]["window_limited_calls"] = o.n_limited

    return run_transport(seed, PROFILE, make, replay=replay, monitor=True, variant=variant, extra_summary=extra)


RESUMED = {"faults": ("drop", "dup", "delay", "blackout", "timer-late"), "t_adv_max": 3.0, "max_ops": 6,
           "datagram_sizes": (1200, 1252, 1350, 1400, 1472), "sizes": (1200, 6000, 20000, 66000)}


def run_wire_resumed(seed, tier="quick", replay=None, variant="wire_resumed"):
    """the restart fault: a resumed connection whose client fills its window with 0-RTT data before the
    handshake finishes (coalesced Initial / Handshake / 1-RTT datagrams built under a nearly full window)"""
    holder = {}

    def make(mon):
        holder["o"] = C08WireOracle()
        return [holder["o"], DeliveryGoal()]

    def extra(sim, s):
        o = holder["o"]
        s["extra"]["transmit_calls_judged"] = o.n_calls
        s["probes"]["window_limited_calls"] = o.n_limited

    early = [((13000, False), (9000, False), (20000, True), (300, False))[seed % 4]]
    return run_resumed(seed, replay, dict(RESUMED), make, variant, early_writes=early, extra_summary=extra)
