"""C09 A live connection always has a timer, and closing always terminates."""
from checks._common import ASSUMPTIONS_TRANSPORT, COMPONENTS_TRANSPORT, plan
from sim.forger import Forger
from sim.goals import DeliveryGoal
from sim.harness import run_transport
from sim.kernel import Violation
from sim.transport import Oracle
from wire import frames as wf

PROPERTY = "C09"
NAME = "c09"
LEVEL = "exploration"
RULE = ("one seed -> C01-style script extended with close() (any error code / frame type / reason, at any point incl. "
        "during the handshake), fatal protocol errors provoked by one forged frame, peer closes in every packet number "
        "space, peer crash, blackout to the end, stalled endpoints and late timers. Oracles: get_timer() is a finite "
        "number after every API call from connect()/first datagram until ConnectionTerminated is popped; once closing "
        "starts (connection state CLOSING/DRAINING observed after an API call) exactly one ConnectionTerminated arrives "
        "no later than start + 3 x PTO (read from the recovery object at that instant) + injected timer lateness; no "
        "datagram is sent after the closing packets; nothing is emitted after the termination event whatever arrives "
        "later; a silent peer leads to termination within max(idle timeout, 3 PTO) of the last accepted datagram, and an idle timeout never comes earlier than the smaller non-zero advertised period after the last event a processed packet caused (one side advertises max_idle_timeout = 0 in a quarter of the runs). "
        "non-trivial = a close, crash or fault happened; distinct = hash of fates + ops + configuration")
ASSUMPTIONS = ASSUMPTIONS_TRANSPORT + [
    "closing start is observed white-box (connection state after each API call), the anchor named by the property",
    "after termination the driver keeps delivering datagrams (as the asyncio adapter does) to check that nothing "
    "more is emitted",
]
COMPONENTS = COMPONENTS_TRANSPORT
PLAN = plan(60, 900, ["close", "close", "crash", "fatal"])

OPS = {"write": 8, "fin": 2, "reset": 1, "stop": 1, "ping": 1.5, "key_update": 0.7, "change_cid": 0.7, "close": 2.5}
FAULTS = ("drop", "dup", "delay", "blackout", "timer-late", "clock", "stall")
IDLE = (4.0, 9.0, 20.0, 60.0)
# events that only a successfully processed packet of the peer can cause
RX_EVENTS = ("HandshakeCompleted", "ProtocolNegotiated", "StreamDataReceived", "StreamReset", "StopSendingReceived",
             "PingAcknowledged", "DatagramFrameReceived")


def op_close(sim, ep, target, size, fin):
    codes = (0, 0, 1, 0xA, 0x100, 0x1234, (1 << 62) - 1)
    code = codes[target % len(codes)]
    ftype = (None, None, 0, 6, 0x1C, 0x3FFF)[size % 6]
    # (the last one holds lone surrogates: a str that has no UTF-8 encoding)
    reason = ("", "bye", "x" * 200, "éè中" * 10, "y" * 1500, "a\udcff\ud800b")[(size // 7) % 6]
    sim.k.trace("op", ep.name, "close", code, ftype, len(reason))
    sim.op_log.append((round(sim.k.now, 6), ep.name, "close", code, ftype, len(reason)))
    ep.api("close", code, ftype, reason)
    ep._closing = True
    ep.pump()
    state = ep.conn._state.name
    if state not in ("CLOSING", "DRAINING", "TERMINATED"):
        # "starting to close" of a local close is the application's close() call followed by its
        # datagrams_to_send(): the closing period must have begun by then, whatever the path allows
        raise Violation("c09.closing", "close-did-not-start-closing:" + state,
                        "%s: close(0x%x) followed by datagrams_to_send() at t=%.4f left the connection in state %s" % (
                            ep.name, code, sim.k.now, state))


PROFILES = {
    "close": {"faults": FAULTS, "op_weights": OPS, "custom_ops": {"close": op_close}, "idle_timeouts": IDLE, "idle_zero_p": 0.25,
              "poke_after_termination": True, "fair_budget": 150.0, "t_adv_max": 5.0, "accept_any_first": True,
              "allow_vn": True, "allow_no_common_version": True, "blackout_on_accept_p": 0.3},
    "crash": {"faults": FAULTS + ("peer-crash",), "op_weights": dict(OPS, close=0.5),
              "custom_ops": {"close": op_close}, "idle_timeouts": IDLE, "idle_zero_p": 0.25, "poke_after_termination": True,
              "fair_budget": 150.0, "t_adv_max": 5.0, "accept_any_first": True, "blackout_on_accept_p": 0.3},
    "fatal": {"faults": ("drop", "dup", "delay", "timer-late"), "op_weights": dict(OPS, close=0.3),
              "custom_ops": {"close": op_close}, "idle_timeouts": IDLE, "idle_zero_p": 0.25, "poke_after_termination": True,
              "fair_budget": 150.0, "t_adv_max": 5.0, "fatal_frames": True, "accept_any_first": True},
}


def own_pto(conn):
    """Probe timeout per RFC 9002 6.2.1 from the endpoint's RTT estimate (no back-off), computed
    here rather than by the code under test so that the 3 x PTO bound is not self-referential."""
    loss = conn._loss
    if not loss._rtt_initialized:
        return 2 * loss._rtt_initial
    return loss._rtt_smoothed + max(4 * loss._rtt_variance, 0.001) + loss.max_ack_delay


JUNK_KINDS = ("short-initial", "random", "short-header", "flipped-initial", "empty-ish")


class C09Oracle(Oracle):
    def __init__(self, mon):
        self.mon = mon
        self.st = {}
        self.n_timer_checked = 0
        self.n_closed = 0
        self.kinds = set()
        self.junk_done = False

    def on_start(self, sim):
        self.sim = sim
        for ep in sim.endpoints:
            self.st[ep.name] = {"closing": None, "terminated_events": 0, "dgrams_after": 0, "last_rx": None,
                                "allowed_call": False, "started": ep.is_client}
        if sim.profile.get("fatal_frames"):
            self.ch = sim.ch.stream("fatal")
            self.forger = Forger(sim, self.mon)
            t = sim.cfg["t_adv"] * (1 + self.ch.choose(15)) / 16.0
            sim.k.at(t, self.fatal, tag="app")

    def fatal(self):
        """one forged frame that is a fatal protocol error for the target"""
        sim = self.sim
        target = sim.endpoints[self.ch.choose(2)]
        if target.conn is None or target.terminated or not target.handshake_complete or target.peer.conn is None:
            return
        frames = (b"\x3f", wf.encode_handshake_done() if target.is_client is False else wf.encode_new_token(b""),
                  wf.encode_max_streams((1 << 60) + 1), wf.encode_stream(3 if target.is_client else 2, 0, b"x", False),
                  wf.encode_retire_connection_id(999), b"\x08")
        payload = frames[self.ch.choose(len(frames))]
        pkt = self.forger.build(target.peer, "1rtt", payload, pn=self.forger.next_pn(target.peer, "app", 500))
        if pkt is None:
            return
        self.kinds.add("fatal-frame")
        d = self.forger.inject(target, pkt, tag="forged-fatal")
        try:
            target.on_datagram(d, 0)
        except Exception:
            pass

    # --- timer
    def on_timer_value(self, ep, value):
        s = self.st[ep.name]
        if ep.terminated or ep.conn is None:
            return
        self.n_timer_checked += 1
        if value is None or not isinstance(value, (int, float)) or value != value or value in (
                float("inf"), float("-inf")):
            raise Violation("c09.timer", "get_timer-not-finite",
                            "%s: get_timer() returned %r while the connection is live (state %s) at t=%.4f" % (
                                ep.name, value, ep.conn._state, self.sim.k.now))

    # --- closing detection (after each API call)
    def on_api_call(self, ep, name, args):
        # called BEFORE the call; remember which call is in progress
        self.cur = (ep.name, name)

    def after_step(self):
        for ep in self.sim.endpoints:
            self._observe(ep)
            seen = self.st[ep.name].pop("peer_close_seen", None)
            if seen is not None and ep.conn is not None and not ep.broken and \
                    ep.conn._state.name not in ("CLOSING", "DRAINING", "TERMINATED"):
                raise Violation("c09.peer-close", "close-frame-not-acted-upon:" + ep.conn._state.name,
                                "%s received the peer's CONNECTION_CLOSE in a 1-RTT packet at t=%.4f (datagram: %s) and "
                                "is still in state %s: the closing period has not started" % (
                                    ep.name, seen[0], seen[1], ep.conn._state.name))
            if ep.stalled_until is not None:
                self.st[ep.name]["stall_end"] = ep.clock_offset + ep.stalled_until * ep.clock_rate

    def _observe(self, ep):
        conn = ep.conn
        if conn is None:
            return
        s = self.st[ep.name]
        state = conn._state.name
        if s["closing"] is None and state in ("CLOSING", "DRAINING") and not ep.terminated:
            pto = own_pto(conn)
            s["closing"] = {"at": ep.now(), "pto": pto, "state": state, "g": self.sim.k.now}
            self.kinds.add(state)

    def junk_first(self, dgram):
        """Before the client's first datagram arrives, hand the fresh server connection something it
        must drop: from then on it must name a timer (and eventually idle out)."""
        sim = self.sim
        ch = sim.ch.stream("junk")
        if not ch.chance(0.5):
            return
        kind = JUNK_KINDS[ch.choose(len(JUNK_KINDS))]
        data = dgram.data
        if kind == "short-initial":
            junk = data[:600 + ch.choose(500)]
        elif kind == "random":
            junk = bytes((17 * i + ch.choose(7)) & 0xFF for i in range(1 + ch.choose(1300)))
        elif kind == "short-header":
            junk = bytes([0x40 | ch.choose(0x40)]) + data[6:6 + 8] + bytes(30 + ch.choose(40))
        elif kind == "flipped-initial":
            b = bytearray(data)
            b[len(b) // 2] ^= 0x55
            junk = bytes(b)
        else:
            junk = data[:1 + ch.choose(6)]
        self.kinds.add("junk-first:" + kind)
        from sim.transport import Datagram

        d = Datagram()
        d.id = sim.net.next_id
        sim.net.next_id += 1
        d.sender = "junk"
        d.data = junk
        d.src = dgram.src
        d.dst = dgram.dst
        d.sent_at = sim.k.now
        d.fate = "junk"
        d.copies = 1
        d.phase = "adv"
        sim.k.trace("junk-first", kind, len(junk))
        sim.k.at(sim.k.now + 1e-5, sim.net._arrive_junk, d, tag="net")

    def on_datagram_sent(self, ep, dgram):
        if ep.is_client and not self.junk_done and self.sim.profile.get("accept_any_first"):
            self.junk_done = True
            self.junk_first(dgram)
        s = self.st[ep.name]
        self._note_tx(ep, dgram)
        if ep.terminated:
            raise Violation("c09.after-termination", "datagram-after-termination",
                            "%s sent a %d-byte datagram after it reported termination" % (ep.name, len(dgram.data)))
        c = s["closing"]
        if c is not None:
            # closing was observed at the end of an earlier kernel step: everything sent now comes
            # after the closing packets
            raise Violation("c09.closing", "datagram-after-closing-packets:" + c["state"],
                            "%s (in %s since t=%.4f) sent another %d-byte datagram at t=%.4f: %s" % (
                                ep.name, c["state"], c["g"], len(dgram.data), self.sim.k.now,
                                [p.summary() for p in (dgram.meta or [])]))

    def on_datagram_delivered(self, ep, dgram, copy_index):
        s = self.st[ep.name]
        s["last_rx"] = self.sim.k.now
        s["last_rx_local"] = ep.now()
        s["first_tx_after_rx"] = None
        # a peer close the endpoint can read (1-RTT packet, its handshake is complete): "starting to close"
        # (not in the fatal variant: forged packets there use up packet numbers of the genuine sender, whose
        # closing packet may then be a duplicate for the receiver)
        if ep.handshake_complete and not ep.terminated and dgram.sender in ("client", "server") and \
                not self.sim.profile.get("fatal_frames"):
            for p in dgram.meta or []:
                if not p.opaque and p.ptype == "1rtt" and any(
                        f.name in ("CONNECTION_CLOSE", "CONNECTION_CLOSE_APP") for f in p.frames):
                    s["peer_close_seen"] = (self.sim.k.now, [q.summary() for q in dgram.meta])

    def _note_tx(self, ep, dgram):
        # RFC 9000 10.1: the idle period restarts when a packet is received, and when the FIRST ack-eliciting
        # packet after that is sent
        s = self.st[ep.name]
        if s.get("first_tx_after_rx") is None and any(
                (not p.opaque) and p.ack_eliciting for p in (dgram.meta or [])):
            s["first_tx_after_rx"] = ep.now()

    def _check_idle_deadline(self, ep):
        """an idle timeout must not come later than the negotiated period after the last activity"""
        s = self.st[ep.name]
        conn = ep.conn
        idle = ep.config.idle_timeout
        peer_zero = getattr(ep.peer, "advertises_idle_zero", False)  # 0 = "no idle timeout": only ours counts
        if getattr(conn, "_remote_max_idle_timeout", None) is not None and ep.peer.config is not None and not peer_zero:
            idle = min(idle, ep.peer.config.idle_timeout)  # the peer's parameters have been processed
        idle = max(idle, 3 * own_pto(conn))
        # ... and not earlier: the period is at least the smaller of the non-zero advertised values (RFC 9000 10.1).
        # Events that only a processed packet can cause give a lower bound on the last restart of the idle period.
        floor = ep.config.idle_timeout
        if ep.peer.config is not None and not peer_zero:
            floor = min(floor, ep.peer.config.idle_timeout)
        if s.get("last_rx_event") is not None:
            self.n_idle_early_checked = getattr(self, "n_idle_early_checked", 0) + 1
            if ep.now() - s["last_rx_event"] < floor - 1e-6:
                raise Violation("c09.idle", "idle-timeout-earlier-than-negotiated" + (":peer-advertised-0" if peer_zero else ""),
                                "%s: idle timeout reported %.3f s after it processed a packet (event emitted at %.3f); the "
                                "negotiated idle period is at least %.3f s (own %.1f, peer advertised %s)" % (
                                    ep.name, ep.now() - s["last_rx_event"], s["last_rx_event"], floor,
                                    ep.config.idle_timeout,
                                    "0" if peer_zero else ep.peer.config.idle_timeout if ep.peer.config else "?"))
        acts = [x for x in (s.get("last_rx_local"), s.get("first_tx_after_rx")) if x is not None]
        if not acts:
            return
        late = self.sim.last_timer_lateness.get(ep.name, 0.0)
        took = ep.now() - max(acts)
        if s.get("stall_end") is not None and s["stall_end"] >= max(acts):
            return  # a stalled endpoint handles its timer when it wakes up
        self.n_idle_checked = getattr(self, "n_idle_checked", 0) + 1
        if took > idle + late + 0.005:
            raise Violation("c09.idle", "idle-timeout-later-than-negotiated",
                            "%s: idle timeout reported %.3f s after its last activity (last datagram received / first "
                            "ack-eliciting packet sent after it); the negotiated idle period is %.3f s (own %.1f, "
                            "peer %.1f, 3 x PTO %.3f), timer lateness %.4f" % (
                                ep.name, took, idle, ep.config.idle_timeout,
                                ep.peer.config.idle_timeout if ep.peer.config else -1, 3 * own_pto(conn), late))

    def on_event(self, ep, ev):
        s = self.st[ep.name]
        name = type(ev).__name__
        if s["terminated_events"] > 0:
            raise Violation("c09.after-termination", "event-after-termination:" + name,
                            "%s emitted %s after ConnectionTerminated" % (ep.name, name))
        if name in RX_EVENTS:
            s["last_rx_event"] = ep.now()
        if name == "ConnectionTerminated":
            s["terminated_events"] += 1
            self.n_closed += 1
            c = s["closing"]
            if c is None:
                self._observe(ep)
                c = s["closing"]
            if ev.reason_phrase == "Idle timeout" and ev.error_code == 0x1 and s["closing"] is None:
                self._check_idle_deadline(ep)
            if c is not None and ev.reason_phrase != "Idle timeout":
                late = self.sim.last_timer_lateness.get(ep.name, 0.0)
                took = ep.now() - c["at"]
                bound = 3 * c["pto"] + late + 1e-3
                if took > bound:
                    raise Violation("c09.closing", "termination-later-than-3-pto",
                                    "%s: termination reported %.4f s after closing started (3 x PTO = %.4f, timer "
                                    "lateness %.4f)" % (ep.name, took, 3 * c["pto"], late))

    def goal_reached(self):
        return False  # run until both ends terminated (or the time cap)

    def at_end(self, reason):
        if reason in ("step-cap", "api-exception"):
            return
        sim = self.sim
        for ep in sim.endpoints:
            s = self.st[ep.name]
            if ep.conn is None or ep.crashed or ep.broken or ep.terminated:
                continue
            c = s["closing"]
            if c is not None:
                raise Violation("c09.closing", "never-terminated:" + c["state"],
                                "%s entered %s at t=%.3f (PTO %.3f) and had not reported termination when the run "
                                "ended at t=%.3f (%s)" % (ep.name, c["state"], c["g"], c["pto"], sim.k.now, reason))
            # idle: nothing delivered for longer than max(idle, 3 PTO) + slack
            last = s["last_rx"] if s["last_rx"] is not None else 0.0
            idle = max(ep.config.idle_timeout, 3 * ep.conn._loss.get_probe_timeout())
            quiet = sim.k.now - last
            if quiet > idle + 3.0 and (ep.peer.crashed or ep.peer.terminated):
                raise Violation("c09.idle", "no-idle-timeout",
                                "%s received nothing for %.2f s (idle timeout %.2f s, peer silent) and still has not "
                                "terminated at t=%.3f" % (ep.name, quiet, idle, sim.k.now))


def api_violation(sim):
    who, name, etype, where, msg = sim.api_exception
    return Violation("c09.api-raised", "%s@%s:%s" % (etype, where, name),
                     "%s.%s() raised %s at %s: %s" % (who, name, etype, where, msg))


def run_one(seed, tier="quick", variant=None, replay=None):
    variant = variant or "close"
    holder = {}

    def make(mon):
        holder["o"] = C09Oracle(mon)
        return [holder["o"]]

    def extra(sim, s):
        o = holder["o"]
        s["extra"]["get_timer_values_checked"] = o.n_timer_checked
        s["extra"]["terminations_observed"] = o.n_closed
        if getattr(o, "n_idle_checked", 0):
            s["probes"]["idle_timeout_not_later_checked"] = 1
        if getattr(o, "n_idle_early_checked", 0):
            s["probes"]["idle_timeout_not_earlier_checked"] = 1
        if sim.cfg.get("idle_zero_side") is not None:
            s["probes"]["one_side_advertises_max_idle_timeout_0"] = 1
        for k in o.kinds:
            s["probes"]["closing:" + k] = 1
        s["states"] = sorted(o.kinds)

    out = run_transport(seed, PROFILES[variant], make, replay=replay, monitor=True, variant=variant,
                        extra_summary=extra, foreign_api_exception=api_violation)
    out.nontrivial = bool(holder["o"].kinds) or out.nontrivial
    return out
