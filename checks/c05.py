"""C05 Network input can never make the QUIC/TLS API raise."""
from checks._common import ASSUMPTIONS_TRANSPORT, COMPONENTS_TRANSPORT, plan
from sim.goals import DeliveryGoal
from sim.harness import run_transport
from sim.hostile import HostileInjector
from sim.kernel import Violation

PROPERTY = "C05"
NAME = "c05"
LEVEL = "exploration"
RULE = ("one seed -> lossy C01-style run (client and server, all connection states) into which hostile datagrams are "
        "injected at seeded points right before genuine deliveries: random bytes of all lengths, mutated genuine "
        "datagrams (flip / truncate / extend / splice / garbage prefix), coalesced mixes of packet types with a failing "
        "first packet, correctly protected packets (genuine keys) whose payload comes from a frame grammar with "
        "boundary field values, truncations, repetitions, unknown and non-minimal frame types, any packet-number length "
        "and jumps, wrong DCIDs and reserved bits, and genuine handshake packets whose CRYPTO payload was rewritten and "
        "re-protected. Oracle: no exception leaves receive_datagram / handle_timer / datagrams_to_send / get_timer / "
        "next_event until ConnectionTerminated is popped. non-trivial = at least one hostile datagram was processed; "
        "distinct = hash of fates + ops + configuration + hostile kinds")
ASSUMPTIONS = ASSUMPTIONS_TRANSPORT + [
    "hostile TLS is produced by rewriting genuine CRYPTO payloads (with the keys); a full scripted TLS adversary "
    "is used in C11, and its non-Alert exceptions are reported there",
]
COMPONENTS = COMPONENTS_TRANSPORT
PLAN = plan(70, 1200, ["hostile", "hostile", "hostile_handshake", "hostile_small_limits", "hostile_resumed"])

FAULTS = ("drop", "dup", "delay", "blackout", "timer-late", "clock", "rebind")
PROFILES = {
    "hostile": {"faults": FAULTS, "hostile_rate": 0.15, "gap_flood_p": 0.05, "cid_dance_p": 0.05, "late_retry_p": 0.05},
    "hostile_handshake": {"faults": ("drop", "dup", "delay"), "hostile_rate": 0.5, "t_adv_max": 1.5, "max_ops": 4,
                          "retry_p": 0.3, "allow_vn": True,
                          "retry_token_pads": (0, 0, 0, 300, 1000, 1100, 1150, 1180, 1250, 1300, 1380)},
    "hostile_resumed": {"faults": ("drop", "dup", "delay"), "hostile_rate": 0.5, "t_adv_max": 1.5, "max_ops": 4},
    "hostile_small_limits": {"faults": FAULTS, "hostile_rate": 0.15, "small_limits": 0.9,
                             "small_stream_limits": 0.5},
}


def api_violation(sim):
    who, name, etype, where, msg = sim.api_exception
    return Violation("c05.api-raised", "%s@%s" % (etype, where),
                     "%s.%s() raised %s at %s: %s" % (who, name, etype, where, msg))


def run_one(seed, tier="quick", variant=None, replay=None):
    variant = variant or "hostile"
    holder = {}

    def make(mon):
        holder["h"] = HostileInjector(mon, rate=PROFILES[variant]["hostile_rate"])
        return [holder["h"], DeliveryGoal()]

    def extra(sim, s):
        h = holder["h"]
        for k, v in h.counts.items():
            s["probes"]["hostile:" + k] = v
        s["extra"]["hostile_datagrams"] = sum(h.counts.values())
        s["states"] = [repr(x) for x in h.states]
        s["extra"]["terminated_endpoints"] = sum(1 for e in sim.endpoints if e.terminated)

    if variant == "hostile_resumed":
        # the restart fault: a resumed connection with 0-RTT data, hostile datagrams (incl. forged 0-RTT packets
        # carrying arbitrary frames) while the server still accepts early data
        from sim.harness import run_resumed
        from sim.runner import violation_dict

        keep = {}
        out = run_resumed(seed, replay, dict(PROFILES[variant]), make, variant, early_writes=[(300, False)],
                          extra_summary=extra, keep=keep)
        sim2 = keep.get("sim2")
        if out.violation is None and sim2 is not None and sim2.api_exception:
            out.violation = violation_dict(api_violation(sim2), sim2.k)
            out.summary["reason"] = "violation"
            out.summary["aborted"] = False
        if "h" in holder:
            out.nontrivial = sum(holder["h"].counts.values()) > 0
        return out
    out = run_transport(seed, PROFILES[variant], make, replay=replay, monitor=True, variant=variant,
                        extra_summary=extra, foreign_api_exception=api_violation)
    h = holder["h"]
    out.nontrivial = sum(h.counts.values()) > 0
    return out
