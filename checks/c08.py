"""C08 Loss-recovery and congestion accounting stay consistent.

variant "recovery" = part (a): real QuicPacketRecovery (+ Reno / CUBIC) and real QuicPacketSpace objects on a
virtual clock, driven by chooser-generated histories; the ledger is re-derived from sent_packets after every call.
(variant "wire" = part (b) is added separately.)"""
import hashlib

from sim import bootstrap
from sim.chooser import Chooser
from sim.kernel import Violation
from sim.runner import Outcome, stable_hash, violation_dict

PROPERTY = "C08"
NAME = "c08"
LEVEL = "exploration"
RULE = (
    "recovery: each run = one seed -> configuration (reno|cubic, max_datagram_size 1200|1350|1472, initial_rtt, 1-3 "
    "packet number spaces, start time, peer_completed_address_validation) + a history of on_packet_sent (flag "
    "combinations the packet builder can produce, strictly increasing packet numbers with gaps), on_ack_received "
    "with arbitrary non-empty range sets (never-sent, already acknowledged, already lost, overlapping, out of order, "
    "any ack_delay), on_loss_detection_timeout (only when the loss-detection time is due, as the connection does), "
    "discard_space, reschedule_data, at arbitrary non-decreasing times; after every call the ledger is recomputed "
    "from QuicPacketSpace.sent_packets. A run is non-trivial when at least one of: ack of a never-sent / already "
    "resolved number, a loss (packet or time threshold), a PTO, a discard with packets in flight occurred; distinct "
    "= distinct hash of the sequence of (operation, space, outcome class). "
    "wire: two real endpoints on the simulated lossy network (as C01); before every datagrams_to_send() the oracle "
    "reads congestion_window - bytes_in_flight, then sums the in-flight bytes (packets with anything other than "
    "ACK / CONNECTION_CLOSE, plus datagram padding) decoded from the datagrams of that call; they must not exceed "
    "that budget, apart from one datagram after a timer fired (probe) until the probe was actually sent"
)
ASSUMPTIONS = [
    "sampling, not proof: a clean batch is evidence only for the histories drawn",
    "the driver calls the recovery API the way QuicConnection does: packets carry sent_time = now, packet numbers "
    "strictly increase per space, in_flight False implies not ack-eliciting, crypto implies ack-eliciting, sent_bytes "
    "> 0, no sending or acknowledging in a discarded space, each space discarded at most once, "
    "on_loss_detection_timeout only when get_loss_detection_time() is due",
]
COMPONENTS = {
    "real": ["QuicPacketRecovery", "QuicPacketSpace", "RenoCongestionControl", "CubicCongestionControl",
             "QuicPacketPacer", "RangeSet", "QuicSentPacket"],
    "stub": ["virtual clock", "history generator (stands for the connection and the peer)",
             "recording delivery handlers", "send_probe callback",
             "wire variant: network, timers, scripted application (real QuicConnection x2, independent wire decoder)"],
}
PLAN = {
    "quick": {"budget_s": 50, "max_runs": 10 ** 7, "variants": ["recovery", "wire", "wire_resumed"]},
    "thorough": {"budget_s": 900, "max_runs": 10 ** 9, "variants": ["recovery", "wire", "wire_resumed"]},
}

_A = {}


def _aq():
    if not _A:
        bootstrap.load()
        from aioquic import tls
        from aioquic.quic.packet import QuicPacketType
        from aioquic.quic.packet_builder import QuicDeliveryState, QuicSentPacket
        from aioquic.quic.rangeset import RangeSet
        from aioquic.quic.recovery import QuicPacketRecovery, QuicPacketSpace

        _A.update(Recovery=QuicPacketRecovery, Space=QuicPacketSpace, Sent=QuicSentPacket, RangeSet=RangeSet,
                  ACKED=QuicDeliveryState.ACKED, LOST=QuicDeliveryState.LOST,
                  epochs=(tls.Epoch.INITIAL, tls.Epoch.HANDSHAKE, tls.Epoch.ONE_RTT),
                  types=(QuicPacketType.INITIAL, QuicPacketType.HANDSHAKE, QuicPacketType.ONE_RTT))
    return _A


# (in_flight, is_ack_eliciting, is_crypto_packet) as start_frame()/end_packet() can set them
KINDS = (
    ("data", True, True, False),
    ("crypto", True, True, True),
    ("ack_only", False, False, False),  # ACK or CONNECTION_CLOSE only
    ("ack_padded", True, False, False),  # ACK + PADDING
)
DT = (0.0, 0.000001, 0.001, 0.01, 0.05, 0.3, 1.0, 2.5, 10.0, 100.0)


class RecoverySim:
    def __init__(self, ch):
        a = _aq()
        self.a = a
        cfg = ch.stream("config")
        self.ops = ch.stream("ops")
        self.cc = ("reno", "cubic")[cfg.choose(2)]
        self.mds = (1200, 1350, 1472)[cfg.choose(3)]
        self.initial_rtt = (0.1, 0.001, 0.01, 0.333, 1.0, 3.0)[cfg.choose(6)]
        self.n_spaces = (3, 1, 2)[cfg.choose(3)]
        self.now = (1.0, 0.0, 1000.0, 1000000.0)[cfg.choose(4)]
        pcav = not cfg.chance(0.5)
        self.steps = 5 + cfg.geometric(250, 60)
        # weights of: advance time (0 = benign), send, ack, timer, discard, reschedule_data, address validated
        self.weights = ((6, 10, 5, 3, 0.3, 0.5, 0.2), (3, 10, 2, 2, 0, 0, 0), (4, 6, 8, 4, 1, 1, 0.5),
                        (8, 12, 3, 1, 0.1, 0.1, 0))[cfg.choose(4)]
        self.probes_sent = 0
        self.rec = a["Recovery"](congestion_control_algorithm=self.cc, initial_rtt=self.initial_rtt,
                                 max_datagram_size=self.mds, peer_completed_address_validation=pcav,
                                 send_probe=self._send_probe)
        self.spaces = [a["Space"]() for _ in range(self.n_spaces)]
        self.rec.spaces = list(self.spaces)
        self.discarded = [False] * self.n_spaces
        self.next_pn = [0] * self.n_spaces
        # per space: pn -> [state, fired counts per handler]; state: 'flight' | 'acked' | 'lost' | 'expired'
        self.fate = [dict() for _ in range(self.n_spaces)]
        self.h = hashlib.sha256()
        self.shape = []
        self.head = []
        self.n_ops = 0
        self.probes = {}
        self.interesting = 0
        self.states = set()
        self.context = None  # the call in progress (for handler classification)
        self.pending_violation = None
        self.cfg = {"cc": self.cc, "max_datagram_size": self.mds, "initial_rtt": self.initial_rtt,
                    "spaces": self.n_spaces, "t0": self.now, "peer_completed_address_validation": pcav,
                    "weights": list(self.weights)}

    def _send_probe(self):
        self.probes_sent += 1

    def probe(self, name, interesting=True):
        self.probes[name] = self.probes.get(name, 0) + 1
        if interesting:
            self.interesting += 1

    def logop(self, shape, text):
        self.n_ops += 1
        self.h.update(text.encode())
        self.h.update(b"\n")
        self.shape.append(shape)
        if len(self.head) < 16:
            self.head.append(text)

    def tail(self):
        return " ; ".join(self.head) + (" ..." if self.n_ops > len(self.head) else "")

    # ---- delivery handler attached to every packet
    def handler(self, delivery, si, pn, hi):
        rec = self.fate[si][pn]
        rec[1][hi] += 1
        acked = delivery == self.a["ACKED"]
        if self.pending_violation is None:
            if self.discarded[si]:
                self.pending_violation = Violation(
                    "c08.handler-after-discard", "acked" if acked else "lost",
                    "delivery handler of packet %d in space %d fired (%s) during %s after the space was discarded" % (
                        pn, si, "ACKED" if acked else "LOST", self.context))
            elif rec[1][hi] > 1:
                self.pending_violation = Violation(
                    "c08.handler-twice", "%s-after-%s" % ("acked" if acked else "lost", rec[0]),
                    "delivery handler %d of packet %d in space %d fired a second time (%s, earlier: %s) during %s" % (
                        hi, pn, si, "ACKED" if acked else "LOST", rec[0], self.context))
        if hi == 0:
            if acked:
                rec[0] = "acked"
                self.acked_now += 1
            else:
                rec[0] = "lost"
                self.lost_now += 1
                if self.context in ("ack", "loss-timer"):
                    if pn <= self.spaces[si].largest_acked_packet - 3:
                        self.probe("loss_packet_threshold")
                    else:
                        self.probe("loss_time_threshold")
                elif self.context in ("reschedule", "pto"):
                    self.probe("crypto_rescheduled")

    # ---- the call wrapper: any exception from inside recovery is reported, then the ledger is checked
    def call(self, context, fn, **kw):
        self.context = context
        self.acked_now = self.lost_now = 0
        try:
            fn(**kw)
        except Exception as exc:
            import traceback

            where = traceback.extract_tb(exc.__traceback__)[-1]
            raise Violation("c08.call-raised", "%s:%s@%s" % (context, type(exc).__name__, where.name),
                            "%s raised %r at %s:%d at t=%.6f; ops: %s" % (
                                context, exc, where.filename.rsplit("/", 1)[-1], where.lineno, self.now, self.tail()))
        finally:
            self.context = None

    def check(self, what):
        if self.pending_violation is not None:
            v = self.pending_violation
            v.message += "; ops: " + self.tail()
            raise v
        rec = self.rec
        total = 0
        for si, sp in enumerate(self.spaces):
            n_ae = 0
            for p in sp.sent_packets.values():
                if p.in_flight:
                    total += p.sent_bytes
                if p.is_ack_eliciting:
                    n_ae += 1
            if sp.ack_eliciting_in_flight != n_ae:
                raise Violation("c08.ack-eliciting-count", "after-" + what.split("(")[0],
                                "after %s space %d has ack_eliciting_in_flight=%d but %d ack-eliciting packets in "
                                "sent_packets; ops: %s" % (what, si, sp.ack_eliciting_in_flight, n_ae, self.tail()))
        bif = rec.bytes_in_flight
        if bif < 0:
            raise Violation("c08.bytes-in-flight", "negative/after-" + what.split("(")[0],
                            "after %s bytes_in_flight=%d; ops: %s" % (what, bif, self.tail()))
        if bif != total:
            raise Violation("c08.bytes-in-flight", "mismatch/after-" + what.split("(")[0],
                            "after %s bytes_in_flight=%d but the in-flight packets still tracked in sent_packets sum "
                            "to %d; ops: %s" % (what, bif, total, self.tail()))
        cwnd = rec.congestion_window
        if cwnd < 2 * self.mds:
            raise Violation("c08.window-floor", self.cc,
                            "after %s congestion_window=%s < 2 x %d; ops: %s" % (what, cwnd, self.mds, self.tail()))
        if cwnd == 2 * self.mds:
            self.probe("cwnd_at_floor", interesting=False)
        return bif, cwnd

    # ---- operations
    def live_spaces(self):
        return [i for i in range(self.n_spaces) if not self.discarded[i]]

    def op_send(self):
        live = self.live_spaces()
        if not live:
            return
        ops, a = self.ops, self.a
        si = live[ops.choose(len(live))]
        name, in_flight, ae, crypto = KINDS[ops.weighted((6, 2, 2, 1))]
        self.next_pn[si] += ops.weighted((20, 2, 1, 1))  # gaps: packet numbers that are never sent
        pn = self.next_pn[si]
        self.next_pn[si] += 1
        size = (self.mds, 1200, 40, 21, 300, 900)[ops.choose(6)] if in_flight else (30, 21, 60)[ops.choose(3)]
        size = min(size, self.mds)
        nh = (1, 2, 3)[ops.choose(3)]
        p = a["Sent"](epoch=a["epochs"][si], in_flight=in_flight, is_ack_eliciting=ae, is_crypto_packet=crypto,
                      packet_number=pn, packet_type=a["types"][si], sent_time=self.now, sent_bytes=size)
        for hi in range(nh):
            p.delivery_handlers.append((self.handler, (si, pn, hi)))
        self.fate[si][pn] = ["flight", [0] * nh]
        self.call("send", self.rec.on_packet_sent, packet=p, space=self.spaces[si])
        bif, cwnd = self.check("on_packet_sent(space=%d, pn=%d, %s, %d bytes)" % (si, pn, name, size))
        if bif > cwnd:
            self.probe("sent_beyond_window", interesting=False)  # the generator is not bound by the window
        self.logop(("s", si, name), "t=%.6f send s%d #%d %s %dB -> bif=%d cwnd=%d" % (
            self.now, si, pn, name, size, bif, cwnd))

    def op_ack(self):
        live = self.live_spaces()
        if not live:
            return
        ops, a = self.ops, self.a
        si = live[ops.choose(len(live))]
        fate = self.fate[si]
        top = self.next_pn[si]
        rs = a["RangeSet"]()
        text = []
        mode = ops.weighted((6, 3, 2, 1))
        nranges = 1 + ops.geometric(4, 0.7)
        numbers = set()
        for _ in range(nranges):
            if mode == 0:  # plausible: a block ending near the highest sent number
                stop = max(1, top - ops.geometric(top, 2))
                start = max(0, stop - 1 - ops.geometric(12, 2))
            elif mode == 1:  # anywhere among what was sent, including long ago
                start = ops.choose(top + 1)
                stop = start + 1 + ops.geometric(10, 2)
            elif mode == 2:  # reaching beyond anything ever sent
                start = max(0, top - ops.choose(4))
                stop = top + 1 + ops.geometric(6, 2)
            else:  # everything
                start, stop = 0, top + ops.choose(3) + 1
            rs.add(start, stop)
            text.append("%d-%d" % (start, stop - 1))
            if stop - start <= 64:
                numbers.update(range(start, stop))
            else:
                numbers.update(n for n in fate if start <= n < stop)
                numbers.add(stop - 1)
        delay = (0.0, 0.001, 0.025, 0.5, 20.0)[ops.choose(5)]
        classes = set()
        for n in sorted(numbers):
            f = fate.get(n)
            if f is None:
                classes.add("never_sent")
            elif f[0] == "flight":
                classes.add("new")
            elif f[0] == "acked":
                classes.add("already_acked")
            elif f[0] == "lost":
                classes.add("already_lost")
        for c in sorted(classes):
            if c != "new":
                self.probe("ack_" + c)
        if not fate:
            self.probe("ack_in_empty_space", interesting=False)
        if max(numbers) < self.spaces[si].largest_acked_packet:
            self.probe("ack_out_of_order")
        self.call("ack", self.rec.on_ack_received, ack_rangeset=rs, ack_delay=delay, now=self.now,
                  space=self.spaces[si])
        bif, cwnd = self.check("on_ack_received(space=%d, ranges=%s, ack_delay=%s)" % (si, ",".join(text), delay))
        if self.lost_now:
            self.probe("ack_declared_loss", interesting=False)
        self.logop(("a", si, tuple(sorted(classes)), self.acked_now > 0, self.lost_now > 0),
                   "t=%.6f ack s%d [%s] delay=%s -> acked %d lost %d bif=%d cwnd=%d" % (
                       self.now, si, ",".join(text), delay, self.acked_now, self.lost_now, bif, cwnd))

    def op_time(self):
        dt = DT[self.ops.choose(len(DT))]
        if dt == 0.0:
            return
        self.now += dt
        self.logop(("t",), "t=%.6f (+%s)" % (self.now, dt))

    def op_timer(self):
        rec = self.rec
        t = rec.get_loss_detection_time()
        if t is None:
            self.probe("timer_none", interesting=False)
            return
        if self.now < t:
            # let the timer expire: fire at the deadline plus a lateness (0 = exactly at the deadline)
            late = (0.000001, 0.0, 0.001, 0.05, 1.0)[self.ops.choose(5)]
            self.now = t + late
        is_loss = any(sp.loss_time is not None for sp in self.spaces)
        ctx = "loss-timer" if is_loss else "pto"
        probes_before = self.probes_sent
        self.call(ctx, rec.on_loss_detection_timeout, now=self.now)
        bif, cwnd = self.check("on_loss_detection_timeout(%s)" % ctx)
        if is_loss:
            self.probe("loss_timer", interesting=False)
        else:
            self.probe("pto")
            if self.probes_sent != probes_before + 1:
                self.probe("pto_without_probe", interesting=False)
        self.logop(("T", ctx, self.lost_now > 0), "t=%.6f timeout(%s) -> lost %d pto_count=%d bif=%d cwnd=%d" % (
            self.now, ctx, self.lost_now, rec._pto_count, bif, cwnd))

    def op_discard(self):
        live = self.live_spaces()
        if not live:
            return
        si = live[self.ops.choose(len(live))]
        sp = self.spaces[si]
        n = len(sp.sent_packets)
        n_if = sum(1 for p in sp.sent_packets.values() if p.in_flight)
        for pn in sp.sent_packets:
            self.fate[si][pn][0] = "expired"
        self.call("discard", self.rec.discard_space, space=sp)
        sp.discarded = True  # what QuicConnection._discard_epoch does next
        self.discarded[si] = True
        bif, cwnd = self.check("discard_space(%d)" % si)
        self.probe("discard_with_inflight" if n_if else "discard_empty", interesting=bool(n_if))
        if sp.sent_packets:
            raise Violation("c08.bytes-in-flight", "discard-left-packets",
                            "discard_space(%d) left %d packets in sent_packets; ops: %s" % (
                                si, len(sp.sent_packets), self.tail()))
        self.logop(("D", si, n_if > 0), "t=%.6f discard s%d (%d packets, %d in flight) -> bif=%d" % (
            self.now, si, n, n_if, bif))

    def op_reschedule(self):
        self.call("reschedule", self.rec.reschedule_data, now=self.now)
        bif, cwnd = self.check("reschedule_data()")
        self.probe("reschedule_data", interesting=self.lost_now > 0)
        self.logop(("R", self.lost_now > 0), "t=%.6f reschedule_data -> lost %d bif=%d cwnd=%d" % (
            self.now, self.lost_now, bif, cwnd))

    def op_validate(self):
        if not self.rec.peer_completed_address_validation:
            self.rec.peer_completed_address_validation = True  # QuicConnection sets it on a Handshake/1-RTT ACK
            self.logop(("V",), "t=%.6f peer_completed_address_validation=True" % self.now)

    def run(self):
        table = (self.op_time, self.op_send, self.op_ack, self.op_timer, self.op_discard, self.op_reschedule,
                 self.op_validate)
        self.check("construction")
        for _ in range(self.steps):
            table[self.ops.weighted(self.weights)]()
            cc = self.rec._cc
            self.states.add((self.cc, cc.ssthresh is None, min(self.rec._pto_count, 4),
                             tuple(self.discarded), tuple(min(len(sp.sent_packets), 3) for sp in self.spaces),
                             any(sp.loss_time is not None for sp in self.spaces),
                             self.rec.congestion_window == 2 * self.mds))
        # fair tail: stop sending, let every timer fire, acknowledge nothing: all in-flight accounting must drain to
        # what is still tracked (checked by check() after each call)
        for _ in range(12):
            if self.rec.get_loss_detection_time() is None:
                break
            self.op_timer()


def run_recovery(seed, tier, replay):
    ch = Chooser(seed, replay)
    out = Outcome(seed)
    sim = RecoverySim(ch)
    reason = "completed"
    try:
        sim.run()
    except Violation as v:
        out.violation = violation_dict(v)
        out.violation["time"] = round(sim.now, 9)
        out.violation["step"] = sim.n_ops
        reason = "violation"
    out.summary = {
        "reason": reason, "steps": sim.n_ops, "sim_time": sim.now - sim.cfg["t0"], "fired": {}, "probes": dict(sim.probes),
        "states": sim.states, "extra": {"recovery_calls": sim.n_ops, "runs_" + sim.cc: 1},
        "digest": sim.h.hexdigest()[:32], "inconclusive": False, "aborted": False,
    }
    out.choices = ch.dump()
    out.nontrivial = sim.interesting > 0
    out.signature = "recovery:" + stable_hash((sim.cc, sim.n_spaces, sim.shape))
    out.sample = {"seed": seed, "variant": "recovery", "config": sim.cfg, "ops": sim.head, "n_ops": sim.n_ops,
                  "probes": dict(sim.probes), "end": reason}
    return out


def run_one(seed, tier="quick", variant=None, replay=None):
    variant = variant or "recovery"
    _aq()
    bootstrap.DET.reseed(seed)
    if variant == "recovery":
        return run_recovery(seed, tier, replay)
    if variant == "wire_resumed":
        from checks.c08_wire import run_wire_resumed

        return run_wire_resumed(seed, tier, replay)
    if variant == "wire":
        from checks.c08_wire import run_wire

        return run_wire(seed, tier, replay)
    raise ValueError("unknown variant %r" % (variant,))
