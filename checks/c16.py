"""C16 Peer stream bytes can never make the HTTP layers raise."""
import hashlib
import json

from sim import bootstrap, fixtures
from sim.chooser import Chooser
from sim.h3lib import (chunks_of, draw_cuts, gen_request_headers, gen_response_headers, interleave, varint,
                       varint_n)
from sim.kernel import Violation
from sim.runner import Outcome, stable_hash, violation_dict
from sim.transport import innermost_frame

PROPERTY = "C16"
NAME = "c16"
LEVEL = "exploration"
RULE = (
    "each run = one seed -> a hostile peer script for one target role (variants h3_client / h3_server / h0; "
    "WebTransport on or off): a chooser-length VALID prefix (control stream + SETTINGS, QPACK streams, valid "
    "messages, also with dynamic-table references) followed by grammar items: every HTTP/3 frame type x length "
    "(exact, 0, 1, +1, -1, huge, non-minimal, truncated varint) x payload (valid, empty, truncated, trailing bytes, "
    "junk), reserved/duplicate/contradictory SETTINGS, duplicate critical streams, frames on the wrong stream or in "
    "the wrong state, malformed instructions on both QPACK streams, header blocks with invalid / oversized / "
    "non-UTF-8 fields, hand-encoded field sections (literal names or static name references) with values beyond "
    "any encoder limit such as > 4300-digit content-length / :status, dangling dynamic references, push streams, WebTransport stream headers, unknown stream "
    "types, H3 datagrams with truncated quarter stream ids, stream resets; all stream bytes are split and "
    "interleaved by the chooser and fed as StreamDataReceived / DatagramFrameReceived / StreamReset events to "
    "handle_event() of a real H3Connection/H0Connection on a real QuicConnection with a finished handshake "
    "(max_datagram_size 1200..1472; a client target in 40 % of the runs with a complete but UNCONFIRMED handshake, "
    "the server's HANDSHAKE_DONE being lost, so that its close is a coalesced Handshake + 1-RTT datagram). The "
    "same script is executed without and with a QuicLogger. Oracle: handle_event returns; afterwards "
    "datagrams_to_send / get_timer / handle_timer / next_event return until termination; the qlog serialises. "
    "Non-trivial = at least one hostile item was fed; distinct = hash of the delivered event sequence"
)
ASSUMPTIONS = [
    "sampling of the grammar, not proof",
    "events are injected directly into handle_event (only event shapes the transport can produce: non-empty data "
    "or the end flag, nothing after the end of a stream, only peer-initiated or locally opened streams, datagrams "
    "only when max_datagram_frame_size was advertised); the transport's own parsing is C05's subject",
    "the application on the target only opens requests (client); it does not answer on injected streams, which "
    "the real transport below does not know",
    "pylsqpack and OpenSSL are third-party code: an exception they raise counts when it escapes handle_event",
]
COMPONENTS = {
    "real": ["QuicConnection x2 with a real handshake (target + peer)", "H3Connection (client / server role, "
             "WebTransport on/off)", "H0Connection", "QuicLogger / QuicLoggerTrace", "pylsqpack",
             "packet builder + crypto for the closing packets"],
    "stub": ["hostile peer grammar (stream bytes, datagrams, resets)", "delivery schedule", "clock",
             "in-process datagram pipe used for the handshake and for the closing packets"],
}
PLAN = {
    "quick": {"budget_s": 45, "max_runs": 10 ** 7,
              "variants": ["h3_client", "h3_server", "h3_client", "h3_server", "h0"]},
    "thorough": {"budget_s": 900, "max_runs": 10 ** 9,
                 "variants": ["h3_client", "h3_server", "h3_client", "h3_server", "h0"]},
}

CLIENT_ADDR = ("10.0.0.1", 40000)
SERVER_ADDR = ("10.0.0.2", 4433)

F_DATA, F_HEADERS, F_PRIORITY, F_CANCEL_PUSH, F_SETTINGS, F_PUSH_PROMISE = 0, 1, 2, 3, 4, 5
F_GOAWAY, F_MAX_PUSH_ID, F_DUPLICATE_PUSH, F_WT = 7, 0xD, 0xE, 0x41
FRAME_TYPES = [F_DATA, F_HEADERS, F_SETTINGS, F_PUSH_PROMISE, F_MAX_PUSH_ID, F_CANCEL_PUSH, F_GOAWAY, F_PRIORITY,
               F_DUPLICATE_PUSH, F_WT, 0x21, 0x40, (1 << 62) - 1]
FRAME_NAME = {0: "DATA", 1: "HEADERS", 2: "PRIORITY", 3: "CANCEL_PUSH", 4: "SETTINGS", 5: "PUSH_PROMISE",
              7: "GOAWAY", 0xD: "MAX_PUSH_ID", 0xE: "DUPLICATE_PUSH", 0x41: "WT_STREAM", 0x21: "GREASE",
              0x40: "UNKNOWN", (1 << 62) - 1: "UNKNOWN_MAX"}
#                  DATA HDRS SETT PUSHP MAXP CANC GOAW PRIO DUPP WT  GRS  0x40 MAX
MESSAGE_WEIGHTS = [3, 6, 1, 2.5, 1, 1, 1, 0.5, 0.5, 1, 1, 0.5, 0.5]
CONTROL_WEIGHTS = [1, 1, 5, 1, 4, 2, 2, 0.5, 0.5, 0.5, 1, 0.5, 0.5]
VARINT_VALUES = [0, 1, 7, 63, 64, 16383, 16384, (1 << 30) - 1, 1 << 30, (1 << 62) - 1]


# ------------------------------------------------------------ QPACK by hand


def prefix_int(value, bits, flags=0):
    """RFC 7541 5.1 integer with an N-bit prefix; flags = the high bits of the first byte"""
    limit = (1 << bits) - 1
    if value < limit:
        return bytes([flags | value])
    out = bytearray([flags | limit])
    value -= limit
    while value >= 128:
        out.append((value & 0x7F) | 0x80)
        value >>= 7
    out.append(value)
    return bytes(out)


STATIC_NAME_INDEX = {b":authority": 0, b":path": 1, b"age": 2, b"content-length": 4, b"cookie": 5, b"date": 6,
                     b"etag": 7, b":method": 15, b":scheme": 22, b":status": 24}


def raw_block(fields, ric=0, base=0, static_refs=False):
    """hand-encoded header block, no Huffman, no size limit: literal field lines with literal
    names, or (static_refs) with a name reference into the static table where one exists"""
    out = bytearray(prefix_int(ric, 8) + prefix_int(base, 7))
    for name, value in fields:
        if static_refs and name in STATIC_NAME_INDEX:
            out += prefix_int(STATIC_NAME_INDEX[name], 4, 0x50)
        else:
            out += prefix_int(len(name), 3, 0x20) + name
        out += prefix_int(len(value), 7, 0) + value
    return bytes(out)


# ------------------------------------------------------------ hostile peer


class Hostile:
    """Builds the peer's stream bytes. Everything is decided by the chooser."""

    def __init__(self, ch, mode, target_is_client, wt, target_streams):
        import pylsqpack

        self.g = ch.stream("grammar")
        self.hf = ch.stream("fields")
        self.mode = mode
        self.tc = target_is_client
        self.wt = wt
        self.target_streams = list(target_streams)  # bidi streams the target opened itself
        self.next_uni = 3 if target_is_client else 2
        self.next_bidi = 1 if target_is_client else 0
        self.order = []
        self.data = {}
        self.bounds = {}
        self.stopped = set()
        self.kind = {}
        self.control = self.enc = self.dec = None
        self.datagrams = []
        self.fed = {}
        self.hostile_items = 0
        self.penc = pylsqpack.Encoder()
        self.penc_prefix = self.penc.apply_settings(4096, 16)
        self.n_msgs = 0

    # ---- helpers
    def count(self, name):
        self.fed[name] = self.fed.get(name, 0) + 1

    def put(self, sid, data, kind=None):
        if sid not in self.data:
            self.order.append(sid)
            self.data[sid] = bytearray()
            self.bounds[sid] = []
            self.kind[sid] = kind or "?"
        if sid in self.stopped:
            return
        self.bounds[sid].append(len(self.data[sid]))
        self.data[sid] += data

    def new_uni(self):
        sid = self.next_uni
        self.next_uni += 4
        return sid

    def new_bidi(self):
        sid = self.next_bidi
        self.next_bidi += 4
        return sid

    def ensure_control(self, settings=True):
        if self.control is None:
            self.control = self.new_uni()
            self.put(self.control, varint(0), "control")
            self.count("uni_control")
            if settings:
                self.put(self.control, self.frame_bytes(F_SETTINGS, self.valid_settings()))
        return self.control

    def ensure_enc(self):
        if self.enc is None:
            self.enc = self.new_uni()
            self.put(self.enc, varint(2) + self.penc_prefix, "qpack-enc")
            self.count("uni_qpack_encoder")
        return self.enc

    def ensure_dec(self):
        if self.dec is None:
            self.dec = self.new_uni()
            self.put(self.dec, varint(3), "qpack-dec")
            self.count("uni_qpack_decoder")
        return self.dec

    def valid_settings(self):
        pairs = [(1, 4096), (7, 16), (8, 1), (0x21, 1)]
        if self.wt:
            pairs += [(0x33, 1), (0x2B603742, 1)]
        return b"".join(varint(k) + varint(v) for k, v in pairs)

    def frame_bytes(self, ftype, payload):
        return varint(ftype) + varint(len(payload)) + payload

    def message_stream(self, fresh=False):
        """a stream on which the target expects a request (server) / response (client)"""
        g = self.g
        if self.tc:
            if self.target_streams:
                return self.target_streams[g.choose(len(self.target_streams))]
            return self.new_bidi()  # server-initiated bidirectional stream: no HTTP/3 meaning
        live = [s for s in self.order if self.kind.get(s) == "message" and s not in self.stopped]
        if live and not fresh and g.chance(0.35):
            return live[g.choose(len(live))]
        return self.new_bidi()

    # ---- header lists and blocks
    def fields(self, valid_only=False, push=False, force=None):
        """(fields, tag) ; tag 'valid' or the kind of defect"""
        hf = self.hf
        request = push or not self.tc
        base = gen_request_headers(hf, full=push) if request else gen_response_headers(hf)
        k = 0 if valid_only else hf.weighted([4, 1, 1, 1, 2.5, 1, 1, 1, 2, 1, 0.5, 1, 0.5, 0.7, 1, 2])
        if force is not None:
            k = force
        if k == 0:
            return base, "valid"
        if k == 1:
            return base + [(b"x-bin", bytes([0xFF, 0xFE, 0xC3, 0x28, 0x80 + hf.choose(64)]))], "non-utf8-value"
        if k == 2:
            bad = [b"X-Upper", b"", b"x y", b"x:y", b"x\x7f", b"x\xff\xfe", b"\x00", b":", b"x\n"][hf.choose(9)]
            return base + [(bad, b"v")], "bad-name"
        if k == 3:
            bad = [b"a\x00b", b"a\nb", b"a\rb", b" lead", b"trail ", b"\ttab", b" "][hf.choose(7)]
            return base + [(b"x-a", bad)], "bad-value"
        if k == 4:  # oversized INVALID name: ends up in the reason phrase of the close
            n = [1000, 1150, 1300, 1500, 2000, 3000, 200, 5000, 20000, 70000][hf.choose(10)]
            ch_ = [b"A", b"\xff", b" ", b"\x00"][hf.choose(4)]
            return base + [(ch_ * n, b"v")], "oversized-bad-name"
        if k == 5:  # oversized valid name / value
            n = [200, 1300, 5000, 70000][hf.choose(4)]
            if hf.chance(0.5):
                return base + [(b"x" * n, b"v")], "oversized-name"
            return base + [(b"x-big", b"v" * n)], "oversized-value"
        if k == 6:
            extra = [(b":method", b"GET"), (b":status", b"200"), (b":foo", b"bar"), (b":path", b""),
                     (b":authority", b""), (b":protocol", b"webtransport")][hf.choose(6)]
            pos = hf.choose(len(base) + 1)
            return base[:pos] + [extra] + base[pos:], "pseudo-misuse"
        if k == 7:
            drop = hf.choose(len(base))
            return base[:drop] + base[drop + 1:], "field-dropped"
        if k == 8:
            v = [b"abc", b"-1", b"1_0", b" 5 ", b"+5", b"99999999999999999999999999", b"", b"\xd9\xa3",
                 b"0x10", b"1e3", b"5"][hf.choose(11)]
            return base + [(b"content-length", v)], "content-length"
        if k == 9:
            return base + [(b"transfer-encoding", [b"chunked", b"trailers", b""][hf.choose(3)])], "transfer-encoding"
        if k == 10:
            return [], "empty-list"
        if k == 11:  # the other role's message
            return (gen_response_headers(hf) if request else gen_request_headers(hf)), "wrong-role"
        if k == 12:
            return [(b":scheme", b"https"), (b":method", b"GET"), (b":authority", b""), (b":path", b"/")], "empty-authority"
        if k == 13:
            return base + [(b"x-a", b"v")] * (50 + hf.choose(400)), "many-fields"
        if k == 15:  # numeric fields with more digits than int() accepts by default (4300)
            n = [4301, 5000, 20000, 4300, 4299, 100000][hf.choose(6)]
            digits = [b"1", b"9", b"0"][hf.choose(3)] * n
            which = hf.weighted([4, 2, 1])
            if which == 0:
                return base + [(b"content-length", digits)], "huge-numeric"
            if which == 1:
                if base and base[0][0] == b":status":
                    return [(b":status", digits)] + base[1:], "huge-numeric"
                return base + [(b"content-length", b"+" + digits)], "huge-numeric"
            return base + [(b"age", digits), (b"x-num", digits)], "huge-numeric"
        return [(b"x-a", b"v")] + base, "pseudo-after-regular"

    def block(self, sid, valid_only=False, push=False, force=None):
        """an encoded field section for stream sid"""
        hf = self.hf
        fields, tag = self.fields(valid_only, push, force)
        self.count("fields_" + tag)
        big = sum(len(k) + len(v) + 8 for k, v in fields) > 3000 or len(fields) > 60
        how = 1 if big else (0 if valid_only else hf.weighted([6, 3, 1, 1, 1]))
        if how == 0:  # real encoder: static / literal / dynamic entries, may need the encoder stream
            try:
                enc, blk = self.penc.encode(sid if sid % 4 == 0 else 0, fields)
            except Exception:  # the peer's own encoder refuses (size limits): write it by hand
                return raw_block(fields)
            if enc:
                if self.enc is not None or hf.chance(0.8):
                    self.put(self.ensure_enc(), enc)
                    self.count("dynamic_table_insert")
                else:
                    self.count("dangling_dynamic_reference")
            return blk
        if how == 1:
            return raw_block(fields, static_refs=hf.chance(0.5))
        if how == 2:  # reference to dynamic entries that may never exist
            ric = [1, 2, 5, 100, 254, 255, 256, 10000][hf.choose(8)]
            self.count("block_bad_ric")
            return prefix_int(ric, 8) + prefix_int(hf.choose(3), 7, 0x80 * hf.choose(2)) + bytes(
                [0x80 | hf.choose(64), 0x10 | hf.choose(16)])
        if how == 3:
            self.count("block_junk")
            n = [0, 1, 2, 5, 40][hf.choose(5)]
            return bytes((hf.choose(256)) for _ in range(n))
        # static-table references out of range, huffman flagged garbage, truncated literal
        self.count("block_odd")
        return [b"\x00\x00\xff\xff\x7f", b"\x00\x00\x5f\x7f", b"\x00\x00\x27\x05abc", b"\x00\x00\x2f\xff\xff\xff\xff\x0f",
                b"\x00\x00\x23abc\x88\xff\xff\xff\xff\xff\xff\xff\xff", b"\x00\x00\xc0\xc0\xff\x64",
                b"\x00", b"\x00\x00"][hf.choose(8)]

    # ---- payloads
    def varint_payload(self):
        g = self.g
        k = g.weighted([5, 1, 2, 2, 1])
        v = VARINT_VALUES[g.choose(len(VARINT_VALUES))]
        if k == 0:
            return varint(v)
        if k == 1:
            return b""
        if k == 2:  # truncated varint
            return [b"\x40", b"\x80\x00", b"\xc0\x00\x00\x00", b"\xff\xff\xff\xff\xff\xff\xff"][g.choose(4)]
        if k == 3:  # trailing bytes
            return varint(v) + bytes(1 + g.choose(3))
        return varint_n(v & 0x3F, [2, 4, 8][g.choose(3)])

    def settings_payload(self):
        g = self.g
        k = g.weighted([3, 2, 2, 2, 2, 2, 1])
        if k == 0:
            return self.valid_settings()
        ids = [1, 6, 7, 8, 0x33, 0x2B603742, 0x21, 0x0, 0x2, 0x3, 0x4, 0x5, 0x1F * 7 + 0x21, (1 << 62) - 1]
        n = [0, 1, 2, 3, 6, 40][g.choose(6)] if k != 6 else 0
        pairs = []
        for _ in range(n):
            i = ids[g.choose(len(ids))] if k != 1 else ids[g.choose(7)]
            v = VARINT_VALUES[g.choose(len(VARINT_VALUES))]
            pairs.append((i, v))
        if k == 2 and pairs:
            pairs.append(pairs[g.choose(len(pairs))])  # duplicate
        if k == 3:
            pairs += [[(0x2B603742, 1)], [(0x33, 1)], [(0x33, 2)], [(0x8, 2)], [(0x2B603742, 1), (0x33, 0)],
                      [(1, (1 << 62) - 1)], [(7, (1 << 62) - 1)], [(1, 1 << 32), (7, 1 << 32)]][g.choose(8)]
        out = b"".join(varint(a) + varint(b) for a, b in pairs)
        if k == 4 and out:  # truncated inside the last pair
            out = out[:len(out) - 1 - g.choose(min(len(out), 8))]
        if k == 5:
            out += [b"\x01", b"\x40", b"\xc0", b"\x06\x40", b"\x06\xff\xff"][g.choose(5)]
        return out

    def payload(self, ftype, sid):
        """(payload, tag)"""
        g = self.g
        pm = g.weighted([6, 1, 2, 2, 1])  # valid, empty, truncated, trailing, junk
        if ftype == F_DATA:
            n = [0, 1, 5, 100, 2000][g.choose(5)]
            body = bytes((i * 7 + 1) & 0xFF for i in range(n))
        elif ftype == F_HEADERS:
            body = self.block(sid)
        elif ftype == F_SETTINGS:
            body = self.settings_payload()
        elif ftype == F_PUSH_PROMISE:
            body = self.varint_payload() + self.block(sid, push=True)
        elif ftype in (F_MAX_PUSH_ID, F_CANCEL_PUSH, F_GOAWAY, F_DUPLICATE_PUSH):
            body = self.varint_payload()
        elif ftype == F_PRIORITY:
            body = bytes(g.choose(6))
        else:
            body = bytes((i * 3) & 0xFF for i in range([0, 1, 9, 300][g.choose(4)]))
        if pm == 1:
            return b"", "empty"
        if pm == 2 and body:
            return body[:g.choose(len(body))], "truncated"
        if pm == 3:
            return body + bytes(1 + g.choose(4)), "trailing"
        if pm == 4:
            return bytes(g.choose(256) for _ in range(g.choose(12))), "junk"
        return body, "as-generated"

    def frame(self, sid, allowed=None, benign=False):
        """(bytes, stop)"""
        g = self.g
        if benign:  # part of the valid prefix of this stream
            if allowed == "control":
                ftype = [F_GOAWAY if self.tc else F_MAX_PUSH_ID, F_CANCEL_PUSH, 0x21, 0x40][g.choose(4)]
                body = varint([0, 3, 8, 100][g.choose(4)]) if ftype < 0x21 else bytes(g.choose(9))
            else:
                ftype = [F_DATA, F_DATA, 0x21][g.choose(3)]
                body = bytes((i * 7 + 1) & 0xFF for i in range([0, 1, 5, 100, 2000][g.choose(5)]))
            self.count("benign_frame_" + FRAME_NAME.get(ftype, hex(ftype)))
            return varint(ftype) + varint(len(body)) + body, False
        weights = CONTROL_WEIGHTS if allowed == "control" else MESSAGE_WEIGHTS
        ftype = FRAME_TYPES[g.weighted(weights)]
        self.count("frame_" + FRAME_NAME.get(ftype, hex(ftype)))
        body, ptag = self.payload(ftype, sid)
        self.count("payload_" + ptag)
        lm = g.weighted([8, 1, 1, 1, 1, 1, 1, 1])
        tbytes = varint(ftype) if ftype >= 64 or not g.chance(0.08) else varint_n(ftype, [2, 4, 8][g.choose(3)])
        n = len(body)
        if ftype == F_WT:
            # WEBTRANSPORT_STREAM has no length: the second varint is the session id
            sess = [0, 4, 1, 3, 400, (1 << 62) - 1][g.choose(6)]
            self.count("length_wt_session")
            if g.chance(0.15):
                return tbytes + b"\xc0\x00", True
            return tbytes + varint(sess) + body, True
        if lm == 0:
            self.count("length_exact")
            return tbytes + varint(n) + body, False
        if lm == 1:
            self.count("length_zero")
            return tbytes + varint(0) + body, False
        if lm == 2:
            self.count("length_one")
            return tbytes + varint(1) + body, False
        if lm == 3:
            self.count("length_huge")
            return tbytes + varint([1 << 14, 1 << 30, (1 << 62) - 1, 70000][g.choose(4)]) + body, False
        if lm == 4:
            self.count("length_plus_one")
            return tbytes + varint(n + 1) + body, False
        if lm == 5:
            self.count("length_minus_one")
            return tbytes + varint(max(n - 1, 0)) + body, False
        if lm == 6:
            self.count("length_truncated_varint")
            cut = [b"\x40", b"\x80\x00\x00", b"\xc0", b"\xc0\x00\x00\x00\x00\x00\x00"][g.choose(4)]
            if g.chance(0.3):
                return tbytes[:max(len(tbytes) - 1, 0)] or b"\x40", True  # the type itself is cut
            return tbytes + cut, True
        self.count("length_non_minimal")
        return tbytes + varint_n(n, 8 if n >= 1 << 14 else [2, 4, 8][g.choose(3)]) + body, False

    def frames(self, sid, n=None, allowed=None):
        g = self.g
        n = n if n is not None else 1 + g.geometric(4, 1.0)
        n_benign = g.choose(n + 1) if g.chance(0.7) else 0  # valid frames in front of the hostile ones
        for i in range(n):
            if sid in self.stopped:
                break
            data, stop = self.frame(sid, allowed, benign=(i < n_benign and i < n - 1))
            self.put(sid, data)
            if stop:
                self.stopped.add(sid)

    # ---- valid prefix
    def valid_message(self):
        sid = self.message_stream(fresh=True)
        self.kind.setdefault(sid, "message")
        blk = self.block(sid, valid_only=True)
        self.put(sid, self.frame_bytes(F_HEADERS, blk), "message")
        body = bytes((i * 5) & 0xFF for i in range([0, 1, 70, 300][self.g.choose(4)]))
        self.put(sid, self.frame_bytes(F_DATA, body))
        self.n_msgs += 1
        self.count("valid_message")
        return sid

    def prefix(self, n):
        if n >= 1:
            self.ensure_control()
        if n >= 2:
            self.ensure_enc()
        if n >= 3:
            self.ensure_dec()
        for _ in range(max(0, n - 3)):
            self.valid_message()

    # ---- hostile items
    def item(self):
        g = self.g
        self.hostile_items += 1
        k = g.weighted([6, 4, 3, 2, 2, 2, 1, 1, 2, 2, 2.5])
        if k == 10:  # a well-formed HEADERS frame whose field section is the hostile part
            sid = self.message_stream(fresh=g.chance(0.7))
            self.kind.setdefault(sid, "message")
            if sid not in self.data and g.chance(0.4):
                self.put(sid, self.frame_bytes(F_HEADERS, self.block(sid, valid_only=True)), "message")
            force = [4, 15, 4, 15, 1, 8][g.choose(6)]
            self.count("item_hostile_field_section")
            self.count("frame_HEADERS")
            self.put(sid, self.frame_bytes(F_HEADERS, self.block(sid, force=force)), "message")
        elif k == 0:  # message stream: request (server) / response (client)
            sid = self.message_stream()
            self.kind.setdefault(sid, "message")
            if sid not in self.data and g.chance(0.6):
                self.put(sid, self.frame_bytes(F_HEADERS, self.block(sid, valid_only=True)), "message")
            self.count("item_message_frames")
            self.frames(sid)
        elif k == 1:  # control stream
            self.count("item_control_frames")
            if self.control is None and g.chance(0.6):
                sid = self.ensure_control(settings=False)  # the first frame is the hostile one
                if g.chance(0.7):
                    body, ptag = self.payload(F_SETTINGS, sid)
                    self.count("frame_SETTINGS")
                    self.count("first_settings_" + ptag)
                    self.put(sid, self.frame_bytes(F_SETTINGS, body))
            else:
                sid = self.ensure_control()
            self.frames(sid, allowed="control" if g.chance(0.85) else None)
        elif k == 2:  # QPACK encoder stream instructions
            self.count("item_qpack_encoder_instr")
            sid = self.ensure_enc()
            self.put(sid, self.encoder_instr())
        elif k == 3:  # QPACK decoder stream instructions
            self.count("item_qpack_decoder_instr")
            sid = self.ensure_dec()
            self.put(sid, self.decoder_instr())
        elif k == 4:  # duplicate / extra critical stream
            t = g.choose(3)
            self.count("item_duplicate_critical")
            [self.ensure_control, self.ensure_enc, self.ensure_dec][t]()
            sid = self.new_uni()
            self.put(sid, varint([0, 2, 3][t]) + (self.frame_bytes(F_SETTINGS, self.valid_settings()) if t == 0 and g.chance(0.5) else b""),
                     "duplicate-critical")
        elif k == 5:  # push stream
            self.count("uni_push")
            sid = self.new_uni()
            pid = [varint(0), varint(1), varint(8), varint(9), varint((1 << 62) - 1), b"\x40", b"\xc0\x00", b""][g.choose(8)]
            self.put(sid, varint(1) + pid, "push")
            if len(pid) in (1, 2, 4, 8) and pid not in (b"\x40", b"\xc0\x00"):
                if g.chance(0.6):
                    self.put(sid, self.frame_bytes(F_HEADERS, self.block(sid, valid_only=True)))
                self.frames(sid, n=g.choose(3))
            else:
                self.stopped.add(sid)
        elif k == 6:  # WebTransport unidirectional stream
            self.count("uni_webtransport")
            sid = self.new_uni()
            sess = [varint(0), varint(4), varint(3), varint((1 << 62) - 1), b"\x80\x00", b""][g.choose(6)]
            self.put(sid, varint(0x54) + sess + bytes(g.choose(40)), "wt-uni")
        elif k == 7:  # unknown / reserved stream type
            self.count("uni_unknown")
            sid = self.new_uni()
            t = [varint(0x21), varint(0x1F * 9 + 0x21), varint((1 << 62) - 1), varint(4), b"\x40", b"\xc0\x00\x00",
                 varint_n(0, 8), varint_n(2, 2)][g.choose(8)]
            if t == varint_n(0, 8):
                self.count("uni_control")
            self.put(sid, t + bytes(g.choose(30)), "unknown-uni")
        elif k == 8:  # bidirectional stream with a WebTransport header / on the wrong side
            self.count("item_bidi_other")
            sid = self.new_bidi()
            if g.chance(0.5):
                self.put(sid, varint(F_WT) + varint([0, 4, 1, (1 << 62) - 1][g.choose(4)]) + bytes(g.choose(20)), "wt-bidi")
                self.count("frame_WT_STREAM")
            else:
                self.kind.setdefault(sid, "message")
                self.frames(sid)
        else:  # datagram
            self.count("datagram")
            q = [varint(0), varint(1), varint(100), varint((1 << 62) - 1), b"", b"\x40", b"\x80\x00\x00", b"\xc0"][g.choose(8)]
            if q in (b"", b"\x40", b"\x80\x00\x00", b"\xc0"):
                self.count("datagram_truncated_quarter_stream_id")
                self.datagrams.append(q)
            else:
                self.datagrams.append(q + bytes(g.choose(30)))

    def encoder_instr(self):
        g = self.g
        k = g.weighted([2, 1, 1, 1, 1, 1, 1, 1])
        if k == 0:  # genuine instructions from the peer's encoder (inserts by repeating a field)
            out = b""
            for _ in range(2):
                try:
                    enc, _blk = self.penc.encode(0, [(b"x-rep-%d" % g.choose(4), b"value-%d" % g.choose(4))])
                except Exception:
                    enc = b""
                out += enc
            return out or prefix_int(100, 5, 0x20)
        if k == 1:  # set capacity above / at / below the limit
            return prefix_int([0, 1, 4096, 4097, 1 << 20, (1 << 32) + 5][g.choose(6)], 5, 0x20)
        if k == 2:  # insert with name reference (static / dynamic), index maybe out of range
            idx = [0, 15, 98, 99, 200, 5000][g.choose(6)]
            return prefix_int(idx, 6, 0x80 | (0x40 * g.choose(2))) + prefix_int(3, 7, 0) + b"abc"
        if k == 3:  # insert with literal name, lengths larger than what follows / huge
            return prefix_int([3, 30, 1 << 20, (1 << 40)][g.choose(4)], 5, 0x40) + b"abc" + prefix_int(
                [1, 100, 1 << 30][g.choose(3)], 7, 0) + b"v"
        if k == 4:  # duplicate of an entry that may not exist
            return prefix_int([0, 1, 50, 1 << 20][g.choose(4)], 5, 0x00)
        if k == 5:  # huffman-flagged garbage
            return prefix_int(4, 5, 0x60) + b"\xff\xff\xff\xff" + prefix_int(2, 7, 0x80) + b"\xff\xff"
        if k == 6:  # entry larger than the table
            return prefix_int(4, 5, 0x40) + b"name" + prefix_int(5000, 7, 0) + b"v" * 5000
        return bytes(g.choose(256) for _ in range(1 + g.choose(24)))

    def decoder_instr(self):
        g = self.g
        k = g.weighted([2, 2, 2, 1, 1])
        v = [0, 1, 4, 63, 64, 1000, (1 << 62) - 1][g.choose(7)]
        if k == 0:
            return prefix_int(v, 7, 0x80)  # section acknowledgement
        if k == 1:
            return prefix_int(v, 6, 0x40)  # stream cancellation
        if k == 2:
            return prefix_int(v, 6, 0x00)  # insert count increment (0 is illegal)
        if k == 3:
            return b"\x3f" + b"\xff" * (1 + g.choose(12))  # unterminated / overflowing integer
        return bytes(g.choose(256) for _ in range(1 + g.choose(16)))

    # ---- HTTP/0.9
    def h0_items(self):
        g = self.g
        lines = [b"GET /\r\n", b"GET /index.html\r\n", b"GET\r\n", b"", b" ", b"\r\n", b"GET / HTTP/1.0\r\n", b"GET  /\r\n",
                 b"\xff\xfe\x00\r\n", b"GET /" + b"a" * 3000 + b"\r\n", b"GET /\n", b"GET /\r", b"POST", b"\x00" * 5,
                 b"GET /a\r\nGET /b\r\n", b" \r\n", b"\t\r\n"]
        n = 1 + g.geometric(5, 1.5)
        for _ in range(n):
            self.hostile_items += 1
            k = g.weighted([6, 1, 1])
            if k == 0:
                sid = self.message_stream()
            elif k == 1:
                sid = self.new_uni()
            else:
                sid = self.new_bidi()
            self.kind.setdefault(sid, "message")
            self.put(sid, lines[g.choose(len(lines))], "message")
            self.count("h0_line")
            if g.chance(0.3):
                self.put(sid, bytes(g.choose(256) for _ in range(g.choose(50))))


# ------------------------------------------------------------- the target


class Target:
    pass


def make_target(seed, mode, is_client, wt, with_logger, unconfirmed=False, mds=1200):
    """real QuicConnection pair, handshake done; returns the target side.
    unconfirmed (client target): the server's datagrams carrying HANDSHAKE_DONE never reach the
    client, whose handshake is then complete but not confirmed (it still holds Handshake keys)"""
    from aioquic.quic.configuration import QuicConfiguration
    from aioquic.quic.connection import QuicConnection
    from aioquic.quic.logger import QuicLogger

    bootstrap.DET.reseed(seed)
    alpn = ["hq-interop"] if mode == "h0" else ["h3"]
    dg = 65536 if (wt or mode == "h0") else None
    cconf = QuicConfiguration(is_client=True, alpn_protocols=alpn, max_datagram_frame_size=dg,
                              max_datagram_size=mds)
    cconf.server_name = "localhost"
    cconf.cafile = fixtures.ca_path()
    sconf = QuicConfiguration(is_client=False, alpn_protocols=alpn, max_datagram_frame_size=dg,
                              max_datagram_size=mds)
    cert, chain, key = fixtures.cert_chain("server_ed25519")
    sconf.certificate = cert
    sconf.certificate_chain = chain
    sconf.private_key = key
    qlog = None
    if with_logger:
        qlog = QuicLogger()
        (cconf if is_client else sconf).quic_logger = qlog
    client = QuicConnection(configuration=cconf)
    server = QuicConnection(configuration=sconf,
                            original_destination_connection_id=client.original_destination_connection_id)
    now = 0.0
    client.connect(SERVER_ADDR, now=now)
    for rnd in range(4):
        now += 0.001
        for d, _a in client.datagrams_to_send(now=now):
            server.receive_datagram(d, CLIENT_ADDR, now=now)
        now += 0.001
        for d, _a in server.datagrams_to_send(now=now):
            if unconfirmed and rnd >= 1:
                continue  # lost: everything the server sends after its first flight
            client.receive_datagram(d, SERVER_ADDR, now=now)
    t = Target()
    t.quic, t.peer = (client, server) if is_client else (server, client)
    done = False
    for q in (client, server):
        while True:
            ev = q.next_event()
            if ev is None:
                break
            if q is t.quic and type(ev).__name__ == "HandshakeCompleted":
                done = True
    if not done:
        raise RuntimeError("handshake did not complete in the harness")
    if unconfirmed and (not is_client or t.quic._handshake_confirmed):
        raise RuntimeError("the harness failed to keep the client's handshake unconfirmed")
    t.now = now
    t.qlog = qlog
    t.is_client = is_client
    return t


def build_schedule(ch, hp):
    sp = ch.stream("split")
    od = ch.stream("order")
    per = {}
    for sid in hp.order:
        data = bytes(hp.data[sid])
        kind = hp.kind.get(sid)
        p_fin = {"message": 0.6, "control": 0.12, "qpack-enc": 0.12, "qpack-dec": 0.12}.get(kind, 0.35)
        fin = sp.chance(p_fin)
        cuts = draw_cuts(sp, len(data), hp.bounds[sid])
        lst = [("s", sid, c, f) for c, f in chunks_of(data, cuts, fin, fin and sp.chance(0.35))]
        if lst and sp.chance(0.06):  # the peer resets the stream instead of finishing it
            at = sp.choose(len(lst) + 1)
            lst = lst[:at] + [("r", sid, [0, 0x10C, (1 << 62) - 1][sp.choose(3)])]
        per[sid] = lst
    per["dgram"] = [("d", d) for d in hp.datagrams]
    return interleave(od, per, hp.order + ["dgram"], last=hp.enc)


class Report:
    def __init__(self):
        self.events = {}
        self.closed = None
        self.handled = 0
        self.terminated = False
        self.peer_code = None
        self.log = []


def where(exc):
    return "%s@%s" % (type(exc).__name__, innermost_frame(exc))


def execute(seed, mode, is_client, wt, n_requests, schedule, with_logger, cfg):
    """one execution of the script against a fresh target; raises Violation"""
    from aioquic.quic import events as qev

    t = make_target(seed, mode, is_client, wt, with_logger, cfg["unconfirmed"], cfg["mds"])
    quic = t.quic
    rep = Report()
    tag = "logger=%s%s, max_datagram_size=%d" % (
        "on" if with_logger else "off",
        ", client handshake complete but not confirmed" if cfg["unconfirmed"] else "", cfg["mds"])
    # the close the HTTP layer asks for is observed at the QuicConnection API
    real_close = quic.close

    def spy_close(*a, **kw):
        if rep.closed is None:
            code = kw.get("error_code", a[0] if a else 0)
            rep.closed = (int(code), kw.get("reason_phrase", a[2] if len(a) > 2 else ""))
        return real_close(*a, **kw)

    quic.close = spy_close
    if mode == "h0":
        from aioquic.h0.connection import H0Connection

        http = H0Connection(quic)
    else:
        from aioquic.h3.connection import H3Connection

        http = H3Connection(quic, enable_webtransport=wt)
    # the application on the target: a client opens its requests (valid API use)
    opened = []
    if is_client:
        for i in range(n_requests):
            sid = quic.get_next_available_stream_id()
            opened.append(sid)
            if mode == "h0":
                http.send_headers(sid, [(b":method", b"GET"), (b":path", b"/")], end_stream=True)
            else:
                http.send_headers(sid, [(b":method", b"GET"), (b":scheme", b"https"), (b":authority", b"localhost"),
                                        (b":path", b"/%d" % i)], end_stream=(i % 2 == 0))
    now = t.now + 0.001
    quic.datagrams_to_send(now=now)

    peer_addr = CLIENT_ADDR if is_client else SERVER_ADDR

    def transmit(stage):
        try:
            dgrams = quic.datagrams_to_send(now=now)
        except Exception as exc:
            raise Violation("c16.transmit", where(exc),
                            "datagrams_to_send raised %r %s (%s; HTTP layer close: %s)" % (
                                exc, stage, tag, _close_brief(rep.closed)))
        # the peer sees what is sent (probe only: parsing it is the transport's business, C05)
        for data, _addr in dgrams:
            try:
                t.peer.receive_datagram(data, peer_addr, now=now)
            except Exception:
                rep.log.append("peer raised on a packet")
        return dgrams

    ended = set()
    close_sent = False
    for i, d in enumerate(schedule):
        if d[0] == "s":
            if d[1] in ended:
                continue
            ev = qev.StreamDataReceived(data=d[2], end_stream=d[3], stream_id=d[1])
            if d[3]:
                ended.add(d[1])
            desc = "StreamDataReceived(stream_id=%d, data=%s, end_stream=%s)" % (d[1], _hex(d[2]), d[3])
        elif d[0] == "r":
            if d[1] in ended:
                continue
            ended.add(d[1])
            ev = qev.StreamReset(error_code=d[2], stream_id=d[1])
            desc = "StreamReset(stream_id=%d)" % d[1]
        else:
            ev = qev.DatagramFrameReceived(data=d[1])
            desc = "DatagramFrameReceived(%s)" % _hex(d[1])
        try:
            out = http.handle_event(ev)
        except Exception as exc:
            raise Violation("c16.handle-event", where(exc),
                            "%s.handle_event(%s) raised %r (%s, %s, event #%d of %d; earlier on this stream: %s)" % (
                                type(http).__name__, desc, exc, "client" if is_client else "server", tag, i,
                                len(schedule), _history(schedule, i)))
        rep.handled += 1
        for e in out:
            n = type(e).__name__
            rep.events[n] = rep.events.get(n, 0) + 1
        if cfg["transmit_each"] or (rep.closed is not None and not close_sent):
            now += 0.0005
            transmit("after event #%d" % i)
            if rep.closed is not None:
                close_sent = True
    # end of the script: whatever state the HTTP layer left the transport in must still be drivable
    now += 0.001
    transmit("after the last event")
    if rep.closed is None:
        # the application shuts down (H3_NO_ERROR) with a text of its own ("whatever text the error message
        # contains": long, non-ASCII, more bytes than characters, not encodable at all)
        reason = APP_REASONS[cfg.get("app_reason", 0) % len(APP_REASONS)]
        quic.close(error_code=0x100, reason_phrase=reason)
        rep.closed = (0x100, reason) if reason else None
        transmit("after an ordinary close")
    try:  # probe only: which close does the peer's transport report once its draining period is over
        tm = t.peer.get_timer()
        if tm is not None:
            t.peer.handle_timer(now=max(now, tm) + 1e-6)
        ev = t.peer.next_event()
        while ev is not None:
            if type(ev).__name__ == "ConnectionTerminated":
                rep.peer_code = ev.error_code
            ev = t.peer.next_event()
    except Exception:
        rep.log.append("peer raised")
    if rep.closed is not None and not any("peer raised" in x for x in rep.log) and rep.peer_code != rep.closed[0]:
        # "the transport can still emit its closing packet": on this loss-free pipe the peer's transport must
        # have been told why (a target whose handshake is not confirmed sends the close in a Handshake packet
        # too, which a server that already dropped those keys cannot read: the 1-RTT packet is the one that counts)
        raise Violation("c16.close-not-delivered", "peer-saw:%s" % (
            "nothing" if rep.peer_code is None else "0x%x" % rep.peer_code),
            "the HTTP layer closed the connection (%s) and the transport was driven, but the peer's transport %s "
            "(%s)" % (_close_brief(rep.closed), "never saw a CONNECTION_CLOSE" if rep.peer_code is None else
                      "reports error 0x%x" % rep.peer_code, tag))
    try:
        for _ in range(12):
            ev = quic.next_event()
            while ev is not None:
                if type(ev).__name__ == "ConnectionTerminated":
                    rep.terminated = True
                ev = quic.next_event()
            if rep.terminated:
                break
            tm = quic.get_timer()
            if tm is None:
                break
            now = max(now, tm) + 1e-6
            quic.handle_timer(now=now)
            quic.datagrams_to_send(now=now)
    except Violation:
        raise
    except Exception as exc:
        raise Violation("c16.after-close", where(exc),
                        "driving the closed connection (get_timer/handle_timer/next_event/datagrams_to_send) raised "
                        "%r (%s; HTTP layer close: %s)" % (exc, tag, _close_brief(rep.closed)))
    if t.qlog is not None:
        try:
            json.dumps(t.qlog.to_dict())
        except Exception as exc:
            raise Violation("c16.qlog", where(exc), "serialising the qlog raised %r" % (exc,))
    return rep


APP_REASONS = ("", "bye", "\u00e9" * 900, "\u4e2d" * 700, "y" * 2000, "\u00e9" * 600 + "z" * 600, "a\udcffb")


def _hex(b):
    b = bytes(b)
    return b.hex() if len(b) <= 48 else "%s..(%d bytes)" % (b[:40].hex(), len(b))


def _close_brief(c):
    if c is None:
        return "none"
    return "0x%x %r" % (c[0], c[1] if len(c[1]) < 80 else c[1][:60] + "...(%d chars)" % len(c[1]))


def _history(schedule, i):
    sid = schedule[i][1] if schedule[i][0] != "d" else None
    out = []
    for d in schedule[:i]:
        if d[0] == "s" and d[1] == sid:
            out.append(_hex(d[2]) + ("+FIN" if d[3] else ""))
    s = " | ".join(out) or "-"
    return s if len(s) < 400 else "..." + s[-400:]


# --------------------------------------------------------------------- run


def run_one(seed, tier="quick", variant=None, replay=None):
    variant = variant or "h3_server"
    bootstrap.load()
    ch = Chooser(seed, replay)
    out = Outcome(seed)
    cfgs = ch.stream("config")
    mode = "h0" if variant == "h0" else "h3"
    if variant == "h3_client":
        is_client = True
    elif variant == "h3_server":
        is_client = False
    else:
        is_client = cfgs.chance(0.35)
    wt = cfgs.chance(0.5) if mode == "h3" else False
    n_requests = (1 + cfgs.choose(3)) if is_client else 0
    cfg = {"transmit_each": cfgs.chance(0.3),
           "unconfirmed": is_client and cfgs.chance(0.4),
           "app_reason": cfgs.choose(len(APP_REASONS)) if cfgs.chance(0.5) else 0,
           "mds": [1200, 1280, 1350, 1472, 1252][cfgs.choose(5)]}
    hp = Hostile(ch, mode, is_client, wt, [4 * i for i in range(n_requests)])
    if mode == "h0":
        hp.h0_items()
    else:
        hp.prefix(hp.g.weighted([3, 1, 1, 2, 2, 1, 1]))
        for _ in range(1 + hp.g.geometric(6, 1.8)):
            hp.item()
    if not wt and mode == "h3":
        hp.datagrams = []  # the transport refuses DATAGRAM frames it did not advertise
    schedule = build_schedule(ch, hp)
    probes = dict(hp.fed)
    states = set()
    extra = {"events_fed": 0, "executions": 0}
    dig = hashlib.sha256()
    for d in schedule:
        dig.update(repr(d).encode())
    reason = "done"
    reps = []
    try:
        for with_logger in (False, True):
            rep = execute(seed, mode, is_client, wt, n_requests, schedule, with_logger, cfg)
            reps.append(rep)
            extra["executions"] += 1
            extra["events_fed"] += rep.handled
            dig.update(repr((sorted(rep.events.items()), rep.closed, rep.terminated, rep.peer_code)).encode())
            key = "close_0x%x" % rep.closed[0] if rep.closed else "close_none"
            probes[key] = probes.get(key, 0) + 1
            states.add((variant, wt, key, cfg["unconfirmed"]))
            if cfg["unconfirmed"]:
                probes["target_handshake_unconfirmed"] = probes.get("target_handshake_unconfirmed", 0) + 1
                if rep.closed:
                    probes["close_while_unconfirmed"] = probes.get("close_while_unconfirmed", 0) + 1
                    if len(rep.closed[1]) > 1000:
                        probes["long_reason_close_while_unconfirmed"] = probes.get(
                            "long_reason_close_while_unconfirmed", 0) + 1
            for n, c in rep.events.items():
                probes["event_" + n] = probes.get("event_" + n, 0) + c
            if rep.terminated:
                probes["terminated"] = probes.get("terminated", 0) + 1
            if rep.closed and rep.peer_code == rep.closed[0]:
                probes["peer_saw_h3_close_code"] = probes.get("peer_saw_h3_close_code", 0) + 1
            if rep.closed and len(rep.closed[1]) > 1000:
                probes["reason_phrase_over_1000"] = probes.get("reason_phrase_over_1000", 0) + 1
        if len(reps) == 2 and (reps[0].closed, reps[0].events) != (reps[1].closed, reps[1].events):
            probes["logger_changed_outcome"] = probes.get("logger_changed_outcome", 0) + 1  # C20's subject
    except Violation as v:
        out.violation = violation_dict(v)
        reason = "violation"
    inconclusive = any(not r.terminated for r in reps)
    out.summary = {
        "reason": reason, "steps": extra["events_fed"], "sim_time": 0.0, "fired": {}, "probes": probes,
        "states": states, "extra": extra, "digest": dig.hexdigest()[:32], "inconclusive": inconclusive and reason == "done",
        "aborted": False,
    }
    out.choices = ch.dump()
    out.nontrivial = hp.hostile_items > 0 and len(schedule) > 0
    out.signature = stable_hash(dig.hexdigest())
    out.sample = {
        "seed": seed, "variant": variant, "role": "client" if is_client else "server", "webtransport": wt,
        "handshake_unconfirmed": cfg["unconfirmed"], "max_datagram_size": cfg["mds"],
        "streams": {str(s): {"kind": hp.kind.get(s), "bytes": _hex(hp.data[s])} for s in hp.order[:10]},
        "datagrams": [_hex(d) for d in hp.datagrams[:4]],
        "deliveries": [(d[0], d[1] if d[0] != "d" else "-", len(d[2]) if d[0] == "s" else 0,
                        d[3] if d[0] == "s" else None) for d in schedule[:40]],
        "closed": [_close_brief(r.closed) for r in reps],
    }
    return out
