"""C04 Native helpers never access memory out of bounds.

Runs under a sanitizer build of the CURRENT _crypto.c / _buffer.c (clang ASan+UBSan, recover mode),
with the ASan runtime and the libcrypto boundary shim (native/evp_shim.c) preloaded; cli.py
re-executes the interpreter with the right environment before this module is imported."""
import os
import re

from checks._common import ASSUMPTIONS_TRANSPORT, COMPONENTS_TRANSPORT
from sim import bootstrap
from sim.chooser import Chooser
from sim.goals import DeliveryGoal
from sim.harness import run_transport
from sim.hostile import HostileInjector
from sim.kernel import Violation
from sim.runner import Outcome, stable_hash, violation_dict

PROPERTY = "C04"
NAME = "c04"
LEVEL = "exploration"
CRASH_IS_VIOLATION = True  # a run that kills the interpreter is attributed and reported by the runner
RULE = ("all variants run against a sanitizer build of the current C sources, observed three ways: AddressSanitizer/"
        "UBSan reports (log inspected after every run), a preloaded ASan-built libcrypto shim that checks the ranges "
        "handed to EVP_CipherUpdate/EVP_CipherInit_ex, and argument contracts at the Python/C boundary derived from the "
        "constants in _crypto.c (needed for overflow INSIDE the helper objects, which ASan cannot see). variant "
        "network: lossy two-endpoint runs with hostile datagrams (random, bit-flipped, truncated at every length, "
        "extended, spliced, coalesced, forged with long tokens / CIDs / lying length fields). variant config: sweep of "
        "max_datagram_size (1200..1600, 9000, 65527) and connection_id_length 4..20 on both sides with traffic that "
        "fills datagrams. variant buffer: seeded Buffer method sequences (all push/pull/seek/data_slice methods, "
        "arguments incl. negative, zero, capacity+-1, 2^62..2^64, construction from capacity and data together) on "
        "small capacities against a bytearray model. variant crypto: direct CryptoPair.encrypt_packet / decrypt_packet "
        "calls over boundary (header length, packet-number length, plaintext length) and (packet length, "
        "protected-field offset) values for the three cipher suites. "
        "Oracle: no sanitizer report, no contract breach, every rejection is a Python exception after which the helper "
        "still round-trips a known vector. non-trivial = C helpers were called with hostile / boundary input; distinct = "
        "hash of schedule + configuration (+ op sequence for buffer)")
ASSUMPTIONS = ASSUMPTIONS_TRANSPORT + [
    "OpenSSL itself is not instrumented; its accesses on behalf of _crypto.c are checked at the EVP boundary by the shim",
    "overflow inside HeaderProtection.mask (overwritten on every call) is visible only through the contracts",
    "the buffer variant is a stateful-API conformance walk rather than a simulation of anything; it shares the "
    "sanitizer build and the chooser",
]
COMPONENTS = dict(COMPONENTS_TRANSPORT)
COMPONENTS["real"] = COMPONENTS["real"] + ["_crypto.c and _buffer.c compiled with clang -fsanitize=address,undefined"]
PLAN = {
    "quick": {"budget_s": 75, "max_runs": 10 ** 7, "variants": ["network", "network", "config", "buffer", "crypto"]},
    "thorough": {"budget_s": 1200, "max_runs": 10 ** 9, "variants": ["network", "network", "config", "buffer", "crypto"]},
}

_installed = {}
BREACHES = []


def constants():
    src = open(os.path.join(bootstrap.REPO, "src", "aioquic", "_crypto.c")).read()
    out = {}
    for name in ("PACKET_LENGTH_MAX", "AEAD_TAG_LENGTH", "SAMPLE_LENGTH", "PACKET_NUMBER_LENGTH_MAX"):
        m = re.search(r"#define\s+%s\s+(\d+)" % name, src)
        out[name] = int(m.group(1)) if m else None
    return out


def install_contracts():
    """Proxies for AEAD / HeaderProtection in aioquic.quic.crypto: check every call's arguments."""
    if _installed:
        return
    bootstrap.load()
    from aioquic import _crypto
    from aioquic.quic import crypto as qcrypto

    K = constants()
    MAX, TAG, SAMPLE, PNMAX = K["PACKET_LENGTH_MAX"], K["AEAD_TAG_LENGTH"], K["SAMPLE_LENGTH"], \
        K["PACKET_NUMBER_LENGTH_MAX"]
    CryptoError = _crypto.CryptoError

    def breach(what, detail):
        BREACHES.append((what, detail))

    class CheckedAEAD:
        def __init__(self, *a):
            self._a = a
            self._real = _crypto.AEAD(*a)

        def _usable(self):
            try:
                ct = self._real.encrypt(b"verif-known-vector", b"hdr", 7)
                if self._real.decrypt(ct, b"hdr", 7) != b"verif-known-vector":
                    breach("aead-unusable-after-rejection", "round trip differs")
            except Exception as e:  # noqa
                breach("aead-unusable-after-rejection", repr(e))

        def encrypt(self, data, associated, pn):
            if MAX is not None and len(data) + TAG > MAX:
                try:
                    r = self._real.encrypt(data, associated, pn)
                except CryptoError:
                    self._usable()
                    raise
                breach("AEAD.encrypt-overflow", "plaintext %d + tag %d > scratch buffer %d, accepted" % (
                    len(data), TAG, MAX))
                return r
            return self._real.encrypt(data, associated, pn)

        def decrypt(self, data, associated, pn):
            try:
                return self._real.decrypt(data, associated, pn)
            except CryptoError:
                if len(data) > (MAX or 1 << 30) or len(data) < TAG:
                    self._usable()
                raise

    class CheckedHP:
        def __init__(self, *a):
            self._real = _crypto.HeaderProtection(*a)

        def apply(self, header, payload):
            pn_length = (header[0] & 3) + 1 if header else 1
            bad = None
            if MAX is not None and len(header) + len(payload) > MAX:
                bad = "header %d + payload %d > scratch buffer %d" % (len(header), len(payload), MAX)
            elif len(payload) < PNMAX - pn_length + SAMPLE:
                bad = "payload %d too short for the %d-byte sample at offset %d" % (
                    len(payload), SAMPLE, PNMAX - pn_length)
            if bad:
                try:
                    r = self._real.apply(header, payload)
                except CryptoError:
                    raise
                breach("HeaderProtection.apply-out-of-bounds", bad + ", accepted")
                return r
            return self._real.apply(header, payload)

        def remove(self, packet, pn_offset):
            bad = None
            if MAX is not None and pn_offset + PNMAX > MAX:
                bad = "pn_offset %d + 4 > scratch buffer %d" % (pn_offset, MAX)
            elif pn_offset + PNMAX + SAMPLE > len(packet):
                bad = "sample at %d..%d lies beyond the %d-byte packet" % (
                    pn_offset + PNMAX, pn_offset + PNMAX + SAMPLE, len(packet))
            if bad:
                try:
                    r = self._real.remove(packet, pn_offset)
                except CryptoError:
                    raise
                breach("HeaderProtection.remove-out-of-bounds", bad + ", accepted")
                return r
            return self._real.remove(packet, pn_offset)

    qcrypto.AEAD = CheckedAEAD
    qcrypto.HeaderProtection = CheckedHP
    _installed["ok"] = True


_log_pos = {}


def sanitizer_reports():
    """new text in this process's ASan/UBSan log since the last call"""
    prefix = os.environ.get("VERIF_ASAN_LOG")
    if not prefix:
        return ""
    path = "%s.%d" % (prefix, os.getpid())
    try:
        size = os.path.getsize(path)
    except OSError:
        return ""
    pos = _log_pos.get(path, 0)
    if size <= pos:
        return ""
    with open(path, "r", errors="replace") as f:
        f.seek(pos)
        text = f.read()
    _log_pos[path] = size
    return text


def classify_report(text):
    kind = "report"
    m = re.search(r"ERROR: AddressSanitizer: ([\w-]+)", text)
    if m:
        kind = m.group(1)
    else:
        m = re.search(r"runtime error: ([^\n]{0,60})", text)
        if m:
            kind = "ubsan:" + re.sub(r"[^a-z ]", "", m.group(1).lower()).strip().replace(" ", "-")[:40]
    where = "?"
    for m in re.finditer(r"#\d+ 0x[0-9a-f]+ in (\w+)", text):
        fn = m.group(1)
        if fn.startswith(("AEAD_", "HeaderProtection_", "Buffer_", "EVP_")):
            where = fn
            if not fn.startswith("EVP_"):
                break
    return "%s@%s" % (kind, where)


def verdict(out, kernel=None):
    """turn sanitizer reports / contract breaches of the run just executed into a violation"""
    text = sanitizer_reports()
    if text and "ERROR: AddressSanitizer" not in text and "runtime error:" not in text:
        text = ""  # e.g. "WARNING: AddressSanitizer failed to allocate ..." for a refused huge capacity
    # a contract breach is judged before a sanitizer report: the sanitizer reports each code location only once
    # per process (recover mode), so its presence depends on what the process ran earlier; the contracts do not
    if BREACHES and out.violation is None:
        what, detail = BREACHES[0]
        v = Violation("c04.contract", what, "%s: %s (%d breaches in this run)%s" % (
            what, detail, len(BREACHES), ("\nsanitizer report of the same run:\n" + text[:800]) if text else ""))
        out.violation = violation_dict(v, kernel)
    if text and out.violation is None:
        v = Violation("c04.sanitizer", classify_report(text), "sanitizer report during this run:\n" + text[:1500])
        out.violation = violation_dict(v, kernel)
    del BREACHES[:]


FAULTS = ("drop", "dup", "delay", "timer-late")
BIG = (1200, 1252, 1350, 1472, 1484, 1485, 1500, 1501, 1600, 9000, 65527)
PROFILES = {
    "network": {"faults": FAULTS, "t_adv_max": 3.0, "max_ops": 6, "retry_p": 0.2, "allow_vn": True,
                "cid_lengths": (8, 4, 5, 12, 16, 20), "fair_budget": 30.0, "idle_timeouts": (10.0,)},
    "config": {"faults": ("drop", "delay"), "t_adv_max": 2.0, "max_ops": 6, "datagram_sizes": BIG,
               "cid_lengths": tuple(range(4, 21)), "sizes": (1200, 3000, 20000, 66000, 66000), "fair_budget": 30.0,
               "idle_timeouts": (10.0,), "small_limits": 0.0},
}


def run_buffer(seed, replay):
    """Buffer method sequences against a bytearray model (stateful-API walk under the sanitizer build)."""
    bootstrap.load()
    from aioquic.buffer import Buffer, BufferReadError, BufferWriteError

    ch = Chooser(seed, replay)
    c = ch.stream("buffer")
    out = Outcome(seed)
    cap = (0, 1, 2, 3, 7, 8, 9, 16, 31, -1, -8, 1 << 62)[c.choose(12)]
    if cap < 0 or cap > 1 << 40:
        # an unusable capacity must be rejected by the constructor (never hand out an object whose
        # storage does not exist: it is not touched here, that would crash the harness)
        try:
            Buffer(capacity=cap)
            accepted = True
        except (ValueError, MemoryError, OverflowError):
            accepted = False
        if accepted:
            out.violation = violation_dict(Violation(
                "c04.buffer", "unusable-capacity-accepted",
                "Buffer(capacity=%d) returned an object instead of raising" % cap))
        out.summary = {"reason": "violation" if accepted else "done", "steps": 1, "sim_time": 0.0, "fired": {},
                       "probes": {"rejected:constructor": 0 if accepted else 1}, "extra": {"buffer_ops": 1},
                       "digest": stable_hash(("ctor", cap, accepted)), "states": [repr((cap, 0))]}
        out.choices = ch.dump()
        out.nontrivial = True
        out.signature = stable_hash(("ctor", cap))
        out.sample = {"seed": seed, "variant": "buffer", "capacity": cap, "ops": [("Buffer()", "rejected")]}
        return out
    k0 = c.choose(4)
    if k0 == 0:
        init = bytes((i * 37 + 1) & 0xFF for i in range(cap))
        buf = Buffer(data=init)
        model = bytearray(init)
    elif k0 == 3:
        # both arguments: whatever capacity results, the initial contents must fit in it
        init = bytes((i * 37 + 1) & 0xFF for i in range((0, 1, 5, 8, 9, 40, 300)[c.choose(7)]))
        try:
            buf = Buffer(capacity=cap, data=init)
        except (ValueError, MemoryError, OverflowError, TypeError):
            buf = None
        if buf is None:
            buf = Buffer(data=init)
        if buf.capacity < len(init):
            out.violation = violation_dict(Violation(
                "c04.buffer", "initial-data-larger-than-capacity",
                "Buffer(capacity=%d, data=<%d bytes>) has capacity %d: the initial contents were copied into a "
                "smaller allocation" % (cap, len(init), buf.capacity)))
            out.summary = {"reason": "violation", "steps": 1, "sim_time": 0.0, "fired": {}, "probes": {},
                           "extra": {"buffer_ops": 1}, "digest": stable_hash(("ctor2", cap, len(init))),
                           "states": [repr((cap, len(init)))]}
            out.choices = ch.dump()
            out.nontrivial = True
            out.signature = stable_hash(("ctor2", cap, len(init)))
            out.sample = {"seed": seed, "variant": "buffer", "capacity": cap, "ops": [("Buffer(capacity,data)", "bad")]}
            return out
        cap = buf.capacity
        model = bytearray(buf.data_slice(0, cap))
        if bytes(model[:len(init)]) != init:
            out.violation = violation_dict(Violation("c04.buffer", "initial-data-wrong",
                                                     "Buffer(capacity, data) does not start with the data"))
    else:
        buf = Buffer(capacity=cap)
        # a fresh buffer's bytes are unspecified (uninitialised, not out of bounds): start the model
        # from what is there
        model = bytearray(buf.data_slice(0, cap))
    pos = 0
    ops = []
    probes = {}
    ODD = (0, 1, 2, -1, -2, cap - 1, cap, cap + 1, 255, 256, 65535, 65536, (1 << 31) - 1, 1 << 31, (1 << 32) - 1,
           1 << 32, (1 << 62) - 1, 1 << 62, (1 << 63) - 1, 1 << 63, (1 << 64) - 1, 1 << 64, -(1 << 63), -(1 << 63) - 1)

    def arg():
        return ODD[c.choose(len(ODD))]

    SIZES = {"uint8": 1, "uint16": 2, "uint32": 4, "uint64": 8}

    def varsize(v):
        return 1 if v < 64 else 2 if v < 16384 else 4 if v < (1 << 30) else 8

    try:
        for _ in range(4 + c.choose(40)):
            k = c.choose(15)
            name = None
            try:
                if k == 14:
                    # __init__ again on a live object: a refused call must leave it exactly as it was, an
                    # accepted one gives a fresh buffer of the new capacity
                    name = "__init__"
                    ncap = (-1, -8, 1 << 62, 0, 1, 5, 16)[c.choose(7)]
                    try:
                        buf.__init__(capacity=ncap)
                        ok = True
                    except (ValueError, MemoryError, OverflowError):
                        ok = False
                    if ok:
                        if ncap < 0 or ncap > 1 << 40:
                            raise Violation("c04.buffer", "unusable-capacity-accepted",
                                            "__init__(capacity=%d) on a live Buffer was accepted" % ncap)
                        cap = ncap
                        pos = 0
                        model = bytearray(buf.data_slice(0, cap))
                        ops.append((name, "ok"))
                    else:
                        ops.append((name, "rejected"))
                        probes["rejected:__init__"] = probes.get("rejected:__init__", 0) + 1
                    k = None
                if k is None:
                    pass
                elif k in (0, 1, 2, 3):
                    name = ("uint8", "uint16", "uint32", "uint64")[k]
                    n = SIZES[name]
                    got = getattr(buf, "pull_" + name)()
                    if pos + n > cap:
                        raise Violation("c04.buffer", "pull-beyond-capacity:" + name,
                                        "pull_%s at %d succeeded on a %d-byte buffer" % (name, pos, cap))
                    want = int.from_bytes(model[pos:pos + n], "big")
                    if got != want:
                        raise Violation("c04.buffer", "pull-wrong-value:" + name, "got %r want %r" % (got, want))
                    pos += n
                elif k in (4, 5, 6, 7):
                    name = ("uint8", "uint16", "uint32", "uint64")[k - 4]
                    n = SIZES[name]
                    v = arg()
                    getattr(buf, "push_" + name)(v)
                    if pos + n > cap:
                        raise Violation("c04.buffer", "push-beyond-capacity:" + name,
                                        "push_%s at %d succeeded on a %d-byte buffer" % (name, pos, cap))
                    model[pos:pos + n] = (v % (1 << (8 * n))).to_bytes(n, "big")
                    pos += n
                elif k == 8:
                    name = "pull_bytes"
                    n = arg()
                    got = buf.pull_bytes(n)
                    if n < 0 or pos + n > cap:
                        raise Violation("c04.buffer", "pull_bytes-out-of-range",
                                        "pull_bytes(%d) at %d succeeded on a %d-byte buffer" % (n, pos, cap))
                    if got != bytes(model[pos:pos + n]):
                        raise Violation("c04.buffer", "pull_bytes-wrong", "differs from the model")
                    pos += n
                elif k == 9:
                    name = "push_bytes"
                    n = (0, 1, 2, max(cap - pos, 0), max(cap - pos, 0) + 1, cap + 3)[c.choose(6)]
                    data = bytes((7 * i + n) & 0xFF for i in range(n))
                    buf.push_bytes(data)
                    if pos + n > cap:
                        raise Violation("c04.buffer", "push_bytes-beyond-capacity",
                                        "push_bytes(%d bytes) at %d succeeded on a %d-byte buffer" % (n, pos, cap))
                    model[pos:pos + n] = data
                    pos += n
                elif k == 10:
                    name = "seek"
                    n = arg()
                    buf.seek(n)
                    if n < 0 or n > cap:
                        raise Violation("c04.buffer", "seek-out-of-range", "seek(%d) accepted, capacity %d" % (n, cap))
                    pos = n
                elif k == 11:
                    name = "data_slice"
                    a, b = arg(), arg()
                    got = buf.data_slice(a, b)
                    if a < 0 or b < 0 or a > cap or b > cap or b < a:
                        raise Violation("c04.buffer", "data_slice-out-of-range",
                                        "data_slice(%d, %d) accepted, capacity %d" % (a, b, cap))
                    if got != bytes(model[a:b]):
                        raise Violation("c04.buffer", "data_slice-wrong", "differs from the model")
                elif k == 12:
                    name = "pull_uint_var"
                    got = buf.pull_uint_var()
                    first = model[pos] if pos < cap else 0
                    n = 1 << (first >> 6)
                    if pos + n > cap:
                        raise Violation("c04.buffer", "pull_uint_var-beyond-capacity", "at %d of %d" % (pos, cap))
                    want = int.from_bytes(model[pos:pos + n], "big") & ((1 << (8 * n - 2)) - 1)
                    if got != want:
                        raise Violation("c04.buffer", "pull_uint_var-wrong", "got %r want %r" % (got, want))
                    pos += n
                elif k is not None:
                    name = "push_uint_var"
                    v = arg()
                    buf.push_uint_var(v)
                    v %= 1 << 64  # the argument is converted like C's unsigned long long (no overflow check)
                    if v >= (1 << 62):
                        raise Violation("c04.buffer", "push_uint_var-out-of-range", "value %d accepted" % v)
                    n = varsize(v)
                    if pos + n > cap:
                        raise Violation("c04.buffer", "push_uint_var-beyond-capacity", "at %d of %d" % (pos, cap))
                    model[pos:pos + n] = (v | ((n.bit_length() - 1) << (8 * n - 2))).to_bytes(n, "big")
                    pos += n
                if k is not None:
                    ops.append((name, "ok"))
            except (BufferReadError, BufferWriteError, ValueError, OverflowError, TypeError) as e:
                ops.append((name, type(e).__name__))
                probes["rejected:" + str(name)] = probes.get("rejected:" + str(name), 0) + 1
            # the buffer stays usable and consistent
            if buf.tell() != pos:
                raise Violation("c04.buffer", "position-differs", "tell()=%d model=%d after %s" % (
                    buf.tell(), pos, ops[-1]))
            if buf.capacity != cap:
                raise Violation("c04.buffer", "capacity-changed", "%d != %d" % (buf.capacity, cap))
            if buf.eof() != (pos == cap):
                raise Violation("c04.buffer", "eof-differs", "eof()=%s at %d of %d" % (buf.eof(), pos, cap))
            if bytes(buf.data_slice(0, cap)) != bytes(model):
                raise Violation("c04.buffer", "content-differs", "buffer content differs from the model after %s" % (
                    ops[-1],))
    except Violation as v:
        out.violation = violation_dict(v)
    out.summary = {"reason": "violation" if out.violation else "done", "steps": len(ops), "sim_time": 0.0, "fired": {},
                   "probes": probes, "extra": {"buffer_ops": len(ops)},
                   "digest": stable_hash(ops), "states": [repr((cap, min(pos, 40)))]}
    out.choices = ch.dump()
    out.nontrivial = any(r != "ok" for _, r in ops)
    out.signature = stable_hash((cap, ops))
    out.sample = {"seed": seed, "variant": "buffer", "capacity": cap, "ops": ops[:14]}
    return out


def run_crypto(seed, replay):
    """Direct sealing / opening walk: CryptoPair.encrypt_packet over (header length, packet-number length,
    plaintext length) and decrypt_packet over (packet length, protected-field offset), boundary values of every
    scratch-buffer and sample constant, all three cipher suites; contracts + sanitizer + shim observe."""
    bootstrap.load()
    from aioquic.quic import crypto as qcrypto
    from aioquic.quic.crypto import CryptoError, CryptoPair
    from aioquic.tls import CipherSuite

    ch = Chooser(seed, replay)
    c = ch.stream("crypto")
    out = Outcome(seed)
    K = constants()
    MAX = K["PACKET_LENGTH_MAX"] or 1500
    suite = (CipherSuite.AES_128_GCM_SHA256, CipherSuite.AES_256_GCM_SHA384, CipherSuite.CHACHA20_POLY1305_SHA256)[
        c.choose(3)]
    version = (1, 0x6B3343CF)[c.choose(2)]
    secret = bytes((i * 13 + 5) & 0xFF for i in range(48 if suite == CipherSuite.AES_256_GCM_SHA384 else 32))
    tx, rx = CryptoPair(), CryptoPair()
    tx.send.setup(cipher_suite=suite, secret=secret, version=version)
    rx.recv.setup(cipher_suite=suite, secret=secret, version=version)
    ops = []
    probes = {}
    HL = (1, 2, 3, 5, 7, 9, 19, 20, 50, 300, MAX - 40, MAX - 21, MAX - 20, MAX - 17, MAX - 16, MAX - 1, MAX, MAX + 1,
          MAX + 200)
    PL = (0, 1, 2, 3, 4, 5, 15, 16, 17, 19, 20, 21, 100, 1162, 1200, MAX - 60, MAX - 36, MAX - 35, MAX - 17, MAX - 16,
          MAX - 15, MAX, MAX + 1, 2 * MAX, 20000, 65535)
    PNS = (0, 1, 255, 256, 65535, (1 << 32) - 1, 1 << 32, (1 << 62) - 1)

    def known_vector():
        hdr = bytes([0x41]) + bytes(8) + bytes([0, 7])
        pkt = tx.encrypt_packet(hdr, b"\x01" * 30, 7)
        h, pl, pn = rx.decrypt_packet(pkt, 9, 0)
        if (h, pl, pn) != (hdr, b"\x01" * 30, 7):
            raise Violation("c04.crypto", "helper-unusable-after-rejection",
                            "a plain packet no longer round-trips after %r" % (ops[-1:],))

    try:
        for _ in range(3 + c.choose(24)):
            if c.choose(2) == 0:
                pnl = 1 + c.choose(4)
                hl = HL[c.choose(len(HL))] + (c.choose(3) - 1)
                pl = PL[c.choose(len(PL))]
                if c.choose(4) == 0:  # aim at the exact capacity of the scratch buffer
                    pl = max(MAX - 16 - hl + (c.choose(5) - 2), 0)
                hl = max(hl, 1)
                header = bytes([0x40 | (pnl - 1)]) + bytes((i * 3 + 1) & 0xFF for i in range(hl - 1))
                payload = bytes((i * 5 + 2) & 0xFF for i in range(pl))
                pn = PNS[c.choose(len(PNS))]
                name = "seal(h=%d,pnl=%d,p=%d)" % (hl, pnl, pl)
                try:
                    pkt = tx.encrypt_packet(header, payload, pn)
                    if len(pkt) != hl + pl + 16:
                        raise Violation("c04.crypto", "sealed-length-wrong", "%s returned %d bytes" % (name, len(pkt)))
                    ops.append((name, "ok"))
                    probes["sealed"] = probes.get("sealed", 0) + 1
                except CryptoError:
                    ops.append((name, "CryptoError"))
                    probes["rejected:seal"] = probes.get("rejected:seal", 0) + 1
                    known_vector()
            else:
                n = (0, 1, 2, 5, 16, 19, 20, 21, 24, 25, 36, 37, 100, 1200, MAX - 1, MAX, MAX + 1, MAX + 41, 2 * MAX,
                     65535)[c.choose(20)]
                off = (0, 1, 2, 5, 9, 18, n - 21, n - 20, n - 19, n - 4, n, n + 1, MAX - 5, MAX - 4, MAX - 3, MAX,
                       MAX + 36, 65531, (1 << 31) - 1, -1)[c.choose(20)]
                packet = bytes((i * 11 + 3) & 0xFF for i in range(n))
                name = "open(n=%d,off=%d)" % (n, off)
                try:
                    rx.decrypt_packet(packet, off, PNS[c.choose(len(PNS))])
                    ops.append((name, "ok"))
                except (CryptoError, ValueError, OverflowError):
                    ops.append((name, "rejected"))
                    probes["rejected:open"] = probes.get("rejected:open", 0) + 1
                    known_vector()
    except Violation as v:
        out.violation = violation_dict(v)
    out.summary = {"reason": "violation" if out.violation else "done", "steps": len(ops), "sim_time": 0.0, "fired": {},
                   "probes": probes, "extra": {"crypto_ops": len(ops)}, "digest": stable_hash(ops),
                   "states": [repr((int(suite), version))]}
    out.choices = ch.dump()
    out.nontrivial = True
    out.signature = stable_hash((int(suite), version, ops))
    out.sample = {"seed": seed, "variant": "crypto", "suite": int(suite), "version": version, "ops": ops[:14]}
    return out


def run_one(seed, tier="quick", variant=None, replay=None):
    variant = variant or "network"
    if bootstrap._loaded and bootstrap._loaded.get("flavour") != "asan":
        raise RuntimeError("C04 must run against the sanitizer build (cli.py re-executes under ASan)")
    os.environ.setdefault("VERIF_CFLAVOUR", "asan")
    install_contracts()
    sanitizer_reports()  # discard anything that predates this run
    del BREACHES[:]
    if variant in ("buffer", "crypto"):
        out = run_buffer(seed, replay) if variant == "buffer" else run_crypto(seed, replay)
        verdict(out)
        return out
    holder = {}

    def make(mon):
        holder["h"] = HostileInjector(mon, rate=0.35 if variant == "network" else 0.05)
        return [holder["h"], DeliveryGoal()]

    def extra(sim, s):
        h = holder["h"]
        for k, v in h.counts.items():
            s["probes"]["hostile:" + k] = v
        s["probes"]["mds:%d" % sim.cfg["client_mds"]] = 1
        s["probes"]["mds:%d" % sim.cfg["server_mds"]] = 1
        s["states"] = [repr((sim.cfg["client_mds"], sim.cfg["server_mds"], sim.cfg["client_cid_len"],
                             sim.cfg["server_cid_len"]))]

    out = run_transport(seed, PROFILES[variant], make, replay=replay, monitor=True, variant=variant,
                        extra_summary=extra)
    verdict(out)
    out.nontrivial = True
    return out
