"""Oracles that judge the decrypted wire (dgram.meta from sim.monitor.WireMonitor)."""
from sim.kernel import Violation
from sim.transport import Oracle
from wire import frames as wf

APP_KEY_LABELS = {"client": "SERVER_TRAFFIC_SECRET_0", "server": "CLIENT_TRAFFIC_SECRET_0"}
HS_KEY_LABELS = {"client": "SERVER_HANDSHAKE_TRAFFIC_SECRET", "server": "CLIENT_HANDSHAKE_TRAFFIC_SECRET"}


def genuine_packets(dgram):
    return [p for p in (dgram.meta or []) if not p.opaque and p.pn is not None]


# =============================================================================== C13
class C13Oracle(Oracle):
    """Datagram size, Initial padding, anti-amplification."""

    def __init__(self):
        self.sent_to = {}  # dst addr -> bytes the server sent there
        self.recv_from = {}  # src addr -> bytes delivered to the server from there
        self.validated = set()
        self.max_ratio_seen = 0.0
        self.n_checked = 0
        self.flight_budget = None
        self.own_amp_budget = None
        self.sent_in_call = 0
        self.challenged = {}  # PATH_CHALLENGE data -> addresses it was sent to

    def on_start(self, sim):
        self.sim = sim

    def on_api_call(self, ep, name, args):
        if name == "datagrams_to_send":  # read only to CLASSIFY a violation, never for the verdict
            loss = ep.conn._loss
            self.flight_budget = loss.congestion_window - loss.bytes_in_flight
            self.probe_in_force = bool(getattr(ep.conn, "_probe_pending", False))
            self.own_amp_budget = None
            self.sent_in_call = 0
            paths = ep.conn._network_paths
            if paths and not paths[0].is_validated:
                self.own_amp_budget = paths[0].bytes_received * 3 - paths[0].bytes_sent

    def _situation(self, p, disc):
        """classification only: two situations in which the unchanged builder never cuts a datagram short (the
        closing packets are not subject to the congestion window, a probe after a timeout gets a full datagram);
        a short Initial datagram there is something else than the recorded padding findings"""
        if any(f.name.startswith("CONNECTION_CLOSE") for f in p.frames):
            return ":closing-packet"
        if getattr(self, "probe_in_force", False) and "amplification-budget" not in disc:
            return ":probe-after-timeout"
        return ""

    def on_frontend_datagram(self, ep, dgram, copy_index):
        # received by the server all the same (a Retry / Version Negotiation answer is sent on its account)
        self.recv_from[dgram.src] = self.recv_from.get(dgram.src, 0) + len(dgram.data)
        self.front_counted = getattr(self, "front_counted", set())
        self.front_counted.add((dgram.id, copy_index))

    def on_datagram_delivered(self, ep, dgram, copy_index):
        if ep.is_client:
            return
        if (dgram.id, copy_index) not in getattr(self, "front_counted", ()):
            self.recv_from[dgram.src] = self.recv_from.get(dgram.src, 0) + len(dgram.data)
        # the oracle's deliberately EARLY notion of validation: a Handshake-keyed packet arrived from the
        # address the server sent its first flight to (it proves receipt of the server's Initial THERE; a
        # copy of such a packet from any other address proves nothing about that address), or a
        # PATH_RESPONSE arrived from the address (aioquic may validate later: merely stricter)
        for p in genuine_packets(dgram):
            if p.ptype == "handshake":
                if getattr(self, "server_first_dst", None) in (None, dgram.src):
                    self.validated.add(dgram.src)
            elif p.ptype == "1rtt":
                for f in p.frames:
                    if f.type == wf.PATH_RESPONSE:
                        self.validated.add(dgram.src)
                        # RFC 9000 8.2.3: a PATH_RESPONSE received on ANY path validates the path
                        # on which the matching PATH_CHALLENGE was sent
                        for addr in self.challenged.get(bytes(f["data"]), ()):
                            self.validated.add(addr)

    def on_datagram_sent(self, ep, dgram):
        if not ep.is_client:
            if getattr(self, "server_first_dst", None) is None and any(
                    (not p.opaque) and p.ptype == "initial" for p in (dgram.meta or [])):
                self.server_first_dst = dgram.dst  # where the server's Initial (ServerHello) went
            for p in genuine_packets(dgram):
                for f in p.frames:
                    if f.type == wf.PATH_CHALLENGE:
                        self.challenged.setdefault(bytes(f["data"]), set()).add(dgram.dst)
        n = len(dgram.data)
        limit = ep.config.max_datagram_size
        self.n_checked += 1
        if n > limit:
            raise Violation("c13.size", "datagram-larger-than-max_datagram_size",
                            "%s handed out a %d-byte datagram, max_datagram_size is %d" % (ep.name, n, limit))
        for p in dgram.meta or []:
            if p.ptype != "initial" or p.opaque:
                continue
            if ep.is_client and n < 1200:
                disc = "client-initial-datagram-below-1200:" + ("ack-eliciting" if p.ack_eliciting else "ack-only")
                if self.flight_budget is not None and self.flight_budget < 1200:
                    disc += "/flight-budget-below-1200"
                disc += self._situation(p, disc)
                raise Violation("c13.padding", disc,
                                "client datagram with an Initial packet (#%s %s) is only %d bytes" % (
                                    p.pn, [f.name for f in p.frames], n))
            if not ep.is_client and p.ack_eliciting and n < 1200:
                disc = "server-ack-eliciting-initial-datagram-below-1200"
                dst = dgram.dst
                left = 3 * self.recv_from.get(dst, 0) - self.sent_to.get(dst, 0)
                if self.own_amp_budget is not None:  # the endpoint's own (stricter) accounting
                    left = min(left, self.own_amp_budget - self.sent_in_call)
                if (dst not in self.validated or self.own_amp_budget is not None) and left < 1200:
                    # classification: the anti-amplification budget left for this address was below
                    # 1200 bytes, the datagram was cut to it instead of being withheld
                    disc += "/amplification-budget-below-1200"
                elif self.flight_budget is not None and self.flight_budget < 1200:
                    # classification: congestion window minus bytes in flight was below 1200 when
                    # the datagram was built; padding stops at the flight budget
                    disc += "/flight-budget-below-1200"
                disc += self._situation(p, disc)
                raise Violation("c13.padding", disc,
                                "server datagram with an ack-eliciting Initial packet (#%s %s) is only %d bytes" % (
                                    p.pn, [f.name for f in p.frames], n))
        self.sent_in_call += n
        if not ep.is_client:
            dst = dgram.dst
            total = self.sent_to.get(dst, 0) + n
            self.sent_to[dst] = total
            if dst not in self.validated:
                got = self.recv_from.get(dst, 0)
                if total > 3 * got:
                    raise Violation("c13.amplification", "more-than-3x-to-unvalidated-address",
                                    "server sent %d bytes in total to %s:%d from which only %d bytes were "
                                    "received and which is not validated (limit %d)" % (
                                        total, dst[0], dst[1], got, 3 * got))
                if got:
                    self.max_ratio_seen = max(self.max_ratio_seen, total / got)


# =============================================================================== C12
class C12Oracle(Oracle):
    """ACK soundness (always) and timeliness (when `timeliness` is set: runs without timer
    lateness, stalls, rebinding or connection-ID changes)."""

    def __init__(self, timeliness=False):
        self.timeliness = timeliness
        self.delivered = {}  # (receiver, space) -> set of pn
        self.largest = {}  # (receiver, space) -> largest pn delivered
        self.pending = {}  # (receiver, space) -> list of [pn, global arrival time, deadline]
        self.n_ack_frames = 0
        self.n_timely = 0
        self.n_long_next = 0
        self.max_ack_delay = 0.025  # what every aioquic endpoint advertises (transport parameter)

    def on_start(self, sim):
        self.sim = sim

    def _has_key(self, ep, label):
        f = ep.secrets
        return f is not None and label in f.getvalue()

    def on_datagram_delivered(self, ep, dgram, copy_index):
        if dgram.sender == "spoof":
            pkts = genuine_packets(dgram)
        else:
            pkts = genuine_packets(dgram)
        now = self.sim.k.now
        for p in pkts:
            key = (ep.name, p.space)
            self.delivered.setdefault(key, set()).add(p.pn)
            is_largest = p.pn > self.largest.get(key, -1)
            if is_largest:
                self.largest[key] = p.pn
            if not (self.timeliness and is_largest and p.ack_eliciting):
                continue
            if p.space == "app":
                # 1-RTT only, after E's handshake completed and E holds the keys
                if p.ptype != "1rtt" or not ep.handshake_complete:
                    continue
                if not self._has_key(ep, APP_KEY_LABELS[ep.name]):
                    continue
                self.pending.setdefault(key, []).append([p.pn, now, now + self.max_ack_delay])
            elif p.space == "handshake":
                if self._has_key(ep, HS_KEY_LABELS[ep.name]):
                    self.pending.setdefault(key, []).append([p.pn, now, None])
            elif p.space == "initial":
                if len(dgram.data) >= 1200 or ep.is_client:
                    self.pending.setdefault(key, []).append([p.pn, now, None])

    def on_datagram_sent(self, ep, dgram):
        now = self.sim.k.now
        for p in genuine_packets(dgram):
            key = (ep.name, p.space)
            acked = None
            for f in p.frames:
                if f.type in (wf.ACK, wf.ACK_ECN):
                    self.n_ack_frames += 1
                    have = self.delivered.get(key, ())
                    acked = f["ranges"]
                    for lo, hi in acked:
                        for pn in range(lo, hi + 1):
                            if pn not in have:
                                raise Violation(
                                    "c12.soundness", "acks-packet-never-delivered",
                                    "%s acknowledges %s packet number %d which was never delivered to it "
                                    "(ranges %s)" % (ep.name, p.space, pn, acked))
            if not self.timeliness:
                continue
            pend = self.pending.get(key)
            if not pend:
                continue
            if p.space in ("initial", "handshake"):
                # "acknowledged by the next transmission in that space"
                if p.ptype not in ("initial", "handshake"):
                    continue
                for item in pend:
                    pn = item[0]
                    if acked is None or not any(lo <= pn <= hi for lo, hi in acked):
                        raise Violation(
                            "c12.timeliness", "next-%s-transmission-does-not-ack" % p.space,
                            "%s: ack-eliciting %s packet %d (largest so far) was delivered at t=%.6f but the next "
                            "%s packet it sent (#%d, frames %s) does not acknowledge it" % (
                                ep.name, p.space, pn, item[1], p.space, p.pn, [f.name for f in p.frames]))
                    self.n_long_next += 1
                self.pending[key] = []
            elif acked is not None:
                rest = []
                for item in pend:
                    if any(lo <= item[0] <= hi for lo, hi in acked):
                        self.n_timely += 1
                    else:
                        rest.append(item)
                self.pending[key] = rest

    def after_step(self):
        if not self.timeliness:
            return
        now = self.sim.k.now
        for (name, space), pend in self.pending.items():
            if space != "app" or not pend:
                continue
            ep = self.sim.client if name == "client" else self.sim.server
            if ep.terminated or ep.broken or ep.crashed:
                pend.clear()
                continue
            paths = getattr(ep.conn, "_network_paths", None)
            if not ep.is_client and paths and not paths[0].is_validated:
                # after a client address change the server may not even send acknowledgements beyond three
                # times what it received on the new path: not judged until the path is validated
                pend.clear()
                continue
            # only lateness injected by the harness counts (a connection that keeps asking for a
            # deadline in the past is late by its own doing); respin back-off is at most 20 ms
            late = min(self.sim.last_timer_injected.get(name, 0.0), 0.021)
            for item in pend:
                # slack: injected timer lateness, the endpoint's clock drift, one microsecond ticks
                if now > item[2] + late + 0.002:
                    raise Violation(
                        "c12.timeliness", "1rtt-ack-later-than-max_ack_delay",
                        "%s: ack-eliciting 1-RTT packet %d (largest so far) delivered at t=%.6f is still not "
                        "covered by any ACK sent by t=%.6f (advertised max_ack_delay 25 ms)" % (
                            name, item[0], item[1], now))


# =============================================================================== C06
class C06Oracle(Oracle):
    """The sender never exceeds the peer's flow-control and stream-count limits.
    Limits are credited to the sender when a packet carrying them is DELIVERED to it
    (a superset of 'processed'), initial limits from the peer's configuration."""

    def __init__(self):
        self.st = {}

    def on_start(self, sim):
        self.sim = sim
        for ep in sim.endpoints:
            peer_side = "server" if ep.is_client else "client"
            self.st[ep.name] = {
                "max_data": sim.cfg[peer_side + "_max_data"],
                "stream_initial": sim.cfg[peer_side + "_max_stream_data"],
                "stream_limit": {},
                "max_streams": {False: sim.peer_stream_limit(ep, False), True: sim.peer_stream_limit(ep, True)},
                "highest": {},
                "blocked_seen": 0,
            }

    def on_datagram_delivered(self, ep, dgram, copy_index):
        s = self.st[ep.name]
        for p in genuine_packets(dgram):
            for f in p.frames:
                if f.type == wf.MAX_DATA:
                    s["max_data"] = max(s["max_data"], f["limit"])
                elif f.type == wf.MAX_STREAM_DATA:
                    sid = f["stream_id"]
                    s["stream_limit"][sid] = max(s["stream_limit"].get(sid, self.sim.peer_stream_data_limit(ep, sid)),
                                                 f["limit"])
                elif f.type in (wf.MAX_STREAMS_BIDI, wf.MAX_STREAMS_UNI):
                    uni = f.type == wf.MAX_STREAMS_UNI
                    s["max_streams"][uni] = max(s["max_streams"][uni], f["limit"])

    def on_datagram_sent(self, ep, dgram):
        s = self.st[ep.name]
        for p in genuine_packets(dgram):
            for f in p.frames:
                if f.name == "STREAM":
                    sid, end = f["stream_id"], f["offset"] + len(f["data"])
                elif f.type == wf.RESET_STREAM:
                    sid, end = f["stream_id"], f["final_size"]
                elif f.type in (wf.STOP_SENDING, wf.MAX_STREAM_DATA, wf.STREAM_DATA_BLOCKED):
                    sid, end = f["stream_id"], None
                else:
                    continue
                mine = ((sid & 1) == 0) == ep.is_client
                if mine:
                    uni = bool(sid & 2)
                    if sid // 4 >= s["max_streams"][uni]:
                        raise Violation("c06.stream-count", "stream-opened-beyond-max_streams",
                                        "%s sent %s on its own stream %d (index %d) but the peer only allows %d %s "
                                        "streams" % (ep.name, f.name, sid, sid // 4, s["max_streams"][uni],
                                                     "uni" if uni else "bidi"))
                if end is None:
                    continue
                lim = s["stream_limit"].get(sid, self.sim.peer_stream_data_limit(ep, sid))
                if end > lim:
                    raise Violation("c06.stream-data", "offset-beyond-max_stream_data",
                                    "%s sent %s on stream %d up to offset %d, the latest per-stream limit delivered "
                                    "to it is %d" % (ep.name, f.name, sid, end, lim))
                if end > s["highest"].get(sid, 0):
                    s["highest"][sid] = end
                total = sum(s["highest"].values())
                if total > s["max_data"]:
                    raise Violation("c06.max-data", "sum-of-offsets-beyond-max_data",
                                    "%s: sum of highest stream offsets sent is %d (after %s stream %d to %d), the "
                                    "latest connection limit delivered to it is %d" % (
                                        ep.name, total, f.name, sid, end, s["max_data"]))


# =============================================================================== C08 (b)
class C08WireOracle(Oracle):
    """In-flight bytes put on the wire per datagrams_to_send() call versus
    congestion_window - bytes_in_flight read just before the call (the property's own
    observation point), plus one datagram for a probe requested by loss recovery."""

    def __init__(self):
        self.budget = None
        self.used = 0
        self.timer_since = {"client": 0, "server": 0}  # timeouts whose probe datagram is still owed
        self.n_calls = 0
        self.n_limited = 0
        self.max_excess = 0

    def on_start(self, sim):
        self.sim = sim

    def _watch_probes(self, ep):
        """A probe datagram beyond the window is owed when, and only when, loss recovery asks for one
        (probe timeout, or data rescheduled because keys are missing): observed at the recovery
        object's send_probe callback, which is independent of how the connection books the probe."""
        loss = ep.conn._loss
        if getattr(loss, "_verif_probe_watch", False):
            return
        orig = loss._send_probe
        name = ep.name

        def send_probe():
            self.timer_since[name] += 1  # "one probe datagram per timeout": each request owes one
            return orig()

        loss._send_probe = send_probe
        loss._verif_probe_watch = True

    def after_step(self):
        # first clause of the property at connection level: the bytes counted as in flight are exactly the
        # in-flight packets loss recovery still tracks (whatever restarts the connection went through)
        for ep in self.sim.endpoints:
            conn = ep.conn
            if conn is None or ep.broken:
                continue
            loss = conn._loss
            tracked = sum(p.sent_bytes for sp in loss.spaces for p in sp.sent_packets.values() if p.in_flight)
            if loss.bytes_in_flight != tracked:
                raise Violation("c08.bytes-in-flight", "connection:%s" % (
                    "more-than-tracked" if loss.bytes_in_flight > tracked else "less-than-tracked"),
                    "%s at t=%.4f: bytes_in_flight=%d but the in-flight packets still tracked in its %d packet number "
                    "spaces add up to %d" % (ep.name, self.sim.k.now, loss.bytes_in_flight, len(loss.spaces), tracked))

    def on_api_call(self, ep, name, args):
        if ep.conn is not None:
            self._watch_probes(ep)
        if name == "datagrams_to_send":
            loss = ep.conn._loss
            avail = max(loss.congestion_window - loss.bytes_in_flight, 0)
            probe = ep.config.max_datagram_size if self.timer_since[ep.name] else 0
            self.budget = (ep.name, avail, probe)
            self.used = 0
            self.credit_taken = False
            # the allowance of one probe datagram per timeout stays until a probe is actually
            # put on the wire (pacing or an empty send may defer it to a later call)
            self.n_calls += 1

    def on_datagram_sent(self, ep, dgram):
        if self.budget is None or self.budget[0] != ep.name:
            return
        pkts = dgram.meta or []
        inflight = 0
        any_inflight = False
        covered = 0
        for p in pkts:
            covered += p.size
            if p.opaque:
                continue
            if p.in_flight:
                inflight += p.size
                any_inflight = True
        if any_inflight:
            inflight += max(len(dgram.data) - covered, 0)  # datagram-level padding
        self.used += inflight
        _, avail, probe = self.budget
        allowed = max(avail, probe)
        if self.used > avail:
            self.n_limited += 1
            if not self.credit_taken:  # one owed probe datagram is being used now
                self.credit_taken = True
                self.timer_since[ep.name] = max(self.timer_since[ep.name] - 1, 0)
        if self.used > allowed:
            self.max_excess = max(self.max_excess, self.used - allowed)
            raise Violation("c08.window", "in-flight-bytes-beyond-congestion-window",
                            "%s put %d in-flight bytes on the wire in one datagrams_to_send() call; congestion "
                            "window minus bytes in flight was %d before the call (probe allowance %d)" % (
                                ep.name, self.used, avail, probe))
