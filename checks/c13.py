"""C13 Datagram emission respects size, padding and anti-amplification rules."""
from checks._common import ASSUMPTIONS_TRANSPORT, COMPONENTS_TRANSPORT, plan
from checks.wire_oracles import C13Oracle
from sim.goals import DeliveryGoal
from sim.harness import run_resumed, run_transport

PROPERTY = "C13"
NAME = "c13"
LEVEL = "exploration"
RULE = ("one seed -> configuration (max_datagram_size 1200..1472 per side, certificate chains of 1-6 certificates, "
        "CID lengths, versions) + script + fates incl. spoofed-source copies of client datagrams and client address "
        "changes; every datagram handed out is judged: size <= max_datagram_size, client Initial / server "
        "ack-eliciting Initial datagrams >= 1200 bytes, and per destination address bytes sent by the server <= 3x "
        "bytes delivered from it until a Handshake packet or PATH_RESPONSE was delivered from that address. "
        "non-trivial = a fault fired; distinct = hash of fate sequence + ops + configuration")
ASSUMPTIONS = ASSUMPTIONS_TRANSPORT + [
    "the oracle's notion of address validation is deliberately early (delivery of a Handshake packet or of any "
    "PATH_RESPONSE from the address); an implementation that validates later is merely stricter",
]
COMPONENTS = COMPONENTS_TRANSPORT
PLAN = plan(60, 900, ["handshake", "handshake", "migration", "fault_free", "zero_rtt", "asyncio_server"])

SIZES = (1200, 1200, 1252, 1350, 1472, 1280, 1400)
def op_close(sim, ep, target, size, fin):
    """the application gives up, possibly while the handshake is still in progress: the closing packets are
    datagrams like any other for the purposes of this property"""
    sim.k.trace("op", ep.name, "close")
    sim.op_log.append((round(sim.k.now, 6), ep.name, "close", 0, 0, 0))
    ep.api("close", (0, 0x100, 0xA)[target % 3], None if size % 2 else 0x1C, ("", "bye", "x" * 300)[size % 3])
    ep._closing = True
    ep.pump()


OPS_CLOSE = {"write": 10, "fin": 3, "reset": 1.5, "stop": 1.0, "ping": 1.5, "key_update": 1.0, "change_cid": 1.0,
             "close": 1.5}

PROFILES = {
    "handshake": {"faults": ("drop", "dup", "delay", "spoof", "timer-late", "clock"), "datagram_sizes": SIZES,
                  "t_adv_max": 3.0, "big_cert_p": 0.3, "blackout_on_accept_p": 0.2, "retry_p": 0.25, "op_weights": OPS_CLOSE,
                  "custom_ops": {"close": op_close}},
    "migration": {"faults": ("drop", "dup", "delay", "spoof", "rebind", "blackout", "timer-late"),
                  "datagram_sizes": SIZES, "big_cert_p": 0.3, "blackout_on_accept_p": 0.2},
    "fault_free": {"fault_free": True, "datagram_sizes": SIZES, "big_cert_p": 0.3},
    "zero_rtt": {"faults": ("drop", "dup", "delay", "blackout", "timer-late"), "datagram_sizes": SIZES,
                 "t_adv_max": 3.0, "max_ops": 5, "op_weights": OPS_CLOSE, "custom_ops": {"close": op_close},
                 "blackout_on_accept_p": 0.2},
}


def run_asyncio_server(seed, tier, replay):
    """The real aioquic.asyncio QuicServer (with and without retry=True) on the virtual-time loop of checks.c19,
    with spoofed copies of client Initials - full-size and cut short - arriving from addresses nobody owns: what
    the server sends to such an address (Retry packets included) stays within three times what came from it."""
    from checks import c19

    c19.AMPLIFICATION_MODE[0] = True
    try:
        out = c19.run_one(seed, tier=tier, variant=("retry", "multi")[seed % 2], replay=replay)
    finally:
        c19.AMPLIFICATION_MODE[0] = False
    if out.violation is not None:
        if out.violation["oracle"] == "c19.amplification":
            out.violation["oracle"] = "c13.amplification-asyncio"
        else:
            out.violation = None  # the adapter's other properties are judged by C19
            out.summary["reason"] = "done"
    return out


def run_one(seed, tier="quick", variant=None, replay=None):
    variant = variant or "handshake"
    if variant == "asyncio_server":
        return run_asyncio_server(seed, tier, replay)
    holder = {}

    def make(mon):
        holder["o"] = C13Oracle()
        return [holder["o"], DeliveryGoal()]

    def extra(sim, s):
        o = holder["o"]
        s["extra"]["datagrams_judged"] = o.n_checked
        s["probes"]["amplification_ratio_above_2.5"] = 1 if o.max_ratio_seen > 2.5 else 0
        s["probes"]["unvalidated_addresses_served"] = len([a for a in o.sent_to if a not in o.validated])

    if variant == "zero_rtt":
        # resumed connection whose 0-RTT data fills (part of) the congestion window before the
        # handshake finishes, first flights exposed to loss
        sizes = ((5000, False), (12000, False), (3000, True), (20000, False))[seed % 4]
        return run_resumed(seed, replay, PROFILES[variant], make, variant, early_writes=[sizes],
                           extra_summary=extra)
    return run_transport(seed, PROFILES[variant], make, replay=replay, monitor=True, variant=variant,
                         extra_summary=extra)
