"""C10 Stream send and receive halves conform to a reference model.

Direct drive of the real QuicStreamReceiver / QuicStreamSender: the operations ARE what loss,
duplication, reordering and retransmission do at frame level.  The reference models below are
written from the property text only and share no code with aioquic."""
import hashlib

from sim import bootstrap
from sim.chooser import Chooser
from sim.kernel import Violation
from sim.runner import Outcome, stable_hash, violation_dict

PROPERTY = "C10"
NAME = "c10"
LEVEL = "exploration"
RULE = (
    "each run = one seed -> one operation walk applied to a fresh real QuicStreamReceiver or QuicStreamSender and "
    "to an independent reference model, compared after every operation. receiver_short: stream bound 8, every "
    "(offset, length, fin) frame with offset+length <= 8 and every reset final size 0..8, walks of up to 60 ops; "
    "receiver_long: streams of 300..65536 bytes, in-order chunks, skipped (lost) chunks, re-chunked overlapping "
    "retransmissions, exact duplicates, arbitrary frames, FINs and resets at right and wrong sizes; sender_short: "
    "at most 6 (quick) / 7 (thorough) bytes written, every cap 0..bound+1, ACKED/LOST of any outstanding frame, resets; sender_long: writes up "
    "to 64 kB, datagram-sized and tiny caps, flow-control-like offset caps, acks in and out of order, losses, "
    "resets; every sender walk ends with a fair drain (generous caps, everything acknowledged). A run is "
    "non-trivial when it executed at least one interesting operation (overlap, duplicate, gap fill, final-size "
    "error, loss followed by retransmission, reset ...); distinct = distinct hash of the executed operation "
    "sequence"
)
ASSUMPTIONS = [
    "sampling, not proof: state-space closure is NOT claimed; the evidence reports the abstract implementation "
    "states reached next to the number of states reachable in the reference model for the same bound",
    "retransmitted stream data is consistent (a byte offset always carries the same byte), as QUIC requires",
    "the driver uses the halves the way the connection layer does: no write()/get_frame() after reset(), no write() "
    "after FIN, each emitted frame resolved (ACKED or LOST) at most once, get_reset_frame() only while reset_pending",
    "a FIN or reset fixing a final size BELOW data already received is a peer protocol violation the property does "
    "not define: bytes and FinalSizeError exactness are still compared, the end marker is not (probe "
    "final_below_highest)",
    "after reset() the property's two completion conditions can disagree (all data+FIN acknowledged by late acks, "
    "reset not yet acknowledged): either answer of is_finished is accepted there",
]
COMPONENTS = {
    "real": ["QuicStreamReceiver", "QuicStreamSender", "RangeSet", "QuicStreamFrame"],
    "stub": ["the peer / recovery layer (operation walk)", "reference models RxModel, TxModel"],
}
PLAN = {
    "quick": {"budget_s": 40, "max_runs": 10 ** 7,
              "variants": ["receiver_short", "receiver_long", "sender_short", "sender_long", "receiver_in_connection"]},
    "thorough": {"budget_s": 600, "max_runs": 10 ** 9,
                 "variants": ["receiver_short", "receiver_long", "sender_short", "sender_long",
                              "receiver_in_connection"]},
}

RX_SHORT_N = 8
TX_SHORT_N = {"quick": 6, "thorough": 7}  # the model BFS with outstanding frames costs 0.6 s / 11 s (8: 45 s, 1 GB)
MAX_LONG = 65536
# the stream content: never 0 (so zero-filled gaps are recognisable), period 255*256 > any shift of interest
PATTERN = bytes(((i * 151 + (i >> 8) * 29) % 255) + 1 for i in range(MAX_LONG + 8))

_A = {}


def _aq():
    if not _A:
        bootstrap.load()
        from aioquic.quic.packet import QuicStreamFrame
        from aioquic.quic.packet_builder import QuicDeliveryState
        from aioquic.quic.stream import FinalSizeError, QuicStreamReceiver, QuicStreamSender

        _A.update(Frame=QuicStreamFrame, ACKED=QuicDeliveryState.ACKED, LOST=QuicDeliveryState.LOST,
                  FinalSizeError=FinalSizeError, Receiver=QuicStreamReceiver, Sender=QuicStreamSender)
    return _A


class Log:
    """operation/result log: digest for determinism, shape for the signature, head for the sample"""

    def __init__(self):
        self.h = hashlib.sha256()
        self.shape = []
        self.head = []
        self.n = 0

    def op(self, shape, text):
        self.n += 1
        self.h.update(text.encode())
        self.h.update(b"\n")
        self.shape.append(shape)
        if len(self.head) < 14:
            self.head.append(text)


def _ranges_to_mask(ranges):
    m = 0
    for r in ranges:
        m |= ((1 << (r.stop - r.start)) - 1) << r.start
    return m


# ============================================================================ receiver
class RxModel:
    """offset -> byte map, optional fixed final size, 'reset accepted' flag"""

    def __init__(self, size):
        self.size = size
        self.byte_at = bytearray(size)  # offset -> byte
        self.have = bytearray(size)  # offset -> 1 once some frame carried it
        self.delivered = 0
        self.final = None
        self.reset = False
        self.highest = 0
        self.end_defined = True

    def would_fail(self, end, fin):
        return self.final is not None and (end > self.final or (fin and end != self.final))

    def frame(self, off, data, fin):
        """returns the bytes newly deliverable in order"""
        end = off + len(data)
        if fin:
            if self.final is None and end < self.highest:
                self.end_defined = False
            self.final = end
        if data:
            self.byte_at[off:end] = data
            self.have[off:end] = b"\x01" * len(data)
            if end > self.highest:
                self.highest = end
        nd = self.have.find(0, self.delivered)
        if nd < 0:
            nd = self.size
        out = bytes(self.byte_at[self.delivered:nd])
        self.delivered = nd
        return out

    def reset_would_fail(self, final):
        return self.final is not None and final != self.final

    def do_reset(self, final):
        self.final = final
        self.reset = True

    def end(self):
        return self.final is not None and self.delivered == self.final


class RxDriver:
    def __init__(self, size, tag, short):
        a = _aq()
        self.a = a
        self.size = size
        self.rx = a["Receiver"](stream_id=0, readable=True)
        self.m = RxModel(size)
        self.log = Log()
        self.probes = {}
        self.states = set()
        self.tag = tag
        self.short = short
        self.end_seen = False
        self.interesting = 0
        self.sent = []  # frames applied without error (for duplicates)

    def probe(self, name, interesting=True):
        self.probes[name] = self.probes.get(name, 0) + 1
        if interesting:
            self.interesting += 1

    def _classify(self, off, n, fin):
        """probes for the kind of frame, judged against the model BEFORE the frame is applied"""
        m = self.m
        end = off + n
        if n == 0:
            label = "fin_only" if fin else "empty_frame"
            self.probe(label, interesting=fin)
        else:
            got = m.have.count(1, off, end)
            buffered = m.highest > m.delivered
            if end <= m.delivered:
                label = "dup_delivered"
            elif got == n:
                label = "dup_buffered"
            elif off < m.delivered:
                label = "straddle_delivered"
                if got > m.delivered - off:
                    self.probe("straddle_delivered_and_buffered")
            elif got:
                label = "overlap_partial"
            elif off == m.delivered and not buffered:
                label = "in_order_fast"
            elif off == m.delivered:
                label = "fills_head_gap"
            else:
                label = "out_of_order"
            self.probe(label, interesting=label != "in_order_fast")
        if fin and m.final is not None and m.final == end:
            self.probe("dup_fin")
        if fin and m.final is None and end < m.highest:
            self.probe("final_below_highest")
        if fin and m.final is None and end > m.delivered and (n == 0 or off > m.delivered):
            self.probe("fin_before_gap_filled")
        if m.reset:
            self.probe("frame_after_reset")
        return label

    def frame(self, off, n, fin):
        a, m = self.a, self.m
        data = PATTERN[off:off + n]
        end = off + n
        expect_err = m.would_fail(end, fin)
        label = "final_size_error"
        if expect_err:
            self.probe("final_size_error")
        else:
            label = self._classify(off, n, fin)
        before = m.delivered
        try:
            ev = self.rx.handle_frame(a["Frame"](data=data, fin=fin, offset=off))
            err = False
        except a["FinalSizeError"]:
            ev, err = None, True
        except Exception as exc:
            raise Violation("c10.receiver-raised", "handle_frame:" + type(exc).__name__,
                            "handle_frame(offset=%d, len=%d, fin=%s) raised %r; ops so far: %s" % (
                                off, n, fin, exc, self.tail()))
        text = "frame(%d,%d,%s)" % (off, n, "fin" if fin else "-")
        shape = ("f", off, n, fin) if self.short else None
        if err != expect_err:
            self.log.op(shape, text + " -> MISMATCH")
            if err:
                raise Violation("c10.receiver-final-size", "spurious-error",
                                "handle_frame(offset=%d, len=%d, fin=%s) raised FinalSizeError but the fixed final "
                                "size is %s: no data beyond it and no disagreeing FIN; ops: %s" % (
                                    off, n, fin, m.final, self.tail()))
            raise Violation("c10.receiver-final-size", "missing-error",
                            "handle_frame(offset=%d, len=%d, fin=%s) was accepted although the final size is already "
                            "fixed at %d; ops: %s" % (off, n, fin, m.final, self.tail()))
        if err:
            self.log.op(shape or ("f", "err"), text + " -> FinalSizeError")
            self.observe()
            return
        want = m.frame(off, data, fin)
        got = bytes(ev.data) if ev is not None else b""
        got_end = bool(ev.end_stream) if ev is not None else False
        self.log.op(shape or ("f", label, fin, len(want) > n, got_end),
                    text + " -> %s" % ("None" if ev is None else "data[%d:%d]%s" % (
                        before, before + len(got), " END" if got_end else "")))
        self.sent.append((off, n, fin))
        if got != want:
            if len(got) != len(want):
                disc = "too-many-bytes" if len(got) > len(want) else "too-few-bytes"
            else:
                disc = "wrong-bytes"
            raise Violation("c10.receiver-bytes", disc,
                            "after handle_frame(offset=%d, len=%d, fin=%s) the receiver delivered %d bytes at stream "
                            "offset %d, the offset->byte map delivers %d (first difference at +%d); ops: %s" % (
                                off, n, fin, len(got), before, len(want), _first_diff(got, want), self.tail()))
        if len(want) > n and n:
            self.probe("released_buffered")
        self.end_seen = self.end_seen or got_end
        self.check_end("handle_frame(offset=%d, len=%d, fin=%s)" % (off, n, fin))
        self.observe()

    def check_end(self, what):
        m = self.m
        if m.reset or not m.end_defined:
            return
        if self.end_seen and not m.end():
            raise Violation("c10.receiver-end", "end-too-early",
                            "%s signalled end_stream but the map has delivered %d bytes and the final size is %s; "
                            "ops: %s" % (what, m.delivered, m.final, self.tail()))
        if m.end() and not self.end_seen:
            raise Violation("c10.receiver-end", "end-missing",
                            "after %s all %d bytes up to the fixed final size are delivered but end_stream was never "
                            "signalled; ops: %s" % (what, m.delivered, self.tail()))

    def reset(self, final):
        a, m = self.a, self.m
        expect_err = m.reset_would_fail(final)
        try:
            self.rx.handle_reset(final_size=final, error_code=7)
            err = False
        except a["FinalSizeError"]:
            err = True
        except Exception as exc:
            raise Violation("c10.receiver-raised", "handle_reset:" + type(exc).__name__,
                            "handle_reset(final_size=%d) raised %r; ops: %s" % (final, exc, self.tail()))
        self.log.op(("r", final) if self.short else ("r", err), "reset(%d) -> %s" % (
            final, "FinalSizeError" if err else "accepted"))
        if err != expect_err:
            raise Violation("c10.receiver-final-size", "reset-spurious-error" if err else "reset-missing-error",
                            "handle_reset(final_size=%d) %s, fixed final size is %s; ops: %s" % (
                                final, "raised FinalSizeError" if err else "was accepted", m.final, self.tail()))
        if err:
            self.probe("final_size_error")
            self.probe("reset_final_size_error")
        else:
            if m.reset:
                self.probe("dup_reset")
            elif m.final is not None:
                self.probe("reset_after_fin")
            else:
                self.probe("reset")
            if final < m.highest:
                self.probe("reset_below_highest")
            m.do_reset(final)
        self.observe()

    def observe(self):
        rx = self.rx
        if self.short:
            self.states.add((self.tag, rx._buffer_start, _ranges_to_mask(rx._ranges),
                             -1 if rx._final_size is None else rx._final_size, bool(rx.is_finished)))
        else:
            self.states.add((self.tag, min(len(rx._ranges), 6), rx._final_size is not None, bool(rx.is_finished),
                             rx._buffer_start == 0, len(rx._buffer) > 0))

    def tail(self):
        return " ; ".join(self.log.head) + (" ..." if self.log.n > len(self.log.head) else "")


def _first_diff(a, b):
    for i in range(min(len(a), len(b))):
        if a[i] != b[i]:
            return i
    return min(len(a), len(b))


def walk_receiver_short(ch, d, pre):
    cfg = ch.stream(pre + "cfg")
    ops = ch.stream(pre + "ops")
    n = RX_SHORT_N
    steps = 1 + cfg.geometric(60, 20)
    p_fin = (0.05, 0.0, 0.02, 0.15, 0.4)[cfg.choose(5)]
    p_reset = (0.01, 0.0, 0.05, 0.2)[cfg.choose(4)]
    seeded = cfg.choose(3)
    if seeded:
        # start from an arbitrary reassembly state: the maximal runs of a random set of offsets, in random order
        mask = ops.choose(1 << n)
        runs = []
        i = 0
        while i < n:
            if (mask >> i) & 1:
                j = i
                while j < n and (mask >> j) & 1:
                    j += 1
                runs.append((i, j - i))
                i = j
            else:
                i += 1
        while runs:
            off, ln = runs.pop(ops.choose(len(runs)))
            d.frame(off, ln, False)
    for _ in range(steps):
        if ops.chance(p_reset):
            d.reset(ops.choose(n + 1))
        else:
            off = ops.choose(n + 1)
            ln = ops.choose(n + 1 - off)
            d.frame(off, ln, ops.chance(p_fin))
    return {"bound": n, "p_fin": p_fin, "p_reset": p_reset, "seeded_start": bool(seeded)}


CHUNKS = (1200, 1, 7, 100, 500, 1400, 3000)


def walk_receiver_long(ch, d, pre):
    cfg = ch.stream(pre + "cfg")
    ops = ch.stream(pre + "ops")
    n = d.size
    steps = 4 + cfg.geometric(300, 60)
    # weights: in-order chunk, skip (loss), retransmit a hole (re-chunked), duplicate, arbitrary, fin-ish, reset
    w = ((10, 3, 5, 2, 2, 1, 0.2), (10, 0, 0, 0, 0, 0, 0), (4, 4, 6, 3, 3, 1, 0.3), (3, 1, 2, 6, 6, 2, 1))[cfg.choose(4)]
    cursor = 0
    holes = []
    for _ in range(steps):
        k = ops.weighted(w)
        if k == 0 or k == 1:
            ln = min(CHUNKS[ops.choose(len(CHUNKS))], n - cursor)
            if k == 1:
                if ln:
                    holes.append((cursor, ln))
                    d.probe("skipped_chunk", interesting=False)
                cursor += ln
                continue
            fin = cursor + ln == n and ops.chance(0.8)
            d.frame(cursor, ln, fin)
            cursor += ln
        elif k == 2 and holes:
            i = ops.choose(len(holes))
            off, ln = holes[i]
            # re-chunk: start a little earlier / end a little later or send only a part
            mode = ops.choose(4)
            if mode == 0:
                holes.pop(i)
            elif mode == 1:
                back = min(off, ops.choose(64))
                fwd = min(n - off - ln, ops.choose(64))
                holes.pop(i)
                off, ln = off - back, ln + back + fwd
            elif mode == 2 and ln > 1:
                part = 1 + ops.choose(ln - 1)
                holes[i] = (off + part, ln - part)
                ln = part
            else:
                part = ops.choose(ln)
                off, ln = off + part, ln - part  # tail only, hole stays
            d.frame(off, ln, off + ln == n and ops.chance(0.5))
        elif k == 3 and d.sent:
            off, ln, fin = d.sent[len(d.sent) - 1 - ops.geometric(len(d.sent) - 1, 3)]
            d.frame(off, ln, fin)
        elif k == 4:
            off = ops.choose(n + 1)
            ln = min(n - off, ops.choose(2000))
            d.frame(off, ln, ops.chance(0.05))
        elif k == 5:
            off = n if ops.chance(0.7) else ops.choose(n + 1)
            d.frame(off, 0, True)
        elif k == 6:
            d.reset(n if ops.chance(0.6) else ops.choose(n + 1))
    # fair tail: everything still missing (up to the final size, if one is fixed) arrives, then the matching FIN
    m = d.m
    target = n if m.final is None else min(m.final, n)
    while m.delivered < target:
        gap_end = m.have.find(1, m.delivered)
        if gap_end < 0 or gap_end > target:
            gap_end = target
        d.frame(m.delivered, min(gap_end - m.delivered, 1400), False)
    d.frame(target, 0, True)
    return {"size": n, "weights": list(w)}


# ============================================================================== sender
PENDING, FLIGHT, ACKED_B = 0, 1, 2
_T_EMIT = bytes([1, 1, 2]) + bytes(253)  # pending -> in flight
_T_LOST = bytes([0, 0, 2]) + bytes(253)  # in flight -> pending, acked stays
FIN_NONE, FIN_PENDING, FIN_FLIGHT, FIN_ACKED = 0, 1, 2, 3


class TxModel:
    """written bytes, per byte {pending, in flight, acked}, FIN state, reset state"""

    def __init__(self):
        self.written = bytearray()
        self.state = bytearray()
        self.fin = FIN_NONE
        self.reset = False
        self.reset_acked = False
        self.reset_in_flight = 0

    def write(self, data, end):
        self.written += data
        self.state += bytes(len(data))
        if end:
            self.fin = FIN_PENDING

    def emitted(self, start, stop, fin):
        if stop > start:
            self.state[start:stop] = self.state[start:stop].translate(_T_EMIT)
        if fin and self.fin == FIN_PENDING:
            self.fin = FIN_FLIGHT

    def delivered(self, acked, start, stop, fin):
        if acked:
            if stop > start:
                self.state[start:stop] = b"\x02" * (stop - start)
            if fin:
                self.fin = FIN_ACKED
        else:
            if stop > start:
                self.state[start:stop] = self.state[start:stop].translate(_T_LOST)
            if fin and self.fin != FIN_ACKED:
                self.fin = FIN_PENDING

    def has_pending(self):
        return self.fin == FIN_PENDING or self.state.find(0) >= 0

    def data_done(self):
        return self.fin == FIN_ACKED and self.state.count(2) == len(self.state)


class TxDriver:
    def __init__(self, tag, short):
        a = _aq()
        self.a = a
        self.tx = a["Sender"](stream_id=0, writable=True)
        self.m = TxModel()
        self.log = Log()
        self.probes = {}
        self.states = set()
        self.tag = tag
        self.short = short
        self.interesting = 0
        self.out = []  # emitted, unresolved frames (start, stop, fin)
        self.out_reset = 0
        self.high = 0
        self.fin_emitted = False
        self.acked_after_reset = False

    probe = RxDriver.probe
    tail = RxDriver.tail

    def call(self, name, fn, *args, **kw):
        try:
            return fn(*args, **kw)
        except Exception as exc:
            raise Violation("c10.sender-raised", "%s:%s" % (name, type(exc).__name__),
                            "%s%r raised %r; ops: %s" % (name, args, exc, self.tail()))

    # ---- operations
    def write(self, n, end):
        m = self.m
        off = len(m.written)
        data = PATTERN[off:off + n]
        self.call("write", self.tx.write, data, end_stream=end)
        m.write(data, end)
        self.log.op(("w", n, end) if self.short else ("w", n > 0, end), "write(%d%s)" % (n, ",fin" if end else ""))
        if n == 0 and end:
            self.probe("write_fin_only")
        self.after("write(len=%d, end_stream=%s)" % (n, end))

    def get_frame(self, max_size, max_offset):
        m = self.m
        f = self.call("get_frame", self.tx.get_frame, max_size, max_offset)
        what = "get_frame(max_size=%d, max_offset=%s)" % (max_size, max_offset)
        if f is None:
            self.log.op(("g", max_size, max_offset) if self.short else ("g", None), "get(%d,%s) -> None" % (
                max_size, max_offset))
            if m.has_pending():
                self.probe("blocked_by_caps", interesting=False)
            self.after(what)
            return None
        start = f.offset
        data = bytes(f.data)
        stop = start + len(data)
        fin = bool(f.fin)
        self.log.op(("g", max_size, max_offset, start, stop, fin) if self.short else ("g", len(data) > 0, fin),
                    "get(%d,%s) -> [%d:%d]%s" % (max_size, max_offset, start, stop, " FIN" if fin else ""))
        if start < 0 or stop > len(m.written):
            raise Violation("c10.sender-frame", "beyond-written",
                            "%s emitted [%d:%d] but only %d bytes were written; ops: %s" % (
                                what, start, stop, len(m.written), self.tail()))
        if data != bytes(m.written[start:stop]):
            raise Violation("c10.sender-frame", "wrong-bytes",
                            "%s emitted [%d:%d] whose bytes differ from what was written there (first difference at "
                            "+%d); ops: %s" % (what, start, stop, _first_diff(data, bytes(m.written[start:stop])),
                                               self.tail()))
        if len(data) > max_size:
            raise Violation("c10.sender-caps", "max-size",
                            "%s emitted %d bytes; ops: %s" % (what, len(data), self.tail()))
        if data and max_offset is not None and stop > max_offset:
            raise Violation("c10.sender-caps", "max-offset",
                            "%s emitted [%d:%d]; ops: %s" % (what, start, stop, self.tail()))
        if fin and (m.fin == FIN_NONE or stop != len(m.written)):
            raise Violation("c10.sender-frame", "fin-misplaced",
                            "%s emitted FIN at %d; written=%d, end_stream written=%s; ops: %s" % (
                                what, stop, len(m.written), m.fin != FIN_NONE, self.tail()))
        if not data and not fin:
            self.probe("empty_frame_emitted")
        if not data and fin:
            self.probe("fin_only_frame")
        if data and start < self.high and m.state.count(0, start, min(stop, self.high)):
            self.probe("lost_then_resent")  # a pending byte below the highest offset ever emitted: a retransmission
        if fin and m.fin == FIN_PENDING and self.fin_emitted:
            self.probe("lost_fin_resent")
        if stop > self.high:
            self.high = stop
        if fin:
            self.fin_emitted = True
        if len(data) == max_size and data:
            self.probe("capped_by_max_size", interesting=False)
        if data and max_offset is not None and stop == max_offset:
            self.probe("capped_by_max_offset")
        m.emitted(start, stop, fin)
        self.out.append((start, stop, fin))
        self.after(what)
        return f

    def deliver(self, idx, acked):
        m = self.m
        start, stop, fin = self.out.pop(idx)
        state = self.a["ACKED"] if acked else self.a["LOST"]
        self.call("on_data_delivery", self.tx.on_data_delivery, state, start, stop, fin)
        self.log.op(("d", acked, start, stop, fin) if self.short else ("d", acked, fin, idx == 0),
                    "%s[%d:%d]%s" % ("ack" if acked else "lost", start, stop, " FIN" if fin else ""))
        if m.reset:
            self.probe("delivery_after_reset")
        else:
            if acked:
                if idx > 0:
                    self.probe("ack_out_of_order")
                if start > 0 and m.state.count(2, 0, start) < start:
                    self.probe("ack_middle_before_head")
            else:
                self.probe("lost")
                if fin:
                    self.probe("lost_fin")
        m.delivered(acked, start, stop, fin)
        self.after("on_data_delivery(%s, %d, %d, %s)" % ("ACKED" if acked else "LOST", start, stop, fin))

    def reset(self, code):
        m = self.m
        self.call("reset", self.tx.reset, code)
        self.log.op(("R",), "reset(%d)" % code)
        if m.reset:
            self.probe("reset_again")
        else:
            self.probe("reset_with_unacked" if not m.data_done() else "reset_after_done")
            m.reset = True
        self.after("reset(%d)" % code)

    def get_reset_frame(self):
        m = self.m
        f = self.call("get_reset_frame", self.tx.get_reset_frame)
        self.log.op(("gr",), "get_reset_frame() -> final_size=%s code=%s" % (f.final_size, f.error_code))
        self.out_reset += 1
        m.reset_in_flight += 1
        self.after("get_reset_frame()")

    def deliver_reset(self, acked):
        m = self.m
        self.out_reset -= 1
        m.reset_in_flight -= 1
        self.call("on_reset_delivery", self.tx.on_reset_delivery, self.a["ACKED"] if acked else self.a["LOST"])
        self.log.op(("dr", acked), "reset %s" % ("acked" if acked else "lost"))
        if acked:
            m.reset_acked = True
            self.probe("reset_acked")
        else:
            self.probe("reset_lost")
        self.after("on_reset_delivery(%s)" % ("ACKED" if acked else "LOST"))

    # ---- compared after every operation
    def after(self, what):
        m, tx = self.m, self.tx
        fin = bool(tx.is_finished)
        data_done = m.data_done()
        if fin and not (data_done or m.reset_acked):
            raise Violation("c10.sender-finished", "finished-too-early",
                            "after %s is_finished is True but %s; ops: %s" % (what, self.unacked(), self.tail()))
        if not fin and (m.reset_acked or (data_done and not m.reset)):
            raise Violation("c10.sender-finished", "not-finished",
                            "after %s is_finished is False although %s; ops: %s" % (
                                what, "the reset was acknowledged" if m.reset_acked else
                                "all %d bytes and the FIN were acknowledged" % len(m.written), self.tail()))
        if m.reset and data_done and not m.reset_acked and not self.acked_after_reset:
            self.acked_after_reset = True
            self.probe("data_done_after_reset_unacked_reset", interesting=False)
        if m.reset:
            if not tx.buffer_is_empty:
                raise Violation("c10.sender-after-reset", "data-offered-after-reset",
                                "after %s buffer_is_empty is False although reset() was called: the connection would "
                                "ask the stream for data; ops: %s" % (what, self.tail()))
            if not m.reset_acked and m.reset_in_flight == 0 and not tx.reset_pending:
                raise Violation("c10.sender-reoffer", "reset-not-reoffered",
                                "after %s the reset is neither acknowledged nor in flight and reset_pending is False; "
                                "ops: %s" % (what, self.tail()))
        elif m.has_pending() and tx.buffer_is_empty:
            raise Violation("c10.sender-reoffer", "pending-but-buffer-empty",
                            "after %s %s but buffer_is_empty is True: the connection will never ask for them; "
                            "ops: %s" % (what, self.unacked(), self.tail()))
        self.observe()

    def unacked(self):
        m = self.m
        return "%d of %d written bytes are pending, %d in flight, FIN %s" % (
            m.state.count(0), len(m.written), m.state.count(1),
            ("not written", "pending", "in flight", "acknowledged")[m.fin])

    def observe(self):
        tx = self.tx
        if self.short:
            self.states.add((self.tag,) + tx_projection_impl(tx))
        else:
            self.states.add((self.tag, min(len(tx._pending), 5), min(len(tx._acked), 5), tx._buffer_fin is not None,
                             bool(tx._pending_eof), bool(tx._acked_fin), tx._reset_error_code is not None,
                             bool(tx.reset_pending), bool(tx.is_finished), bool(tx.buffer_is_empty)))

    # ---- bounded liveness, judged only in the fair tail of a walk
    def drain(self):
        m, tx = self.m, self.tx
        if m.reset:
            guard = 0
            while not m.reset_acked and guard < 8:
                guard += 1
                if tx.reset_pending:
                    self.get_reset_frame()
                while self.out_reset:
                    self.deliver_reset(True)
            while self.out:
                self.deliver(0, True)
            return
        guard = 0
        while not tx.buffer_is_empty:
            guard += 1
            f = self.get_frame(1 << 20, None)
            if f is None and not tx.buffer_is_empty or guard > 100000:
                raise Violation("c10.sender-reoffer", "drain-stuck",
                                "fair drain: get_frame(1<<20, None) returned None %s but buffer_is_empty stays False; "
                                "ops: %s" % (self.unacked(), self.tail()))
        if m.has_pending():
            raise Violation("c10.sender-reoffer", "not-reoffered",
                            "fair drain with generous caps ended (buffer_is_empty) but %s; ops: %s" % (
                                self.unacked(), self.tail()))
        while self.out:
            self.deliver(0, True)
        # after(): is_finished must now equal "FIN was written" (everything written is acknowledged)


def tx_projection_impl(tx):
    """(written, fin written, per-byte state string, fin state, reset called, reset pending, finished)"""
    n = tx._buffer_stop
    st = [FLIGHT] * n
    for i in range(min(tx._buffer_start, n)):
        st[i] = ACKED_B
    for r in tx._pending:
        for i in range(r.start, min(r.stop, n)):
            st[i] = PENDING
    for r in tx._acked:
        for i in range(r.start, min(r.stop, n)):
            st[i] = ACKED_B
    if tx._buffer_fin is None:
        fin = FIN_NONE
    elif tx._acked_fin:
        fin = FIN_ACKED
    elif tx._pending_eof:
        fin = FIN_PENDING
    else:
        fin = FIN_FLIGHT
    return (n, bytes(st), fin, tx._reset_error_code is not None, bool(tx.reset_pending), bool(tx.is_finished))


def walk_sender_short(ch, d, pre, n):
    cfg = ch.stream(pre + "cfg")
    ops = ch.stream(pre + "ops")
    steps = 2 + cfg.geometric(70, 18)
    p_reset = (0.01, 0.0, 0.04, 0.15)[cfg.choose(4)]
    p_lost = (0.3, 0.0, 0.6, 0.15)[cfg.choose(4)]
    m = d.m
    seeded = cfg.choose(3)
    if seeded:
        # start from an arbitrary retransmission state: one-byte frames, each left in flight, acknowledged or lost
        ln = ops.choose(n + 1)
        d.write(ln, ops.chance(0.5))
        while not d.tx.buffer_is_empty:
            if d.get_frame(1, None) is None:
                break
        for i in range(len(d.out) - 1, -1, -1):
            fate = ops.choose(3)
            if fate:
                d.deliver(i, fate == 1)
    after_reset = 0
    for _ in range(steps):
        if m.reset:
            after_reset += 1
            if after_reset > 10:
                break
            k = ops.weighted((3, 3, 3, 1))
            if k == 0 and d.tx.reset_pending:
                d.get_reset_frame()
            elif k == 1 and d.out_reset:
                d.deliver_reset(not ops.chance(0.5))
            elif k == 2 and d.out:
                d.deliver(ops.choose(len(d.out)), not ops.chance(p_lost))
            elif k == 3:
                d.reset(ops.choose(4))
            continue
        if ops.chance(p_reset):
            d.reset(ops.choose(4))
            continue
        k = ops.weighted((4, 3, 4))
        if k == 0:
            ms = ops.choose(n + 2)
            mo = ops.choose(n + 2)
            d.get_frame(ms, None if mo == 0 else mo - 1)
        elif k == 1 and m.fin == FIN_NONE:
            room = n - len(m.written)
            ln = ops.choose(room + 1)
            d.write(ln, ops.chance(0.25))
        elif k == 2 and d.out:
            d.deliver(ops.choose(len(d.out)), not ops.chance(p_lost))
    if m.fin == FIN_NONE and not m.reset and cfg.chance(0.7):
        d.write(0, True)
    d.drain()
    return {"bound": n, "p_reset": p_reset, "p_lost": p_lost, "seeded_start": bool(seeded)}


CAPS = (1200, 1400, 0, 1, 13, 100, 5000, 1 << 20)
WRITES = (1000, 0, 1, 50, 1200, 5000, 16384)


def walk_sender_long(ch, d, pre):
    cfg = ch.stream(pre + "cfg")
    ops = ch.stream(pre + "ops")
    steps = 4 + cfg.geometric(500, 120)
    limit = (20000, 3000, MAX_LONG)[cfg.choose(3)]
    p_reset = (0.003, 0.0, 0.02)[cfg.choose(3)]
    p_lost = (0.15, 0.0, 0.4, 0.05)[cfg.choose(4)]
    credit = (1 << 30, 1000, 5000)[cfg.choose(3)]  # flow-control-like offset cap, raised now and then
    m = d.m
    after_reset = 0
    for _ in range(steps):
        if m.reset:
            after_reset += 1
            if after_reset > 12:
                break
            k = ops.weighted((3, 3, 3, 0.5))
            if k == 0 and d.tx.reset_pending:
                d.get_reset_frame()
            elif k == 1 and d.out_reset:
                d.deliver_reset(not ops.chance(0.4))
            elif k == 2 and d.out:
                d.deliver(ops.geometric(len(d.out) - 1, 2), not ops.chance(p_lost))
            elif k == 3:
                d.reset(ops.choose(4))
            continue
        if ops.chance(p_reset):
            d.reset(1 + ops.choose(3))
            continue
        k = ops.weighted((6, 2, 5, 1))
        if k == 0:
            ms = CAPS[ops.choose(len(CAPS))]
            mode = ops.choose(6)
            if mode <= 2:
                mo = credit if credit < (1 << 30) else None
            elif mode == 3:
                mo = None
            elif mode == 4:
                mo = ops.choose(len(m.written) + 2)  # arbitrary, possibly below what was already sent
            else:
                mo = d.tx.highest_offset + ops.choose(3000)
            d.get_frame(ms, mo)
        elif k == 1 and m.fin == FIN_NONE:
            ln = min(WRITES[ops.choose(len(WRITES))], limit - len(m.written))
            d.write(ln, ops.chance(0.08) or (ln == 0 and len(m.written) == limit and ops.chance(0.5)))
        elif k == 2 and d.out:
            d.deliver(ops.geometric(len(d.out) - 1, 1.5), not ops.chance(p_lost))
        elif k == 3:
            credit += ops.choose(20000)
    if m.fin == FIN_NONE and not m.reset and cfg.chance(0.8):
        d.write(0 if cfg.chance(0.5) else min(700, limit - len(m.written)), True)
    d.drain()
    return {"limit": limit, "p_reset": p_reset, "p_lost": p_lost}


# ======================================================= model state counts (BFS, parent only)
def bfs_receiver_model(n=RX_SHORT_N):
    """all states (delivered, received mask, final, finished) the reference model reaches with every
    frame (offset, length, fin) with offset+length <= n and every reset final size 0..n"""
    frames = [(o, l, f) for o in range(n + 1) for l in range(n + 1 - o) for f in (0, 1)]
    start = (0, 0, -1, 0)  # delivered, mask of received offsets >= delivered, final (-1: open), reset accepted
    seen = {start}
    todo = [start]
    while todo:
        nxt = []
        for (dl, mask, final, rs) in todo:
            succ = []
            for (o, l, f) in frames:
                end = o + l
                if final >= 0 and (end > final or (f and end != final)):
                    continue
                nf = end if f else final
                nm = mask | (((1 << l) - 1) << o)
                nd = dl
                while (nm >> nd) & 1:
                    nd += 1
                nm = (nm >> nd) << nd
                succ.append((nd, nm, nf, rs))
            for fs in range(n + 1):
                if final >= 0 and fs != final:
                    continue
                succ.append((dl, mask, fs, 1))
            for s in succ:
                if s not in seen:
                    seen.add(s)
                    nxt.append(s)
        todo = nxt
    return {(dl, mask, final, bool(rs or (final >= 0 and dl == final))) for (dl, mask, final, rs) in seen}


def bfs_sender_model(n):
    """states of the reference sender model (policy: offer the lowest pending run, capped; FIN with the frame
    that reaches the end, FIN-only otherwise) under every write/cap/ack/loss/reset order, at most n bytes written.
    Returns the set of projections (written, per-byte states, fin state, reset called, reset pending, finished)."""
    # full state: (states bytes, fin, outstanding frozenset, reset, reset_pending, reset_flight, reset_acked)
    start = (b"", FIN_NONE, frozenset(), False, False, 0, False)
    seen = {start}
    todo = [start]

    def done(st, fin, reset, reset_acked):
        return reset_acked or (fin == FIN_ACKED and st.count(2) == len(st))

    proj = set()
    while todo:
        nxt = []
        for s in todo:
            st, fin, out, reset, rp, rf, ra = s
            succ = []
            if reset:
                if rp:
                    succ.append((st, fin, out, True, False, rf + 1, ra))
                if rf:
                    succ.append((st, fin, out, True, rp, rf - 1, True))
                    succ.append((st, fin, out, True, True, rf - 1, ra))
                # data deliveries after reset change nothing observable: drop the frame only
                for fr in out:
                    succ.append((st, fin, out - {fr}, True, rp, rf, ra))
            else:
                succ.append((st, fin, out, True, True, 0, False))  # reset()
                if fin == FIN_NONE:
                    for ln in range(0, n - len(st) + 1):
                        for end in (False, True):
                            if ln or end:
                                succ.append((st + bytes(ln), FIN_PENDING if end else FIN_NONE, out, False, False, 0,
                                             False))
                a = st.find(0)
                if a >= 0:
                    b = a
                    while b < len(st) and st[b] == 0:
                        b += 1
                    for stop in range(a + 1, b + 1):  # every cap
                        f = fin != FIN_NONE and stop == len(st)
                        nst = st[:a] + bytes([1]) * (stop - a) + st[stop:]
                        nfin = FIN_FLIGHT if (f and fin == FIN_PENDING) else fin
                        succ.append((nst, nfin, out | {(a, stop, f)}, False, False, 0, False))
                elif fin == FIN_PENDING:
                    succ.append((st, FIN_FLIGHT, out | {(len(st), len(st), True)}, False, False, 0, False))
                for fr in out:
                    a, b, f = fr
                    rest = out - {fr}
                    succ.append((st[:a] + bytes([2]) * (b - a) + st[b:], FIN_ACKED if f else fin, rest, False, False,
                                 0, False))
                    succ.append((st[:a] + st[a:b].translate(_T_LOST) + st[b:],
                                 FIN_PENDING if (f and fin != FIN_ACKED) else fin, rest, False, False, 0, False))
            for x in succ:
                if x not in seen:
                    seen.add(x)
                    nxt.append(x)
        todo = nxt
    for (st, fin, out, reset, rp, rf, ra) in seen:
        proj.add((len(st), st, fin, reset, rp, done(st, fin, reset, ra)))
    return proj, len(seen)


# ============================================================================= run_one
# walks per run (each on a fresh stream half, with its own chooser streams "w<i>.cfg" / "w<i>.ops")
WALKS = {"receiver_short": 1, "receiver_long": 1, "sender_short": 1, "sender_long": 1}


def run_one(seed, tier="quick", variant=None, replay=None):
    variant = variant or "receiver_short"
    if variant == "receiver_in_connection":
        # the receive half as the connection drives it: a key-holding peer sends STREAM / RESET_STREAM frames
        # with offsets, lengths and final sizes around what is already fixed (the forged histories of checks.c07),
        # judged here only for the final-size clause of this property
        from checks import c07

        out = c07.run_one(seed, tier=tier, variant="limits", replay=replay)
        if out.violation is not None:
            if "FINAL_SIZE" in out.violation["discriminator"]:
                out.violation["oracle"] = "c10.final-size-in-connection"
            else:
                out.violation = None
                out.summary["reason"] = "done"
        return out
    if variant not in WALKS:
        raise ValueError("unknown variant %r" % (variant,))
    _aq()
    bootstrap.DET.reseed(seed)
    ch = Chooser(seed, replay)
    out = Outcome(seed)
    digest = hashlib.sha256()
    probes, states, shapes, cfgs = {}, set(), [], []
    steps = interesting = 0
    reason = "completed"
    d = None
    for w in range(WALKS[variant]):
        pre = "w%d." % w
        cfg = {}
        try:
            if variant == "receiver_short":
                d = RxDriver(RX_SHORT_N, "rs", True)
                cfg = walk_receiver_short(ch, d, pre)
            elif variant == "receiver_long":
                size = (2000, 300, 20000, MAX_LONG, 5000)[ch.stream(pre + "cfg").choose(5)]
                d = RxDriver(size, "rl", False)
                cfg = walk_receiver_long(ch, d, pre)
            elif variant == "sender_short":
                d = TxDriver("ss", True)
                cfg = walk_sender_short(ch, d, pre, TX_SHORT_N.get(tier, 6))
            else:
                d = TxDriver("sl", False)
                cfg = walk_sender_long(ch, d, pre)
        except Violation as v:
            out.violation = violation_dict(v)
            out.violation["step"] = d.log.n
            out.violation["walk"] = w
            reason = "violation"
        digest.update(d.log.h.digest())
        for k, n in d.probes.items():
            probes[k] = probes.get(k, 0) + n
        states |= d.states
        shapes.append(d.log.shape)
        cfgs.append(cfg)
        steps += d.log.n
        interesting += d.interesting
        if out.violation is not None:
            break
    out.summary = {
        "reason": reason, "steps": steps, "sim_time": 0.0, "fired": {}, "probes": probes, "states": states,
        "extra": {"operations_" + variant: steps, "walks_" + variant: len(shapes)},
        "digest": digest.hexdigest()[:32], "inconclusive": False, "aborted": False,
    }
    out.choices = ch.dump()
    out.nontrivial = interesting > 0
    out.signature = variant + ":" + stable_hash(shapes)
    # the sample shows the last walk (the failing one when there is a violation)
    out.sample = {"seed": seed, "variant": variant, "walks": len(shapes), "shown_walk": len(shapes) - 1,
                  "config": cfgs[-1], "ops": d.log.head, "n_ops": d.log.n, "probes": dict(d.probes), "end": reason}
    return out


def evidence_extra(tier, total):
    by_tag = {}
    for s in total["states"]:
        by_tag.setdefault(s[0], set()).add(s[1:])
    rx_model = bfs_receiver_model(RX_SHORT_N)
    tx_n = TX_SHORT_N.get(tier, 6)
    tx_model, tx_full = bfs_sender_model(tx_n)
    rs = by_tag.get("rs", set())
    ss = by_tag.get("ss", set())
    return {
        "state_coverage": {
            "closure_claimed": False,
            "receiver_short": {
                "bound": RX_SHORT_N, "abstract_state": "(buffer_start, received-ranges mask, final_size, is_finished)",
                "implementation_states_reached": len(rs), "model_states_reachable_bfs": len(rx_model),
                "implementation_states_also_model_states": len(rs & rx_model),
            },
            "sender_short": {
                "bound": tx_n,
                "abstract_state": "(written, per-byte pending/in-flight/acked, fin state, reset called, reset_pending, "
                                  "is_finished)",
                "implementation_states_reached": len(ss), "model_states_reachable_bfs": len(tx_model),
                "implementation_states_also_model_states": len(ss & tx_model),
                "model_states_with_outstanding_frames": tx_full,
            },
            "receiver_long_coarse_states": len(by_tag.get("rl", ())),
            "sender_long_coarse_states": len(by_tag.get("sl", ())),
        }
    }
