"""C06 Sender never exceeds the peer's flow-control and stream-count limits."""
from checks._common import ASSUMPTIONS_TRANSPORT, COMPONENTS_TRANSPORT, plan
from checks.wire_oracles import C06Oracle
from sim.goals import DeliveryGoal, incomplete_streams
from sim.harness import run_transport
from sim.kernel import Violation
from sim.transport import Oracle

PROPERTY = "C06"
NAME = "c06"
LEVEL = "exploration"
RULE = ("one seed -> configuration biased to tiny peer limits (max_data / max_stream_data in {0,1,2,50,..}, "
        "stream-count limits in {0..3}) + scripts that open many streams and write more than the limits + fates "
        "(drop/dup/delay/blackout); every STREAM and RESET_STREAM frame decoded from the wire is judged against the "
        "limits delivered so far to the sender; at the end of the fair phase data that was blocked must have been "
        "delivered when the receiver raised its limits. non-trivial = a fault fired; distinct = hash of fates + ops "
        "+ configuration")
ASSUMPTIONS = ASSUMPTIONS_TRANSPORT + [
    "initial limits are taken from the peer's configuration (what its transport parameters carry)",
    "stream-count limits below aioquic's hard-coded 128 are produced by setting the receiving side's limit objects "
    "right after construction (equivalent to a peer advertising less); the sender under test is untouched",
    "runs in which a receive window is 0 are safety-only (aioquic never raises a window of 0)",
]
COMPONENTS = COMPONENTS_TRANSPORT
PLAN = plan(60, 900, ["tiny", "tiny", "streams", "fault_free"])

LIMITS = (0, 1, 2, 3, 50, 500, 1199, 1200, 1201, 4000, 20000)
OPS = {"write": 10, "fin": 3, "reset": 2.0, "stop": 1.0, "ping": 0.5, "key_update": 0.3, "change_cid": 0.3}
PROFILES = {
    "tiny": {"faults": ("drop", "dup", "delay", "blackout", "timer-late"), "small_limits": 0.9,
             "limit_values": LIMITS, "op_weights": OPS, "max_ops": 20, "split_stream_limits": 0.4},
    "streams": {"faults": ("drop", "dup", "delay"), "small_limits": 0.5, "limit_values": LIMITS,
                "small_stream_limits": 0.8, "max_streams_per_kind": 6, "op_weights": OPS, "max_ops": 24,
                "split_stream_limits": 0.4},
    "fault_free": {"fault_free": True, "small_limits": 0.9, "limit_values": LIMITS, "small_stream_limits": 0.5,
                   "op_weights": OPS, "max_ops": 20},
}


class C06Liveness(Oracle):
    """'data blocked by a limit is sent once the limit is raised': judged at the end of the fair phase,
    only in runs where every window is >= 1 and stream-count limits are the default."""

    def on_start(self, sim):
        self.sim = sim

    def at_end(self, reason):
        sim = self.sim
        if reason in ("step-cap", "api-exception"):
            return
        cfg = sim.cfg
        if min(cfg["client_max_data"], cfg["client_max_stream_data"], cfg["server_max_data"],
               cfg["server_max_stream_data"]) < 1:
            return
        if cfg["client_max_streams"] != (128, 128) or cfg["server_max_streams"] != (128, 128):
            return
        if any(cfg[side + "_stream_data_split"] and min(cfg[side + "_stream_data_split"]) < 1
               for side in ("client", "server")):
            return
        if any(e.terminated for e in sim.endpoints):
            return
        inc = incomplete_streams(sim)
        if inc:
            s = inc[0]
            raise Violation("c06.liveness", "blocked-data-never-sent",
                            "fair network since t=%.2f, run ended (%s) at t=%.2f: stream %d from %s delivered %d of %d "
                            "bytes although all windows are >= 1 and are raised as data is consumed" % (
                                cfg["t_fair"], reason, sim.k.now, s[1], s[0], s[2], s[3]))


def run_one(seed, tier="quick", variant=None, replay=None):
    variant = variant or "tiny"

    def make(mon):
        return [C06Oracle(), C06Liveness(), DeliveryGoal()]

    return run_transport(seed, PROFILES[variant], make, replay=replay, monitor=True, variant=variant)
