"""C12 Acknowledgements are sound and timely."""
from checks._common import ASSUMPTIONS_TRANSPORT, COMPONENTS_TRANSPORT, plan
from checks.wire_oracles import C12Oracle
from sim.goals import DeliveryGoal
from sim.harness import run_transport

PROPERTY = "C12"
NAME = "c12"
LEVEL = "exploration"
RULE = ("one seed -> configuration + application script + per-datagram fates; every ACK frame decoded from the "
        "wire is compared with the simulator's record of genuine packets delivered to that endpoint in that packet "
        "number space (soundness, all runs); in 'timeliness' runs (timers on time, no rebinding, no CID change) every "
        "delivered ack-eliciting packet carrying a new largest packet number must be covered by an ACK within the "
        "advertised max_ack_delay (1-RTT) or by the next transmission in that space (Initial/Handshake). "
        "non-trivial = a fault fired and more than 4 datagrams flowed; distinct = hash of adversarial-phase fate "
        "sequence + executed ops + configuration")
ASSUMPTIONS = ASSUMPTIONS_TRANSPORT + [
    "timeliness is judged only for packets the endpoint certainly could authenticate: its secrets log already held "
    "the keys of that epoch when the packet was delivered",
]
COMPONENTS = COMPONENTS_TRANSPORT
PLAN = plan(60, 900, ["soundness", "soundness", "timeliness", "timeliness_migration", "timeliness_fault_free"])

PROFILES = {
    "soundness": {"faults": ("drop", "dup", "delay", "blackout", "rebind", "timer-late", "clock", "spoof", "stall")},
    "timeliness": {"faults": ("drop", "dup", "delay", "blackout"),
                   "op_weights": {"write": 10, "fin": 3, "reset": 1.5, "stop": 1.0, "ping": 2.5}},
    # address changes in the middle of bulk transfers: path challenges and responses compete with the
    # acknowledgements for room in the packets of a sender whose window is full
    "timeliness_migration": {"faults": ("drop", "dup", "delay", "rebind"), "max_rebinds": 4, "rebind_mean": 1.5,
                             "sizes": (1200, 6000, 20000, 66000, 66000, 200000),
                             "op_weights": {"write": 10, "fin": 3, "reset": 0.5, "stop": 0.5, "ping": 1.5}},
    "timeliness_fault_free": {"fault_free": True,
                              "op_weights": {"write": 10, "fin": 3, "reset": 1.5, "stop": 1.0, "ping": 2.5}},
}


def run_one(seed, tier="quick", variant=None, replay=None):
    variant = variant or "soundness"
    timeliness = variant.startswith("timeliness")
    holder = {}

    def make(mon):
        holder["o"] = C12Oracle(timeliness=timeliness)
        return [holder["o"], DeliveryGoal()]

    def extra(sim, s):
        o = holder["o"]
        s["extra"]["ack_frames_checked"] = o.n_ack_frames
        s["extra"]["timely_1rtt_acks"] = o.n_timely
        s["extra"]["next_transmission_acks"] = o.n_long_next

    return run_transport(seed, PROFILES[variant], make, replay=replay, monitor=True, variant=variant,
                         extra_summary=extra)
