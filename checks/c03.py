"""C03 Handshake completes only with the authentic peer and both sides agree."""
from checks._common import ASSUMPTIONS_TRANSPORT, COMPONENTS_TRANSPORT
from sim import fixtures
from sim.forger import Forger
from sim.goals import DeliveryGoal
from sim.harness import run_transport
from sim.kernel import Violation
from sim.transport import Oracle, V1, V2
from wire import frames as wf

PROPERTY = "C03"
NAME = "c03"
LEVEL = "exploration"
RULE = (
    "variant agreement: one seed -> a PAIR of configurations (certificate key type RSA/P-256/P-384/Ed25519/Ed448 and "
    "chains, cipher-suite lists and orders on both sides incl. disjoint ones, version lists / original version incl. "
    "incompatible ones (Version Negotiation), ALPN lists incl. disjoint ones, Retry on/off) under drop/dup/reorder; "
    "whenever both endpoints report HandshakeCompleted their secrets logs agree on every label both logged and QUIC "
    "version, cipher suite, ALPN and resumption status are equal; with an empty intersection of suites, ALPNs or "
    "versions neither endpoint ever completes. variant resumption: a first connection obtains a session ticket, the "
    "application keeps it, a second connection resumes (with and without 0-RTT data); same agreement oracle plus "
    "session_resumed on both sides. variant bad_cert: wrong-name, expired, not-yet-valid, self-signed, unknown-CA and "
    "wrong-key servers: the client never completes. variant mitm (fault: in-flight rewrite with the keys): one byte "
    "inside a CRYPTO frame of an Initial/Handshake packet is changed and the packet re-protected; if those handshake "
    "bytes had not been delivered to the receiver before, the receiving endpoint must never complete. variant "
    "tls_integrity (fault_enumeration at TLS level): every byte position x masks {01,80,FF} of every handshake "
    "message between two real tls.Context objects. distinct = hash of configuration pair + schedule")
ASSUMPTIONS = ASSUMPTIONS_TRANSPORT + [
    "transcript-integrity claims cover ClientHello, ServerHello, EncryptedExtensions, CertificateRequest, Certificate, "
    "CertificateVerify and Finished in the direction received; NewSessionTicket is post-handshake and excluded",
    "mitm: the claim is made only when the altered handshake bytes were new to the receiver (not delivered in any "
    "earlier datagram), otherwise the alteration is a duplicate the receiver is entitled to ignore",
]
COMPONENTS = COMPONENTS_TRANSPORT
PLAN = {
    "quick": {"budget_s": 75, "max_runs": 10 ** 7,
              "variants": ["agreement", "agreement", "resumption", "bad_cert", "mitm", "tls_integrity", "adversary",
                           "asyncio_name"]},
    "thorough": {"budget_s": 1200, "max_runs": 10 ** 9,
                 "variants": ["agreement", "agreement", "resumption", "bad_cert", "mitm", "tls_integrity",
                              "adversary", "asyncio_name"]},
}

ALPNS = (["verif"], ["verif", "other"], ["other", "verif"], ["other"], ["x1", "x2", "verif"], ["zzz"])
CERTS = fixtures.SERVER_CERTS + fixtures.CHAINS


def configure_agreement(sim, conf, is_client):
    c = sim.ch.stream("c03")
    if is_client:
        # (a client may also offer no ALPN at all; a server with an ALPN list must then refuse)
        i = c.choose(len(ALPNS) + 1)
        conf.alpn_protocols = list(ALPNS[i]) if i < len(ALPNS) else None
    else:
        conf.alpn_protocols = list(ALPNS[c.choose(len(ALPNS))])
    if not is_client:
        cert, chain, key = fixtures.cert_chain(CERTS[c.choose(len(CERTS))])
        conf.certificate, conf.certificate_chain, conf.private_key = cert, chain, key
    else:
        if c.choose(4) == 0 and len(conf.supported_versions) > 1:
            conf.original_version = conf.supported_versions[c.choose(len(conf.supported_versions))]


def configure_bad(sim, conf, is_client):
    c = sim.ch.stream("c03")
    if not hasattr(sim, "bad_mode"):
        sim.bad_mode = c.choose(3)  # drawn once per run (the server configuration is built first)
    if is_client:
        # every verify_mode other than CERT_NONE authenticates the server (for a client, CERT_OPTIONAL means
        # CERT_REQUIRED: Python ssl documentation)
        import ssl

        conf.verify_mode = (None, ssl.CERT_REQUIRED, ssl.CERT_OPTIONAL, ssl.CERT_OPTIONAL)[c.choose(4)]
        sim.probe_verify_mode = "verify_mode=%s" % (conf.verify_mode.name if conf.verify_mode is not None else "default")
    if sim.bad_mode == 0:
        # a perfectly good certificate (valid for localhost / 127.0.0.1) but the client asked for
        # another name, as a DNS name or as an IPv4 / IPv6 literal
        names = ("192.0.2.99", "10.9.8.7", "::1", "2001:db8::7", "localhost.example", "LOCALHOST.evil.example")
        if not hasattr(sim, "bad_name"):
            sim.bad_name = names[c.choose(len(names))]
        sim.bad_cert = "a valid certificate for localhost/127.0.0.1 while the client asked for %s" % sim.bad_name
        if is_client:
            conf.server_name = sim.bad_name
        else:
            cert, chain, key = fixtures.cert_chain("server_ed25519")
            conf.certificate, conf.certificate_chain, conf.private_key = cert, chain, key
        return
    if not is_client:
        names = fixtures.BAD_CERTS + fixtures.PADDED_BAD_CERTS
        name = names[c.choose(len(names))]
        sim.bad_cert = name
        cert, chain, key = fixtures.cert_chain(name)
        conf.certificate, conf.certificate_chain, conf.private_key = cert, chain, key


FAULTS = ("drop", "dup", "delay", "timer-late")
PROFILES = {
    "agreement": {"faults": FAULTS, "configure": configure_agreement, "allow_vn": True, "allow_no_common_version": True, "allow_disjoint_suites": True,
                  "retry_p": 0.25, "max_ops": 4, "t_adv_max": 3.0, "fair_budget": 80.0,
                  "idle_timeouts": (10.0, 20.0)},
    "bad_cert": {"faults": FAULTS, "configure": configure_bad, "max_ops": 3, "t_adv_max": 2.0, "fair_budget": 40.0,
                 "idle_timeouts": (10.0,), "batch_rx_p": 0.5, "datagram_sizes": tuple(range(1200, 1473, 4))},
    "mitm": {"faults": ("drop", "dup", "delay"), "max_ops": 3, "t_adv_max": 2.0, "fair_budget": 40.0,
             "idle_timeouts": (10.0,), "retry_p": 0.2},
}


def tls_suite(conn):
    try:
        return int(conn.tls.key_schedule.cipher_suite)
    except Exception:
        return None


def secrets_of(ep):
    out = {}
    if ep.secrets is None:
        return out
    for line in ep.secrets.getvalue().split("\n"):
        p = line.split(" ")
        if len(p) == 3:
            out[p[0]] = p[2]
    return out


class AgreementOracle(Oracle):
    def __init__(self, expect_resumed=None):
        self.completed = {}
        self.expect_resumed = expect_resumed
        self.compared = 0

    def on_start(self, sim):
        self.sim = sim

    def common(self):
        cc, sc = self.sim.client.config, self.sim.server.config
        cs = [int(x) for x in (cc.cipher_suites or [0x1302, 0x1301, 0x1303])]
        ss = [int(x) for x in (sc.cipher_suites or [0x1302, 0x1301, 0x1303])]
        suites = set(cs) & set(ss)
        alpn = set(cc.alpn_protocols or []) & set(sc.alpn_protocols or [])
        versions = set(cc.supported_versions) & set(sc.supported_versions)
        return suites, alpn, versions

    def on_event(self, ep, ev):
        if type(ev).__name__ != "HandshakeCompleted":
            return
        self.completed[ep.name] = ev
        suites, alpn, versions = self.common()
        if not suites or not alpn or not versions:
            raise Violation("c03.no-common-option", "completed-without-common-%s" % (
                "suite" if not suites else "alpn" if not alpn else "version"),
                "%s reported HandshakeCompleted although the configurations share no %s (client %r / server %r)" % (
                    ep.name, "cipher suite" if not suites else "ALPN protocol" if not alpn else "QUIC version",
                    (self.sim.client.config.cipher_suites, self.sim.client.config.alpn_protocols,
                     self.sim.client.config.supported_versions),
                    (self.sim.server.config.cipher_suites, self.sim.server.config.alpn_protocols,
                     self.sim.server.config.supported_versions)))
        if len(self.completed) == 2:
            self.compare()

    def compare(self):
        sim = self.sim
        c, s = sim.client, sim.server
        self.compared += 1
        sc, ss = secrets_of(c), secrets_of(s)
        for label in set(sc) & set(ss):
            if sc[label] != ss[label]:
                raise Violation("c03.agreement", "secret-differs:" + label,
                                "both endpoints completed the handshake but hold different %s" % label)
        if not (set(sc) & set(ss)):
            raise Violation("c03.agreement", "no-common-secret-label", "no secret label logged by both endpoints")
        ce, se = self.completed["client"], self.completed["server"]
        facts = {
            "version": (c.conn._version, s.conn._version),
            "cipher suite": (tls_suite(c.conn), tls_suite(s.conn)),
            "alpn": (ce.alpn_protocol, se.alpn_protocol),
            "session_resumed": (ce.session_resumed, se.session_resumed),
        }
        for k, (a, b) in facts.items():
            if a != b:
                raise Violation("c03.agreement", "differs:" + k,
                                "both endpoints completed the handshake but report different %s: client %r, server %r"
                                % (k, a, b))
        if self.expect_resumed is not None and ce.session_resumed != self.expect_resumed:
            raise Violation("c03.resumption", "session_resumed=%s" % ce.session_resumed,
                            "expected session_resumed=%s on the second connection" % self.expect_resumed)

    def goal_reached(self):
        return len(self.completed) == 2


class NeverCompletes(Oracle):
    def __init__(self, who, why):
        self.who = who
        self.why = why

    def on_start(self, sim):
        self.sim = sim

    def on_event(self, ep, ev):
        if type(ev).__name__ == "HandshakeCompleted" and ep.name in self.who:
            raise Violation("c03.authenticity", "%s-completed:%s" % (ep.name, self.why(self.sim)),
                            "%s reported HandshakeCompleted although %s" % (ep.name, self.why(self.sim)))

    def goal_reached(self):
        return False


class MitmOracle(Oracle):
    """Rewrites one byte of handshake data in flight (with the keys) and watches the receiver."""

    def __init__(self, mon):
        self.mon = mon
        self.done = None
        self.delivered = {}  # (receiver, ptype) -> set of crypto offsets delivered so far
        self.skipped_duplicate = 0
        self.seen_pn = {}

    def on_start(self, sim):
        self.sim = sim
        self.ch = sim.ch.stream("mitm")
        self.forger = Forger(sim, self.mon)

    def on_datagram_delivered(self, ep, dgram, copy_index):
        if dgram.meta is None or dgram.sender not in ("client", "server"):
            return
        pkts = [p for p in dgram.meta if not p.opaque and p.ptype in ("initial", "handshake")]
        cands = []
        for p in pkts:
            if p.ptype == "handshake":
                # the receiver must be able to open the packet now, otherwise it drops it and a later
                # genuine retransmission legitimately completes the handshake
                need = "SERVER_HANDSHAKE_TRAFFIC_SECRET" if ep.is_client else "CLIENT_HANDSHAKE_TRAFFIC_SECRET"
                if ep.secrets is None or need not in ep.secrets.getvalue():
                    continue
            if p.pn in self.seen_pn.setdefault((ep.name, p.ptype), set()):
                continue  # a duplicate packet number is discarded unprocessed
            # the frame must be consumed by TLS at once: bytes that wait in the reassembly buffer
            # behind a gap may legitimately be overwritten by a genuine retransmission
            try:
                from aioquic import tls as _tls

                epoch = _tls.Epoch.INITIAL if p.ptype == "initial" else _tls.Epoch.HANDSHAKE
                consumed = ep.conn._crypto_streams[epoch].receiver._buffer_start
                # a packet number below what the receiver has pruned from its ACK state is discarded
                # as a possible duplicate (RFC 9000 12.3), not processed
                if p.pn < getattr(ep.conn._spaces[epoch], "ack_queue_floor", 0):
                    continue
            except Exception:
                continue
            for f in p.frames:
                if f.type == wf.CRYPTO and len(f["data"]) and f["offset"] <= consumed < f["offset"] + len(f["data"]):
                    cands.append((p, f, consumed))
        if self.done is None and cands and self.ch.chance(0.3) and not getattr(dgram, "rewritten", False):
            p, f, consumed = cands[self.ch.choose(len(cands))]
            # alter a byte the receiver has not consumed yet
            first_new = consumed - f["offset"]
            pos = first_new + self.ch.choose(len(f["data"]) - first_new)
            mask = (0x01, 0x80, 0xFF, 0x10)[self.ch.choose(4)]
            off = f["offset"] + pos
            seen = set()  # (consumed-prefix condition above supersedes the delivery record)
            new = self.rewrite(ep, dgram, p, f, pos, mask)
            if new is not None:
                dgram.data = new
                dgram.rewritten = True
                self.sim.net.fired["mitm-rewrite"] += 1
                if off in seen:
                    self.skipped_duplicate += 1  # the receiver may already hold the genuine byte
                    self.done = {"claim": False}
                else:
                    self.done = {"claim": True, "receiver": ep.name, "ptype": p.ptype, "offset": off, "mask": mask}
                self.sim.k.trace("mitm", ep.name, p.ptype, off, mask)
        # record a SUPERSET of what the receiver has: every CRYPTO range of every delivered packet
        for p in pkts:
            for f in p.frames:
                if f.type == wf.CRYPTO and len(f["data"]):
                    s = self.delivered.setdefault((ep.name, p.ptype), set())
                    s.update(range(f["offset"], f["offset"] + len(f["data"])))
        for p in pkts:
            self.seen_pn.setdefault((ep.name, p.ptype), set()).add(p.pn)

    def rewrite(self, ep, dgram, target_p, target_f, pos, mask):
        sender = ep.peer
        out = b""
        for p in dgram.meta:
            if p.opaque or p.ptype not in ("initial", "handshake", "1rtt", "0rtt") or getattr(p, "view", None) is None:
                if getattr(p, "view", None) is not None:
                    out += p.view.raw
                continue
            if p is not target_p:
                out += p.view.raw
                continue
            frames = []
            for f in p.frames:
                if f is target_f:
                    data = bytearray(f["data"])
                    data[pos] ^= mask
                    frames.append(wf.encode_crypto(f["offset"], bytes(data)))
                else:
                    frames.append(wf.encode_frame(f))
            payload = b"".join(frames)
            # keep the packet size: the original used 2-byte length varints, ours may be shorter
            short = len(p.payload) - len(payload)
            if short > 0:
                payload += b"\x00" * short
            pkt = self.forger.build(sender, p.ptype, payload, pn=p.pn, pn_len=p.pn_len, dcid=p.dcid, scid=p.scid,
                                    token=p.token or b"", keys=p.keys)
            if pkt is None:
                return None
            out += pkt
        covered = sum(p.size for p in dgram.meta)
        out += dgram.data[covered:]
        return out

    def on_event(self, ep, ev):
        if type(ev).__name__ == "HandshakeCompleted" and self.done and self.done.get("claim") and \
                ep.name == self.done["receiver"]:
            d = self.done
            raise Violation("c03.transcript", "%s-completed-after-altered-%s-crypto" % (ep.name, d["ptype"]),
                            "%s reported HandshakeCompleted although byte %d of the %s-level handshake stream it "
                            "received had been altered (xor 0x%02x) in flight" % (ep.name, d["offset"], d["ptype"],
                                                                               d["mask"]))

    def goal_reached(self):
        return False


def run_resumption(seed, replay):
    """restart fault: connection 1 obtains a ticket, the application keeps it, connection 2 resumes."""
    from sim.chooser import Chooser
    from sim.runner import Outcome, stable_hash, violation_dict
    from sim.monitor import WireMonitor
    from sim.transport import TransportSim

    ch = Chooser(seed, replay)
    store = {"tickets": {}, "client": []}
    c = ch.stream("c03")
    early = bool(c.choose(2))
    # one run in three: the second connection reaches an impostor that has no idea of the ticket (so it performs a
    # full handshake) and presents a certificate that must not be accepted; holding a ticket proves nothing
    impostor = (None, None, "bad_selfsigned", "bad_unknownca", "bad_wrongname", "bad_expired")[c.choose(6)]
    # what changes between the two connections (the ticket was obtained under the first configuration):
    # 0 nothing; 1 the cipher-suite lists, so that the ticket's suite is no longer the negotiated one and the
    # server must decline the PSK (a full handshake that both report as not resumed); 2 the version lists, so
    # that the second handshake goes through compatible version negotiation (client starts with v1, both
    # support v2 first) while 0-RTT keys exist from the start
    shift = c.choose(4) if impostor is None else 0
    from sim import bootstrap as _bootstrap

    _bootstrap.load()
    from aioquic.tls import CipherSuite as _CS

    def mk_kwargs():
        return {
            "client_kwargs": {"session_ticket_handler": lambda t: store["client"].append(t)},
            "server_kwargs": {"session_ticket_handler": lambda t: store["tickets"].__setitem__(t.ticket, t),
                              "session_ticket_fetcher": lambda label: store["tickets"].pop(label, None)},
        }

    out = Outcome(seed)
    prof1 = {"fault_free": True, "max_ops": 2, "secrets_log": True, "fair_budget": 30.0, "versions": False,
             "cipher_suites": False, "server_cert": "server_ed25519", "small_limits": 0.0, "drain": 1.0, "idle_timeouts": (20.0,)}
    prof1.update(mk_kwargs())
    if shift == 1:
        def configure1(sim, conf, is_client):
            if is_client:
                conf.cipher_suites = [_CS.AES_128_GCM_SHA256]
        prof1["configure"] = configure1
    o1 = AgreementOracle()
    sim1 = TransportSim(ch, prof1, [WireMonitor(), o1])
    reason = "ok"
    sim2 = None
    try:
        sim1.run()
        if not store["client"]:
            out.summary = dict(sim1.summary(), reason="no-ticket", inconclusive=True)
            out.choices = ch.dump()
            return out

        ticket = store["client"][-1]

        def configure(sim, conf, is_client):
            if is_client:
                conf.session_ticket = ticket
                if shift == 1:
                    conf.cipher_suites = [_CS.AES_256_GCM_SHA384, _CS.AES_128_GCM_SHA256]
            if shift == 2:
                conf.supported_versions = [0x6B3343CF, 1]
                if is_client:
                    conf.original_version = 1

        def early_write(sim):
            if early:
                sim.k.at(0.0, sim._run_op, 0, "write", 0, 300, True, tag="app")

        prof2 = {"faults": ("drop", "dup", "delay"), "max_ops": 4, "secrets_log": True, "fair_budget": 60.0,
                 "versions": False, "cipher_suites": False, "server_cert": "server_ed25519", "small_limits": 0.0,
                 "configure": configure, "t_adv_max": 2.0,
                 "schedule_extra": early_write, "wall_base": 100.0, "idle_timeouts": (20.0,)}
        prof2.update(mk_kwargs())
        if impostor is not None:
            prof2["server_cert"] = impostor
            prof2["server_kwargs"] = {"session_ticket_fetcher": lambda label: None}
            prof2["fair_budget"] = 25.0
            sim2 = TransportSim(ch, prof2, [WireMonitor(), NeverCompletes(
                ("client",), lambda sim: "it holds a ticket but the server ignores it and presents %s" % impostor)])
            reason = sim2.run()
            o2 = None
        else:
            o2 = AgreementOracle(expect_resumed=(shift != 1))
            sim2 = TransportSim(ch, prof2, [WireMonitor(), o2, DeliveryGoal()])
            reason = sim2.run()
        if o2 is not None and len(o2.completed) < 2 and reason not in ("step-cap", "api-exception"):
            raise Violation("c03.resumption", "second-connection-did-not-complete",
                            "the resumed connection did not complete on a fair network (%s)" % reason)
    except Violation as v:
        out.violation = violation_dict(v, (sim2 or sim1).k)
        reason = "violation"
    s = (sim2 or sim1).summary()
    s["reason"] = reason
    s["inconclusive"] = reason == "step-cap"
    s["aborted"] = reason == "api-exception"
    s.setdefault("probes", {})["resumption_with_0rtt" if early else "resumption_without_0rtt"] = 1
    if impostor is not None:
        s["probes"]["ticket_holder_meets_impostor:" + impostor] = 1
    s["probes"]["resumption_shift:%d" % shift] = 1
    if sim2 is not None and sim2.client.conn is not None:
        try:
            s["probes"]["early_data_accepted"] = int(bool(sim2.client.conn.tls.early_data_accepted))
        except Exception:
            pass
    out.summary = s
    out.choices = ch.dump()
    out.nontrivial = sim2 is not None
    out.signature = s["sig"] + ":" + stable_hash([early, sim1.cfg["client_suites"], sim1.cfg["server_cert"]])
    out.sample = {"seed": seed, "variant": "resumption", "early_data": early, "fired": s["fired"], "end": reason}
    return out


def run_one(seed, tier="quick", variant=None, replay=None):
    variant = variant or "agreement"
    if variant == "tls_integrity":
        from checks.c03_tls import run_transcript_integrity

        return run_transcript_integrity(seed, tier, replay)
    if variant == "resumption":
        return run_resumption(seed, replay)
    if variant == "adversary":
        # the key-holding TLS adversary of C11 also decides C03's first clause: the client completes only
        # after the server proved possession of the certificate key or of a resumption secret the client
        # offered (PSK selected with another suite / without knowing the secret / not offered at all)
        from checks import c11

        out = c11.run_one(seed, tier=tier, variant="skip_attacks", replay=replay)
        if out.violation is not None:
            out.violation["oracle"] = "c03.authenticity-adversary"
        return out
    if variant == "asyncio_name":
        # the asyncio adapter's connect(host, ...) names the server after the host it was given when the
        # configuration has no server_name: the C19 harness (real connect()/serve() on the virtual-time loop) with
        # clients that rely on that default while the certificate does not cover the host
        from checks import c19

        c19.NAME_MODE_P = 1.0
        try:
            out = c19.run_one(seed, tier=tier, variant="multi", replay=replay)
        finally:
            c19.NAME_MODE_P = 0.0
        if out.violation is not None:
            if out.violation["oracle"] == "c19.authenticity":
                out.violation["oracle"] = "c03.authenticity-asyncio"
            else:
                out.violation = None  # the adapter's other properties are judged by C19, not here
                out.summary["reason"] = "done"
        return out
    holder = {}

    def make(mon):
        if variant == "agreement":
            holder["o"] = AgreementOracle()
            return [holder["o"]]
        if variant == "bad_cert":
            return [NeverCompletes(("client",), lambda sim: "the server certificate is %s" % getattr(
                sim, "bad_cert", "?"))]
        if variant == "mitm":
            holder["m"] = MitmOracle(mon)
            return [holder["m"]]
        raise ValueError(variant)

    def extra(sim, s):
        o = holder.get("o")
        if o is not None:
            s["extra"]["handshakes_compared"] = o.compared
            suites, alpn, versions = o.common()
            if not suites:
                s["probes"]["no_common_suite"] = 1
            if not alpn:
                s["probes"]["no_common_alpn"] = 1
            if not versions:
                s["probes"]["no_common_version"] = 1
            if sim.cfg.get("retry"):
                s["probes"]["retry"] = 1
            if sim.server.conn is not None:
                s["states"] = [repr((sim.cfg["server_cert"] if False else type(sim.server.config.private_key).__name__,
                                     tuple(sim.cfg["client_versions"]), tuple(sim.cfg["server_versions"]),
                                     tls_suite(sim.server.conn), o.compared))]
        m = holder.get("m")
        if m is not None:
            s["probes"]["mitm_claimed"] = 1 if (m.done and m.done.get("claim")) else 0
            s["probes"]["mitm_duplicate_not_claimed"] = m.skipped_duplicate
        if getattr(sim, "bad_cert", None):
            s["probes"]["bad:" + sim.bad_cert] = 1
        if getattr(sim, "probe_verify_mode", None):
            s["probes"][sim.probe_verify_mode] = 1

    return run_transport(seed, PROFILES[variant], make, replay=replay, monitor=True, variant=variant,
                         extra_summary=extra)
