"""C11 TLS handshake messages are accepted only in protocol order (TLS level).

Three variants, all against REAL `aioquic.tls.Context` objects:

state_table   every reachable situation of each of the 13 `tls.State` values x each of the 12
              handshake message types (well-formed instance from the independent codec
              tls13.messages, keyed by the adversary / a passive observer so that e.g. a
              Finished carries the MAC that would be right at that point): a type TLS 1.3
              does not permit there must raise AlertUnexpectedMessage, leave `state` unchanged
              and make no update_traffic_key_cb call.  The complete table in every run.
skip_attacks  tls13.adversary.AdversaryServer (holds the certificate key, recomputes
              CertificateVerify / Finished over what it actually sent) plays sequences over
              {EE, CR, Cert, CV, Fin} up to length 6 against a real client.
client_flight tls13.adversary.AdversaryClient plays sequences over {Fin, Cert, CV, CertEmpty}
              up to length 6 against a real server.

What "permitted" means in the table (RFC 8446 section 4 and A.1/A.2; everything else must be
refused):
  CLIENT_EXPECT_SERVER_HELLO: ServerHello.  CLIENT_EXPECT_ENCRYPTED_EXTENSIONS: EncryptedExtensions.
  CLIENT_EXPECT_CERTIFICATE_REQUEST_OR_CERTIFICATE: CertificateRequest, Certificate.
  CLIENT_EXPECT_CERTIFICATE: Certificate.  CLIENT_EXPECT_CERTIFICATE_VERIFY: CertificateVerify.
  CLIENT_EXPECT_FINISHED: Finished.  CLIENT_POST_HANDSHAKE: NewSessionTicket, KeyUpdate (TLS 1.3
  permits it; RFC 9001 forbids it for QUIC and aioquic refuses it: not judged here).
  SERVER_EXPECT_CLIENT_HELLO: ClientHello.  SERVER_EXPECT_CERTIFICATE: Certificate.
  SERVER_EXPECT_CERTIFICATE_VERIFY: CertificateVerify.  SERVER_EXPECT_FINISHED: Finished, and
  EndOfEarlyData iff the server accepted early data.  SERVER_POST_HANDSHAKE: KeyUpdate (same remark).
  Never permitted: CompressedCertificate (RFC 8879 not negotiated), MessageHash (synthetic),
  post-handshake CertificateRequest / Certificate (post_handshake_auth never offered).
  CLIENT_HANDSHAKE_START is not a receiving state: `handle_message` is the local "start" trigger
  there and ignores its input.  The sound statement for that row is differential: whatever is
  fed, the context must behave exactly as for the documented empty input (same ClientHello, same
  state, same key callbacks), or refuse with AlertUnexpectedMessage without changing state.
"""
import hashlib
import random
from collections import Counter

from sim import bootstrap, fixtures
from sim.chooser import Chooser
from sim.kernel import Violation
from sim.runner import Outcome, stable_hash, violation_dict

from checks import tls_harness as H
from tls13 import adversary as A
from tls13 import messages as M

PROPERTY = "C11"
NAME = "c11"
LEVEL = "fault_enumeration"
RULE = (
    "state_table: one run = one configuration (certificate key type, client cipher-suite list, key-exchange "
    "group, peer = adversary or real Context + passive observer, ALPN, which instance of each message type) x the "
    "COMPLETE table of all situations of the 13 tls.State values (incl. PSK/resumption and client-certificate "
    "paths) x 12 handshake message types, each cell on a fresh copy of the situation. skip_attacks / "
    "client_flight: one run = one configuration (certificate, suites, group, PSK mode none/selected/declined/"
    "pretended, client-certificate request) x all message sequences up to length 4 (quick; plus a seeded sample of "
    "lengths 5-6) or up to length 6 (thorough: all 55987 server-flight / 5461 client-flight sequences) x tampered "
    "variants (bad/stale/wrong-key CertificateVerify and Finished) of the legal shapes; a sequence is fed until the "
    "first alert. distinct = distinct (variant, configuration, sampled sequences); non-trivial = at least one "
    "illegal message was fed to a real Context"
)
ASSUMPTIONS = [
    "the table and the sequences are enumerated completely for each configuration drawn; configurations are sampled",
    "a sequence ends at the first alert (a TLS alert is fatal: feeding a Context that raised is not a use its "
    "caller, QuicConnection, makes)",
    "tls13/ (independent key schedule, codecs, adversary) is trusted as the reference; it is cross-checked in every "
    "run against the real Context (binder, CertificateVerify, Finished and all traffic secrets must agree on the "
    "legal handshake)",
    "cryptography/OpenSSL are trusted",
]
COMPONENTS = {
    "real": ["tls.Context (client and server)", "tls message codecs", "tls.KeySchedule", "certificate verification",
             "_buffer C helper rebuilt from the working tree"],
    "stub": ["peer: scripted key-holding adversary (tls13.adversary) or a second real tls.Context",
             "no record layer / QUIC packets (TLS level only)"],
}
PLAN = {
    "quick": {"budget_s": 60, "max_runs": 1000000, "variants": ["state_table", "skip_attacks", "client_flight"]},
    "thorough": {"budget_s": 900, "max_runs": 100000000,
                 "variants": ["state_table", "skip_attacks", "client_flight"]},
}

# ------------------------------------------------------------------ state table
T = M  # short alias
PERMITTED = {
    "CLIENT_HANDSHAKE_START": set(),
    "CLIENT_EXPECT_SERVER_HELLO": {T.SERVER_HELLO},
    "CLIENT_EXPECT_ENCRYPTED_EXTENSIONS": {T.ENCRYPTED_EXTENSIONS},
    "CLIENT_EXPECT_CERTIFICATE_REQUEST_OR_CERTIFICATE": {T.CERTIFICATE_REQUEST, T.CERTIFICATE},
    "CLIENT_EXPECT_CERTIFICATE": {T.CERTIFICATE},
    "CLIENT_EXPECT_CERTIFICATE_VERIFY": {T.CERTIFICATE_VERIFY},
    "CLIENT_EXPECT_FINISHED": {T.FINISHED},
    "CLIENT_POST_HANDSHAKE": {T.NEW_SESSION_TICKET, T.KEY_UPDATE},
    "SERVER_EXPECT_CLIENT_HELLO": {T.CLIENT_HELLO},
    "SERVER_EXPECT_CERTIFICATE": {T.CERTIFICATE},
    "SERVER_EXPECT_CERTIFICATE_VERIFY": {T.CERTIFICATE_VERIFY},
    "SERVER_EXPECT_FINISHED": {T.FINISHED},
    "SERVER_POST_HANDSHAKE": {T.KEY_UPDATE},
}
N_INSTANCES = {"CH": 2, "SH": 2, "NST": 2, "EOED": 1, "EE": 2, "Cert": 2, "CR": 2, "CV": 2, "Fin": 2, "KU": 2,
               "CompCert": 1, "MsgHash": 1}

# (name, role of the Context under test, expected state, what the peer sends, flags)
#   client situations: the peer's messages after the ClientHello;
#   server situations: the peer's messages (first is the ClientHello).
SITUATIONS = [
    ("c-start", "client", "CLIENT_HANDSHAKE_START", None, {}),
    ("c-start/ticket", "client", "CLIENT_HANDSHAKE_START", None, {"ticket": True}),
    ("c-hello-sent", "client", "CLIENT_EXPECT_SERVER_HELLO", [], {}),
    ("c-hello-sent/psk-offered", "client", "CLIENT_EXPECT_SERVER_HELLO", [], {"ticket": True}),
    ("c-after-sh", "client", "CLIENT_EXPECT_ENCRYPTED_EXTENSIONS", ["SH"], {}),
    ("c-after-sh/psk", "client", "CLIENT_EXPECT_ENCRYPTED_EXTENSIONS", ["SH"], {"ticket": True, "psk": True}),
    ("c-after-ee", "client", "CLIENT_EXPECT_CERTIFICATE_REQUEST_OR_CERTIFICATE", ["SH", "EE"], {}),
    ("c-after-ee/psk-declined", "client", "CLIENT_EXPECT_CERTIFICATE_REQUEST_OR_CERTIFICATE", ["SH", "EE"],
     {"ticket": True}),
    ("c-after-cr", "client", "CLIENT_EXPECT_CERTIFICATE", ["SH", "EE", "CR"], {"cr": True}),
    ("c-after-cert", "client", "CLIENT_EXPECT_CERTIFICATE_VERIFY", ["SH", "EE", "Cert"], {}),
    ("c-after-cr-cert", "client", "CLIENT_EXPECT_CERTIFICATE_VERIFY", ["SH", "EE", "CR", "Cert"], {"cr": True}),
    ("c-after-cv", "client", "CLIENT_EXPECT_FINISHED", ["SH", "EE", "Cert", "CV"], {}),
    ("c-after-ee/psk", "client", "CLIENT_EXPECT_FINISHED", ["SH", "EE"], {"ticket": True, "psk": True}),
    ("c-done", "client", "CLIENT_POST_HANDSHAKE", ["SH", "EE", "Cert", "CV", "Fin"], {}),
    ("c-done/cr", "client", "CLIENT_POST_HANDSHAKE", ["SH", "EE", "CR", "Cert", "CV", "Fin"], {"cr": True}),
    ("c-done/psk", "client", "CLIENT_POST_HANDSHAKE", ["SH", "EE", "Fin"], {"ticket": True, "psk": True}),
    ("s-start", "server", "SERVER_EXPECT_CLIENT_HELLO", [], {}),
    ("s-cr-sent", "server", "SERVER_EXPECT_CERTIFICATE", ["CH"], {"cr": True}),
    ("s-after-cert", "server", "SERVER_EXPECT_CERTIFICATE_VERIFY", ["CH", "Cert"], {"cr": True, "client_cert": True}),
    ("s-flight-sent", "server", "SERVER_EXPECT_FINISHED", ["CH"], {}),
    ("s-after-empty-cert", "server", "SERVER_EXPECT_FINISHED", ["CH", "CertEmpty"], {"cr": True}),
    ("s-after-cv", "server", "SERVER_EXPECT_FINISHED", ["CH", "Cert", "CV"], {"cr": True, "client_cert": True}),
    ("s-flight-sent/psk", "server", "SERVER_EXPECT_FINISHED", ["CH"], {"ticket": True, "psk": True}),
    ("s-flight-sent/psk-early", "server", "SERVER_EXPECT_FINISHED", ["CH"],
     {"ticket": True, "psk": True, "early": True}),
    ("s-done", "server", "SERVER_POST_HANDSHAKE", ["CH", "Fin"], {}),
    ("s-done/cr", "server", "SERVER_POST_HANDSHAKE", ["CH", "Cert", "CV", "Fin"], {"cr": True, "client_cert": True}),
    ("s-done/psk", "server", "SERVER_POST_HANDSHAKE", ["CH", "Fin"], {"ticket": True, "psk": True}),
]
TYPE_KINDS = [(t, A.KIND_OF_TYPE[t]) for t in M.ALL_TYPES]  # the 12 message types


class Env:
    """Per-run configuration + the tickets obtained by real handshakes at the start of the run."""

    def __init__(self, seed, cfg):
        self.seed = seed
        self.cfg = cfg
        self.case = 0
        self.tickets = {}

    def ticket(self, early):
        """(client SessionTicket, server store) from one real full handshake; early: with max_early_data"""
        key = bool(early)
        if key not in self.tickets:
            bootstrap.DET.reseed((self.seed, "ticket", key))
            self.tickets[key] = H.obtain_ticket(self.cfg["cred"], self.cfg["client_suites"], self.cfg["server_suites"],
                                                max_early_data=0xFFFFFFFF if early else None)
        return self.tickets[key]

    def fresh(self, label):
        """same randomness for every copy of a situation: a fresh copy is an identical copy"""
        bootstrap.DET.reseed((self.seed, "case", label))
        return random.Random("adv/%d/%s" % (self.seed, label))


def psk_of(ticket):
    return {"secret": ticket.resumption_secret, "suite": int(ticket.cipher_suite), "ticket": ticket.ticket,
            "age": ticket.obfuscated_age}


def reach(env, sit, peer_mode):
    """Build a fresh copy of the situation. Returns (context under test, its buffers, party able to
    build the peer's messages for this point of the handshake)."""
    tls = H.tls_mod()
    name, role, want_state, steps, fl = sit
    cfg = env.cfg
    ticket = store = None
    if fl.get("ticket"):
        ticket, store = env.ticket(fl.get("early"))
    rng = env.fresh(name)
    bufs = H.new_buffers()
    if role == "client":
        ctx = H.make_client(cfg["client_suites"], cfg["alpn"], ticket=ticket, cadata=cfg["cadata"],
                            client_cert=cfg["client_has_cert"])
        if steps is None:
            party = A.AdversaryServer(rng, cfg["cred"])
            return ctx, bufs, party
        ctx.handle_message(b"", bufs)
        ch = H.drain(bufs)[0]
        if peer_mode == "adversary":
            party = A.AdversaryServer(rng, cfg["cred"], group=cfg["group"], alpn=cfg["alpn"] and cfg["alpn"][0],
                                      psk=psk_of(ticket) if fl.get("psk") else None,
                                      psk_mode="select" if fl.get("psk") else "none")
            sh = party.accept(ch)
            for k in steps:
                ctx.keylog.marker = ("reach", k)
                ctx.handle_message(sh if k == "SH" else party.send(k), bufs)
        else:
            peer = H.make_server(cfg["cred"], cfg["server_suites"], cfg["alpn"], request_client_cert=fl.get("cr", False),
                                 ticket_store=store if fl.get("psk") else None)
            pb = H.new_buffers()
            peer.handle_message(ch, pb)
            flight = [m for m in H.drain(pb) if m[0] != M.NEW_SESSION_TICKET]
            kinds = [A.KIND_OF_TYPE[m[0]] for m in flight]
            if kinds[:len(steps)] != steps:
                raise RuntimeError("real server flight %r does not start with %r" % (kinds, steps))
            for m in flight[:len(steps)]:
                ctx.handle_message(m, bufs)
            suite = int(peer.key_schedule.cipher_suite)
            party = A.Observer("server", rng, cfg["cred"], suite, [ch] + flight[:len(steps)],
                               peer.keylog.secrets.get(("DECRYPT", "HANDSHAKE")),
                               peer.keylog.secrets.get(("ENCRYPT", "HANDSHAKE")))
            party.alpn = cfg["alpn"] and cfg["alpn"][0]
    else:
        ctx = H.make_server(cfg["cred"], cfg["server_suites"], cfg["alpn"], request_client_cert=fl.get("cr", False),
                            ticket_store=store if fl.get("psk") else None,
                            max_early_data=0xFFFFFFFF if fl.get("early") else None)
        if peer_mode == "adversary":
            psk = psk_of(ticket) if fl.get("psk") else None
            party = A.AdversaryClient(rng, groups=[cfg["group"]], alpn=cfg["alpn"], psk=psk,
                                      cipher_suites=[psk["suite"]] if psk else None)
            if fl.get("early"):
                party.extensions.append((M.EXT_EARLY_DATA, b""))
            for k in steps:
                ctx.keylog.marker = ("reach", k)
                if k == "CH":
                    ctx.handle_message(party.client_hello(), bufs)
                    party.receive(b"".join(H.drain(bufs)))
                    if not party.server_finished_ok or (not fl.get("psk") and not party.server_cv_ok):
                        raise RuntimeError("reference key schedule disagrees with the real server's flight")
                else:
                    ctx.handle_message(party.send(k), bufs)
        else:
            peer = H.make_client(cfg["client_suites"], cfg["alpn"], ticket=ticket if fl.get("psk") else None,
                                 cadata=cfg["cadata"], client_cert=fl.get("client_cert", False))
            pb = H.new_buffers()
            observed = []
            if steps:
                peer.handle_message(b"", pb)
                ch = H.drain(pb)[0]
                ctx.handle_message(ch, bufs)
                flight = [m for m in H.drain(bufs) if m[0] != M.NEW_SESSION_TICKET]
                observed = [ch] + flight
                for m in flight:
                    peer.handle_message(m, pb)
                reply = H.drain(pb)
                kinds = ["CertEmpty" if (m[0] == M.CERTIFICATE and not M.Certificate.decode(m).entries)
                         else A.KIND_OF_TYPE[m[0]] for m in reply]
                if kinds[:len(steps) - 1] != steps[1:]:
                    raise RuntimeError("real client flight %r does not start with %r" % (kinds, steps[1:]))
                for m in reply[:len(steps) - 1]:
                    ctx.handle_message(m, bufs)
                    observed.append(m)
            suite = int(ctx.key_schedule.cipher_suite) if ctx.key_schedule is not None else 0x1301
            party = A.Observer("client", rng, "client", suite, observed,
                               ctx.keylog.secrets.get(("DECRYPT", "HANDSHAKE")),
                               ctx.keylog.secrets.get(("ENCRYPT", "HANDSHAKE")))
    if ctx.state.name != want_state:
        raise RuntimeError("situation %s: expected %s, reached %s" % (name, want_state, ctx.state.name))
    if not want_state.endswith("POST_HANDSHAKE"):
        # on the way to a state before completion (legal messages only, honest or adversary peer, with and
        # without resumption / accepted 0-RTT): no 1-RTT key of the client, no 1-RTT receive key of the server
        for direction, epoch, _ in ctx.keylog.events:
            if epoch == "ONE_RTT" and (role == "client" or direction == "DECRYPT"):
                raise Violation("c11.key-release", "%s ONE_RTT %s before completion in %s" % (
                    role, direction, want_state),
                    "situation %s (%s peer): the %s released its 1-RTT %s key although it is only in %s: the "
                    "peer's Finished has not been received, let alone verified" % (
                        name, peer_mode, role, direction, want_state))
    H.drain(bufs)
    return ctx, bufs, party


def permitted(state_name, msg_type, ctx):
    if msg_type in PERMITTED[state_name]:
        return True
    if state_name == "SERVER_EXPECT_FINISHED" and msg_type == M.END_OF_EARLY_DATA and ctx.early_data_accepted:
        return True
    return False


def run_state_table(env, ch, log, stats):
    tls = H.tls_mod()
    cfg_stream = ch.stream("instances")
    instances = {kind: cfg_stream.choose(N_INSTANCES[kind]) for _, kind in TYPE_KINDS}
    peer_mode = "real" if env.cfg["real_peer"] else "adversary"
    states_seen = set()
    for sit in SITUATIONS:
        name, role, state_name, steps, fl = sit
        for msg_type, kind in TYPE_KINDS:
            ctx, bufs, party = reach(env, sit, peer_mode)
            states_seen.add(ctx.state.name)
            msg = party.build(kind, instances[kind])
            if msg[0] != msg_type:
                raise RuntimeError("codec built type %d for %s" % (msg[0], kind))
            cell = "%s/%s" % (state_name, M.TYPE_NAMES[msg_type])
            stats["cells"] += 1
            if state_name == "CLIENT_HANDSHAKE_START":
                _check_start_row(env, sit, ctx, bufs, msg, cell, name, log, stats)
                continue
            if permitted(state_name, msg_type, ctx):
                stats["cells_permitted_skipped"] += 1
                log("%s %s permitted" % (name, kind))
                continue
            before = ctx.state
            n_keys = ctx.keylog.count()
            ctx.keylog.marker = ("table", kind)
            try:
                ctx.handle_message(msg, bufs)
                got = "accepted"
            except tls.AlertUnexpectedMessage:
                got = "AlertUnexpectedMessage"
            except Exception as e:  # any other alert or exception: judged below
                got = H.alert_name(e)
            stats["cells_refusal_required"] += 1
            stats["illegal_fed"] += 1
            log("%s %s %s %s" % (name, kind, got, ctx.state.name))
            if ctx.keylog.count() != n_keys:
                raise Violation("c11.state-table", cell + "/keys-installed",
                                "situation %s: %s fed in %s made update_traffic_key_cb fire %r (outcome %s)" % (
                                    name, M.TYPE_NAMES[msg_type], state_name,
                                    [e[:2] for e in ctx.keylog.events[n_keys:]], got))
            if ctx.state != before:
                raise Violation("c11.state-table", cell + "/state-changed",
                                "situation %s: %s fed in %s moved the state to %s (outcome %s)" % (
                                    name, M.TYPE_NAMES[msg_type], state_name, ctx.state.name, got))
            if got != "AlertUnexpectedMessage":
                raise Violation("c11.state-table", cell + "/not-refused",
                                "situation %s: %s is not permitted in %s but handle_message answered %s instead of "
                                "AlertUnexpectedMessage" % (name, M.TYPE_NAMES[msg_type], state_name, got))
    return states_seen


def _check_start_row(env, sit, ctx, bufs, msg, cell, name, log, stats):
    """CLIENT_HANDSHAKE_START: input must be without influence (see module docstring)."""
    tls = H.tls_mod()
    # the reference copy runs to the end first, then an identical copy (same seeded randomness) gets the input
    ref, rbufs, _ = reach(env, sit, "adversary")
    ref.handle_message(b"", rbufs)
    ref_out = H.drain(rbufs)
    ref_keys = [e[:2] for e in ref.keylog.events]
    ctx, bufs, _ = reach(env, sit, "adversary")
    try:
        ctx.handle_message(msg, bufs)
        got = "start"
    except tls.AlertUnexpectedMessage:
        got = "AlertUnexpectedMessage"
    except Exception as e:
        got = H.alert_name(e)
    stats["cells_start_row"] += 1
    stats["illegal_fed"] += 1
    log("%s %s %s" % (name, M.TYPE_NAMES[msg[0]], got))
    if got == "AlertUnexpectedMessage":
        if ctx.state.name != "CLIENT_HANDSHAKE_START" or ctx.keylog.count():
            raise Violation("c11.state-table", cell + "/state-changed", "refused but state/keys changed")
        return
    out = H.drain(bufs)
    keys = [e[:2] for e in ctx.keylog.events]
    if got != "start" or out != ref_out or keys != ref_keys or ctx.state != ref.state or ctx._receive_buffer != b"":
        raise Violation("c11.state-table", cell + "/input-influenced-start",
                        "situation %s: feeding %s to a client that has not started does not behave like the "
                        "documented empty input: outcome %s, state %s (reference %s), same ClientHello: %s, key "
                        "callbacks %r (reference %r)" % (name, M.TYPE_NAMES[msg[0]], got, ctx.state.name,
                                                         ref.state.name, out == ref_out, keys, ref_keys))


# ------------------------------------------------------------------ sequences
SERVER_ALPHABET = ["EE", "CR", "Cert", "CV", "Fin", "CertEmpty"]
CLIENT_ALPHABET = ["Fin", "Cert", "CV", "CertEmpty"]
CV_TAMPERS = ["badsig", "stale", "wrongctx", "wrongkey", "wrongscheme"]
FIN_TAMPERS = ["badmac", "stale", "wrongkey", "short"]
# none: no ticket.  select: ticket offered, adversary knows the resumption secret and selects it.
# decline: offered, not selected.  pretend-unoffered: pre_shared_key in ServerHello although none was offered.
# pretend-wrong-secret: offered and "selected" by an adversary that does not know the secret (derives from an
# all-zero PSK, same cipher suite as the ticket).  select-other-suite: offered and "selected" with a cipher suite
# that the client offered but that is not the ticket's, keys from the ordinary (EC)DHE-only schedule.
PSK_MODES = ["none", "select", "decline", "pretend-unoffered", "pretend-wrong-secret", "select-other-suite",
             "select-expired-unoffered"]
MAX_LEN = 6
QUICK_FULL_LEN = 4
QUICK_SAMPLE = 150


def all_sequences(alphabet, max_len):
    out = [()]
    level = [()]
    for _ in range(max_len):
        level = [s + (a,) for s in level for a in alphabet]
        out.extend(level)
    return out


def server_flight_legal(seq, psk_really_selected):
    if psk_really_selected:
        return seq == ("EE", "Fin")
    return seq in (("EE", "Cert", "CV", "Fin"), ("EE", "CR", "Cert", "CV", "Fin"))


def client_flight_legal(seq, requested):
    if requested:
        return seq in (("Cert", "CV", "Fin"), ("CertEmpty", "Fin"))
    return seq == ("Fin",)


def plan_sequences(ch, tier, alphabet, legal_shapes):
    """[(sequence, tampers)] where tampers maps position -> tamper name"""
    full_len = MAX_LEN if tier == "thorough" else QUICK_FULL_LEN
    cases = [(s, {}) for s in all_sequences(alphabet, full_len)]
    if tier != "thorough":
        st = ch.stream("seqs")
        for _ in range(QUICK_SAMPLE):
            n = 5 + st.choose(2)
            cases.append((tuple(alphabet[st.choose(len(alphabet))] for _ in range(n)), {}))
    for shape in legal_shapes:
        if len(shape) > full_len:
            cases.append((shape, {}))  # the legal flights are always played (non-vacuity)
        for i, k in enumerate(shape):
            for t in (CV_TAMPERS if k == "CV" else FIN_TAMPERS if k == "Fin" else ()):
                cases.append((shape, {i: t}))
    return cases


def describe(seq, tampers):
    return ",".join(k + ("!" + tampers[i] if i in tampers else "") for i, k in enumerate(seq)) or "(empty)"


def run_skip_attacks(env, ch, tier, log, stats):
    tls = H.tls_mod()
    cfg = env.cfg
    mode = cfg["psk_mode"]
    offered = mode in ("select", "decline", "pretend-wrong-secret", "select-other-suite")
    ticket = None
    if offered:
        ticket, _ = env.ticket(cfg["early"])
    really_selected = mode == "select"
    expired = None
    if mode == "select-expired-unoffered":
        # the client holds a ticket that is no longer valid, so it offers no PSK; the adversary knows the
        # ticket's resumption secret and "selects" it anyway
        import dataclasses
        import datetime

        good, _ = env.ticket(cfg["early"])
        expired = dataclasses.replace(good, not_valid_after=good.not_valid_before - datetime.timedelta(seconds=1))
    shapes = [("EE", "Fin")] if really_selected else [("EE", "Cert", "CV", "Fin"), ("EE", "CR", "Cert", "CV", "Fin")]
    cases = plan_sequences(ch, tier, SERVER_ALPHABET, shapes)
    legal_completed = 0
    for seq, tampers in cases:
        rng = env.fresh("skip")
        client = H.make_client(cfg["client_suites"], cfg["alpn"], ticket=ticket or expired, cadata=cfg["cadata"],
                               client_cert=cfg["client_has_cert"], verify_none=cfg.get("verify_none", False))
        bufs = H.new_buffers()
        client.handle_message(b"", bufs)
        hello = H.drain(bufs)[0]
        if mode == "select-expired-unoffered":
            adv = A.AdversaryServer(rng, cfg["cred"], group=cfg["group"], psk=psk_of(expired), psk_mode="pretend")
        elif mode == "select":
            adv = A.AdversaryServer(rng, cfg["cred"], group=cfg["group"], psk=psk_of(ticket), psk_mode="select")
        elif mode == "pretend-wrong-secret":
            wrong = dict(psk_of(ticket), secret=bytes(len(ticket.resumption_secret)))
            adv = A.AdversaryServer(rng, cfg["cred"], group=cfg["group"], psk=wrong, psk_mode="pretend")
        elif mode == "select-other-suite":
            offered_suites = cfg["client_suites"] or [0x1302, 0x1301, 0x1303]
            other = next((x for x in offered_suites if x != int(ticket.cipher_suite)), None)
            if other is None:  # single-suite client: degenerate to the same suite with an unknown (zero) PSK
                other = int(ticket.cipher_suite)
            adv = A.AdversaryServer(rng, cfg["cred"], group=cfg["group"], cipher_suite=other, psk_mode="pretend")
        elif mode == "pretend-unoffered":
            adv = A.AdversaryServer(rng, cfg["cred"], group=cfg["group"], psk_mode="pretend")
        else:
            adv = A.AdversaryServer(rng, cfg["cred"], group=cfg["group"], psk_mode="none")
        adv.alpn = cfg["alpn"] and cfg["alpn"][0]
        adv.ee_early_data = cfg["ee_early"]
        sh = adv.accept(hello)
        if mode == "select" and not adv.binder_ok:
            raise RuntimeError("reference binder computation disagrees with the real client's binder")
        name = describe(seq, tampers)
        legal = not tampers and mode in ("none", "select", "decline")
        fed = []
        outcome = "stalled"
        stats["sequences"] += 1
        try:
            client.keylog.marker = ("SH",)
            client.handle_message(sh, bufs)
            if mode in ("pretend-unoffered", "select-expired-unoffered"):
                # RFC 8446 4.2.11: a selected identity outside what the client offered (it offered none) must be
                # refused at the ServerHello, whatever follows
                raise Violation("c11.unsolicited-psk", "ServerHello pre_shared_key accepted psk=%s" % mode,
                                "the client offered no PSK (%s) and accepted a ServerHello that selects PSK identity 0: "
                                "state is now %s" % ("it holds no ticket" if mode == "pretend-unoffered" else
                                                     "its ticket has expired", client.state))
            for i, kind in enumerate(seq):
                fed.append(kind)
                client.keylog.marker = tuple(fed)
                client.handle_message(adv.send(kind, tamper=tampers.get(i)), bufs)
                if client.state == tls.State.CLIENT_POST_HANDSHAKE:
                    outcome = "completed@%d" % (i + 1)
                    break
        except tls.Alert as e:
            outcome = "%s@%d" % (type(e).__name__, len(fed))
            stats["alert:" + type(e).__name__] += 1
        except Violation:
            raise
        except Exception as e:  # not an alert: other properties judge that; here it is "no completion"
            outcome = "EXC:%s@%d" % (type(e).__name__, len(fed))
            stats["exception:" + type(e).__name__] += 1
        log("%s%s %s -> %s" % (mode, "+ee-early" if cfg["ee_early"] else "", name, outcome))
        prefix_legal = legal and server_flight_legal(tuple(fed), really_selected) and not any(
            i in tampers for i in range(len(fed)))
        if client.state == tls.State.CLIENT_POST_HANDSHAKE and not prefix_legal:
            raise Violation("c11.skip", "server-flight psk=%s%s seq=%s" % (
                mode, " ee-early-data" if cfg["ee_early"] else "", describe(tuple(fed), tampers)),
                "the real client reached CLIENT_POST_HANDSHAKE after the key-holding adversary "
                "server sent ServerHello followed by [%s] (psk mode: %s, early_data extension in "
                "EncryptedExtensions: %s, certificate %s, client suites %s); only EE [CR] Cert CV Fin, or EE Fin "
                "with an offered PSK selected by a server that knows it, may complete" % (
                    describe(tuple(fed), tampers), mode, cfg["ee_early"], cfg["cred"], cfg["client_suites"]))
        # keys: 1-RTT only after the server's Finished verified, i.e. only on a legal complete flight
        for direction, epoch, marker in client.keylog.events:
            if epoch == "ONE_RTT" and not (prefix_legal and marker == tuple(fed)):
                raise Violation("c11.key-release", "client ONE_RTT %s after psk=%s %s" % (
                    direction, mode, describe(marker, tampers)),
                    "the client released its 1-RTT %s key while processing message %d of the server flight [%s] "
                    "(psk mode %s): no verified server Finished precedes it" % (
                        direction, len(marker), describe(marker, tampers), mode))
            if epoch == "HANDSHAKE" and marker == ():
                raise Violation("c11.key-release", "client HANDSHAKE before ServerHello", "handshake keys without SH")
        if client.state == tls.State.CLIENT_POST_HANDSHAKE:
            legal_completed += 1
            adv.receive(b"".join(H.drain(bufs)))
            if not adv.client_finished_ok:
                raise RuntimeError("reference key schedule cannot verify the real client's Finished")
            ks = client.keylog.secrets
            if (ks[("DECRYPT", "ONE_RTT")], ks[("ENCRYPT", "ONE_RTT")]) != (adv.server_ap_secret,
                                                                           adv.client_ap_secret):
                raise RuntimeError("reference application secrets differ from the real client's")
        else:
            stats["illegal_fed"] += 1
            if legal and not tampers and server_flight_legal(seq, really_selected):
                raise RuntimeError("self-check: the legal flight %s did not complete (%s)" % (name, outcome))
    stats["legal_completed"] += legal_completed
    if mode in ("none", "select", "decline") and legal_completed == 0:
        raise RuntimeError("self-check: no legal sequence completed")


def run_client_flight(env, ch, tier, log, stats):
    tls = H.tls_mod()
    cfg = env.cfg
    requested = cfg["request_client_cert"]
    use_psk = cfg["flight_mode"] in ("psk", "psk-early")
    early = cfg["flight_mode"] == "psk-early"  # 0-RTT offered by the adversary client and accepted by the server
    ticket = store = None
    if use_psk:
        ticket, store = env.ticket(early)
    shapes = [("Cert", "CV", "Fin"), ("CertEmpty", "Fin")] if requested else [("Fin",)]
    cases = plan_sequences(ch, tier, CLIENT_ALPHABET, shapes)
    legal_completed = 0
    if use_psk:
        # a known ticket identity with a binder that does not verify (RFC 8446 4.2.11: MUST abort): the
        # server must refuse it and release no key at all, in particular not the 0-RTT receive key
        rng = env.fresh("badbinder")
        server = H.make_server(cfg["cred"], cfg["server_suites"], cfg["alpn"], request_client_cert=requested,
                               ticket_store=store)
        bufs = H.new_buffers()
        wrong = dict(psk_of(ticket), secret=bytes(len(ticket.resumption_secret)))
        adv = A.AdversaryClient(rng, groups=[cfg["group"]], alpn=cfg["alpn"], psk=wrong, cipher_suites=[wrong["suite"]])
        if early:
            adv.extensions.append((M.EXT_EARLY_DATA, b""))
        server.keylog.marker = ("CH-bad-binder",)
        refused = None
        try:
            server.handle_message(adv.client_hello(), bufs)
        except tls.Alert as e:
            refused = type(e).__name__
        stats["bad_binder_hellos"] += 1
        log("%s bad-binder -> %s, keys %s" % (cfg["flight_mode"], refused, server.keylog.events))
        if refused is None and (server.early_data_accepted or server.session_resumed):
            raise Violation("c11.binder", "psk-accepted-with-bad-binder early=%s" % early,
                            "the server accepted a pre-shared key (early data accepted: %s) although the PSK binder "
                            "of the ClientHello does not verify" % server.early_data_accepted)
        if refused is not None and server.keylog.events:
            raise Violation("c11.key-release", "server %s %s before the binder was verified" % (
                server.keylog.events[0][1], server.keylog.events[0][0]),
                "the server released keys %s while processing a ClientHello whose PSK binder does not verify (it "
                "then refused it with %s): the early-data key must not exist before the binder is checked" % (
                    server.keylog.events, refused))
    for seq, tampers in cases:
        rng = env.fresh("flight")
        server = H.make_server(cfg["cred"], cfg["server_suites"], cfg["alpn"], request_client_cert=requested,
                               ticket_store=store)
        bufs = H.new_buffers()
        psk = psk_of(ticket) if use_psk else None
        adv = A.AdversaryClient(rng, groups=[cfg["group"]], alpn=cfg["alpn"], psk=psk,
                                cipher_suites=[psk["suite"]] if psk else None)
        if early:
            adv.extensions.append((M.EXT_EARLY_DATA, b""))
        name = describe(seq, tampers)
        fed = []
        outcome = "stalled"
        stats["sequences"] += 1
        server.keylog.marker = ("CH",)
        server.handle_message(adv.client_hello(), bufs)
        adv.receive(b"".join(H.drain(bufs)))
        if server.early_data_accepted != early:
            raise RuntimeError("self-check: early data accepted=%s, wanted %s" % (server.early_data_accepted, early))
        if not adv.server_finished_ok or adv.psk_selected != use_psk or adv.certificate_requested != requested:
            raise RuntimeError("reference key schedule disagrees with the real server's flight")
        try:
            for i, kind in enumerate(seq):
                fed.append(kind)
                server.keylog.marker = tuple(fed)
                server.handle_message(adv.send(kind, tamper=tampers.get(i)), bufs)
                if server.state == tls.State.SERVER_POST_HANDSHAKE:
                    outcome = "completed@%d" % (i + 1)
                    break
        except tls.Alert as e:
            outcome = "%s@%d" % (type(e).__name__, len(fed))
            stats["alert:" + type(e).__name__] += 1
        except Exception as e:
            outcome = "EXC:%s@%d" % (type(e).__name__, len(fed))
            stats["exception:" + type(e).__name__] += 1
        log("%s %s -> %s" % (cfg["flight_mode"], name, outcome))
        prefix_legal = client_flight_legal(tuple(fed), requested) and not any(i in tampers for i in range(len(fed)))
        if server.state == tls.State.SERVER_POST_HANDSHAKE and not prefix_legal:
            raise Violation("c11.skip", "client-flight cr=%s psk=%s seq=%s" % (
                requested, use_psk, describe(tuple(fed), tampers)),
                "the real server reached SERVER_POST_HANDSHAKE after the key-holding adversary client sent [%s] "
                "(client certificate requested: %s, PSK: %s); only %s may complete" % (
                    describe(tuple(fed), tampers), requested, use_psk,
                    "Cert CV Fin or an empty Certificate followed by Fin" if requested else "Fin"))
        for direction, epoch, marker in server.keylog.events:
            if epoch == "ONE_RTT" and direction == "DECRYPT" and not (prefix_legal and marker == tuple(fed)):
                raise Violation("c11.key-release", "server ONE_RTT DECRYPT mode=%s after %s" % (
                    cfg["flight_mode"], describe(marker, tampers)),
                    "the server released its 1-RTT receive key while processing %s (client flight fed: [%s], mode "
                    "%s): no verified client Finished precedes it" % (
                        "the ClientHello" if marker == ("CH",) else "message %d of the client flight" % len(marker),
                        describe(tuple(fed), tampers), cfg["flight_mode"]))
        if server.state == tls.State.SERVER_POST_HANDSHAKE:
            legal_completed += 1
            if server.keylog.secrets[("DECRYPT", "ONE_RTT")] != adv.client_ap_secret:
                raise RuntimeError("reference application secrets differ from the real server's")
        else:
            stats["illegal_fed"] += 1
            if not tampers and client_flight_legal(seq, requested):
                raise RuntimeError("self-check: the legal client flight %s did not complete (%s)" % (name, outcome))
    stats["legal_completed"] += legal_completed
    if legal_completed == 0:
        raise RuntimeError("self-check: no legal sequence completed")


# ------------------------------------------------------------------ run_one
def draw_config(ch, variant):
    c = ch.stream("config")
    cred = fixtures.SERVER_CERTS[c.choose(len(fixtures.SERVER_CERTS))]
    cfg = {
        "cred": cred,
        "client_suites": H.SUITE_LISTS[c.choose(len(H.SUITE_LISTS))],
        "server_suites": None,
        "group": [M.X25519, M.SECP256R1][c.choose(2)],
        "alpn": [None, ["h3"], ["hq-interop", "h3"]][c.choose(3)],
        "cadata": bool(c.choose(2)),
        "real_peer": bool(c.choose(2)),
        "client_has_cert": bool(c.choose(2)),
        "psk_mode": PSK_MODES[c.weighted([3, 3, 2, 1, 1, 2, 1])],
        "early": bool(c.choose(2)),       # ticket carries max_early_data -> the real client offers 0-RTT
        "ee_early": bool(c.choose(2)),    # adversary server puts early_data into EncryptedExtensions
        "flight_mode": ["plain", "cr", "psk", "psk-early"][c.choose(4)],
    }
    cfg["verify_none"] = c.choose(4) == 0  # skip_attacks: a client with verify_mode=CERT_NONE
    cfg["request_client_cert"] = cfg["flight_mode"] == "cr"
    if variant == "client_flight":
        cfg["server_suites"] = cfg["client_suites"]
        cfg["client_suites"] = None
    return cfg


def run_one(seed, tier="quick", variant=None, replay=None):
    variant = variant or "state_table"
    H.tls_mod()
    bootstrap.DET.reseed(seed)
    ch = Chooser(seed, replay)
    cfg = draw_config(ch, variant)
    env = Env(seed, cfg)
    digest = hashlib.sha256()
    stats = Counter()

    def log(line):
        digest.update(line.encode())
        digest.update(b"\n")

    out = Outcome(seed)
    states = set()
    reason = "ok"
    try:
        if variant == "state_table":
            states = run_state_table(env, ch, log, stats)
        elif variant == "skip_attacks":
            run_skip_attacks(env, ch, tier, log, stats)
        elif variant == "client_flight":
            run_client_flight(env, ch, tier, log, stats)
        else:
            raise RuntimeError("unknown variant %r" % (variant,))
    except Violation as v:
        out.violation = violation_dict(v)
        reason = "violation"
    probes = {k: v for k, v in stats.items() if k.startswith(("alert:", "exception:"))}
    extra = {k: v for k, v in stats.items() if not k.startswith(("alert:", "exception:"))}
    out.summary = {
        "reason": reason, "steps": stats["cells"] + stats["sequences"], "sim_time": 0.0,
        "fired": {"illegal-message-or-sequence": stats["illegal_fed"]},
        "probes": probes, "states": sorted(states), "extra": extra, "digest": digest.hexdigest()[:32],
        "inconclusive": False, "aborted": False,
    }
    out.choices = ch.dump()
    out.nontrivial = stats["illegal_fed"] > 0
    shown = {k: (v if not isinstance(v, list) else list(v)) for k, v in cfg.items()}
    out.signature = stable_hash((variant, sorted(shown.items()), out.choices.get("seqs"), out.choices.get("instances")))
    out.sample = {"seed": seed, "variant": variant, "config": shown,
                  "cases": stats["cells"] + stats["sequences"], "legal_completed": stats["legal_completed"],
                  "end": reason}
    return out


def evidence_extra(tier, total):
    full = MAX_LEN if tier == "thorough" else QUICK_FULL_LEN
    return {
        "enumeration": "per configuration: the state x type table (%d situations of the 13 states x 12 types) and all "
                      "sequences up to length %d (%d server-flight, %d client-flight) are enumerated completely; "
                      "configurations are sampled" % (len(SITUATIONS), full,
                                                      len(all_sequences(SERVER_ALPHABET, full)),
                                                      len(all_sequences(CLIENT_ALPHABET, full))),
        "table_situations": len(SITUATIONS),
        "table_cells_per_run": len(SITUATIONS) * len(TYPE_KINDS),
        "sequence_space_len6": {"server_flight": len(all_sequences(SERVER_ALPHABET, MAX_LEN)),
                                "client_flight": len(all_sequences(CLIENT_ALPHABET, MAX_LEN))},
    }
