"""Shared plumbing for the TLS-level checks (C11, C03 transcript integrity): real
`aioquic.tls.Context` factories on the fixtures, epoch buffers, message-by-message piping,
ticket acquisition through a real handshake, and a recorder for `update_traffic_key_cb`.

Not a check module.  aioquic is only imported after `sim.bootstrap.load()`.
"""
from sim import bootstrap, fixtures
from tls13 import adversary as A
from tls13 import messages as M

SUITE_LISTS = [
    None,  # aioquic default: [AES_256_GCM_SHA384, AES_128_GCM_SHA256, CHACHA20_POLY1305_SHA256]
    [0x1301],
    [0x1302],
    [0x1303],
    [0x1303, 0x1301, 0x1302],
]
QUIC_TP_CLIENT = A.DEFAULT_QUIC_TP
QUIC_TP_SERVER = bytes.fromhex("040480100000080240640f0411223344")

_mods = {}


def tls_mod():
    if not _mods:
        bootstrap.load()
        from aioquic import tls
        from aioquic.buffer import Buffer

        import warnings

        from cryptography.utils import CryptographyDeprecationWarning

        # altered certificates (zero/negative serial numbers ...) make `cryptography` warn; not our subject
        warnings.filterwarnings("ignore", category=CryptographyDeprecationWarning)
        _mods["tls"] = tls
        _mods["Buffer"] = Buffer
    return _mods["tls"]


def new_buffers():
    tls = tls_mod()
    Buffer = _mods["Buffer"]
    return {tls.Epoch.INITIAL: Buffer(capacity=16384), tls.Epoch.HANDSHAKE: Buffer(capacity=16384),
            tls.Epoch.ONE_RTT: Buffer(capacity=16384)}


def drain(bufs):
    """bytes written since the last drain, in epoch order, as a list of handshake messages"""
    tls = tls_mod()
    data = b""
    for e in (tls.Epoch.INITIAL, tls.Epoch.HANDSHAKE, tls.Epoch.ONE_RTT):
        data += bufs[e].data
        bufs[e].seek(0)
    msgs, rest = M.split_handshake(data)
    if rest:
        raise RuntimeError("real Context wrote an incomplete handshake message")
    return msgs


def suites(lst):
    tls = tls_mod()
    return None if lst is None else [tls.CipherSuite(x) for x in lst]


class KeyLog:
    """update_traffic_key_cb recorder: (direction, epoch, marker) where marker is whatever the
    harness set as 'what has been fed so far'."""

    def __init__(self):
        self.events = []
        self.marker = ()
        self.secrets = {}

    def __call__(self, direction, epoch, cipher_suite, secret):
        self.events.append((direction.name, epoch.name, self.marker))
        self.secrets[(direction.name, epoch.name)] = bytes(secret)

    def count(self):
        return len(self.events)


def make_client(cipher_suites=None, alpn=None, ticket=None, want_ticket=None, client_cert=False, cadata=False,
                verify_none=False):
    tls = tls_mod()
    kw = {"cadata": fixtures.ca_pem()} if cadata else {"cafile": fixtures.ca_path()}
    if verify_none:  # the application does not validate the chain; the handshake's message order is unaffected
        import ssl

        kw["verify_mode"] = ssl.CERT_NONE
    c = tls.Context(is_client=True, alpn_protocols=alpn, cipher_suites=suites(cipher_suites),
                    server_name="localhost", **kw)
    c.handshake_extensions = [(tls.ExtensionType.QUIC_TRANSPORT_PARAMETERS, QUIC_TP_CLIENT)]
    if ticket is not None:
        c.session_ticket = ticket
    if want_ticket is not None:
        c.new_session_ticket_cb = want_ticket
    if client_cert:
        cert, chain, key = fixtures.cert_chain("client")
        c.certificate, c.certificate_chain, c.certificate_private_key = cert, chain, key
    c.keylog = KeyLog()
    c.update_traffic_key_cb = c.keylog
    return c


def make_server(cred="server_ed25519", cipher_suites=None, alpn=None, request_client_cert=False,
                ticket_store=None, issue_tickets=False, max_early_data=None):
    tls = tls_mod()
    s = tls.Context(is_client=False, alpn_protocols=alpn, cipher_suites=suites(cipher_suites),
                    max_early_data=max_early_data)
    cert, chain, key = fixtures.cert_chain(cred)
    s.certificate, s.certificate_chain, s.certificate_private_key = cert, chain, key
    s.handshake_extensions = [(tls.ExtensionType.QUIC_TRANSPORT_PARAMETERS, QUIC_TP_SERVER)]
    s._request_client_certificate = request_client_cert
    if ticket_store is not None:
        s.get_session_ticket_cb = ticket_store.get
        if issue_tickets:
            s.new_session_ticket_cb = lambda t: ticket_store.__setitem__(t.ticket, t)
    s.keylog = KeyLog()
    s.update_traffic_key_cb = s.keylog
    return s


def real_handshake(client, server):
    """Drive two real contexts to completion (whole flights). Returns the list of
    (direction, message bytes) exchanged. Raises RuntimeError if it does not complete."""
    tls = tls_mod()
    cb, sb = new_buffers(), new_buffers()
    log = []
    client.handle_message(b"", cb)
    to_server = drain(cb)
    for _ in range(4):
        for m in to_server:
            log.append(("c2s", m))
            server.handle_message(m, sb)
        to_client = drain(sb)
        for m in to_client:
            log.append(("s2c", m))
            client.handle_message(m, cb)
        to_server = drain(cb)
        if not to_server:
            break
    if client.state != tls.State.CLIENT_POST_HANDSHAKE or server.state != tls.State.SERVER_POST_HANDSHAKE:
        raise RuntimeError("baseline handshake did not complete: %s / %s" % (client.state, server.state))
    return log


def obtain_ticket(cred="server_ed25519", client_suites=None, server_suites=None, alpn=None, max_early_data=None):
    """One real full handshake that issues a ticket.  Returns (client-side SessionTicket,
    server-side ticket store dict)."""
    got = []
    store = {}
    c = make_client(client_suites, alpn, want_ticket=got.append)
    s = make_server(cred, server_suites, alpn, ticket_store=store, issue_tickets=True, max_early_data=max_early_data)
    real_handshake(c, s)
    if len(got) != 1 or got[0].ticket not in store:
        raise RuntimeError("no ticket issued by the real handshake")
    if got[0].resumption_secret != store[got[0].ticket].resumption_secret:
        raise RuntimeError("client and server disagree on the resumption secret")
    return got[0], store


def alert_name(exc):
    tls = tls_mod()
    if isinstance(exc, tls.Alert):
        return type(exc).__name__
    return "EXC:" + type(exc).__name__
