"""C01 Reliable, ordered, exactly-once stream delivery over any lossy network."""
from sim.chooser import Chooser
from sim.kernel import Violation
from sim.runner import Outcome, stable_hash, violation_dict
from sim.transport import Oracle, TransportSim, pattern

PROPERTY = "C01"
NAME = "c01"
LEVEL = "exploration"
RULE = (
    "each run = one seed -> swarm configuration + application script (write/FIN/reset/stop/ping/key-update/"
    "CID-change on bidi and uni streams, both directions) + per-datagram fates (drop/dup/delay/blackout/rebind) "
    "and timer latenesses during a bounded adversarial phase, then a fair phase; a run is non-trivial when at "
    "least one fault fired and stream bytes were delivered; distinct = distinct hash of the sequence of "
    "(sender, fate) decisions of the adversarial phase together with the executed application ops"
)
ASSUMPTIONS = [
    "sampling, not proof: a clean batch is evidence only for the schedules drawn",
    "the scripted application uses the public API as documented (no write after FIN/reset, key updates only "
    "after an acknowledgement under the current keys, RFC 9001 6.1)",
    "cryptography/OpenSSL are trusted",
]
COMPONENTS = {
    "real": ["QuicConnection x2 (client, server)", "recovery", "congestion control", "packet builder", "streams",
             "tls.Context", "_crypto/_buffer C helpers rebuilt from the working tree"],
    "stub": ["network", "clocks and timers", "application script", "server front-end (accept on first Initial)"],
}
PLAN = {
    "quick": {"budget_s": 60, "max_runs": 1000000, "variants": ["faulty", "faulty", "rebind_storm", "quiet_receiver", "fault_free"]},
    "thorough": {"budget_s": 900, "max_runs": 100000000, "variants": ["faulty", "faulty", "rebind_storm", "quiet_receiver", "fault_free"]},
}


class C01Oracle(Oracle):
    def on_start(self, sim):
        self.sim = sim

    def on_event(self, ep, ev):
        name = type(ev).__name__
        sim = self.sim
        if name == "StreamDataReceived":
            sender = ep.peer
            st = sender.app.send.get(ev.stream_id)
            rs = ep.app.recv[ev.stream_id]
            written = st.written if st is not None else 0
            if rs.fin:
                raise Violation("c01.after-end", "event-after-end-of-stream",
                                "%s got StreamDataReceived(stream=%d, len=%d, end=%s) after end-of-stream was "
                                "already signalled" % (ep.name, ev.stream_id, len(ev.data), ev.end_stream))
            if rs.reset and not sim.profile.get("allow_data_after_reset", True):
                pass
            new_len = rs.delivered + len(ev.data)
            if new_len > written:
                raise Violation("c01.prefix", "more-than-written",
                                "%s received %d bytes on stream %d but only %d were written" % (
                                    ep.name, new_len, ev.stream_id, written))
            expect = pattern(sender.app.direction, ev.stream_id, rs.delivered, len(ev.data))
            if bytes(ev.data) != expect:
                raise Violation("c01.prefix", "wrong-bytes",
                                "%s stream %d: bytes delivered at offset %d (len %d) differ from what was written" % (
                                    ep.name, ev.stream_id, rs.delivered, len(ev.data)))
            abandoned = (st is not None and (st.reset or st.stopped_by_peer)) or rs.reset or rs.stop_requested
            if ev.end_stream and not abandoned:
                # (a stream that was reset, or that the receiver asked to stop, ends at the final
                # size of the RESET_STREAM; the application has been told by StreamReset / its own
                # stop_stream() call, so the end marker is not judged there)
                if st is None or not st.fin:
                    raise Violation("c01.fin", "fin-not-written",
                                    "%s stream %d: end_stream signalled but the sender never wrote FIN" % (
                                        ep.name, ev.stream_id))
                if new_len != written:
                    raise Violation("c01.fin", "fin-before-all-bytes",
                                    "%s stream %d: end_stream at %d of %d bytes" % (
                                        ep.name, ev.stream_id, new_len, written))
        elif name == "ConnectionTerminated" and ev.reason_phrase == "Idle timeout":
            # nothing was received for the whole negotiated idle period (>= 60 s, far beyond the
            # adversarial phase): judged by the liveness verdict at the end of the run
            self.idle_timeout = (ep.name, sim.k.now)
        elif name == "ConnectionTerminated":
            # the scripts never close; only an idle timeout (nothing received for the whole
            # negotiated period) could legitimately end a connection here
            raise Violation("c01.closed", "code=0x%x frame=%s reason=%s" % (
                ev.error_code, ev.frame_type, ev.reason_phrase[:40]),
                "%s: connection terminated at t=%.3f with error 0x%x (%r) although the network only "
                "dropped/delayed/duplicated/reordered datagrams" % (ep.name, sim.k.now, ev.error_code,
                                                                    ev.reason_phrase))

    def _incomplete(self):
        sim = self.sim
        out = []
        for sender in sim.endpoints:
            recv = sender.peer
            for sid, st in sender.app.send.items():
                rs = recv.app.recv.get(sid)
                delivered = rs.delivered if rs else 0
                fin = rs.fin if rs else False
                if st.reset or st.stopped_by_peer or (rs is not None and rs.stop_requested):
                    continue  # resets abandon data by design
                if delivered < st.written or (st.fin and not fin):
                    out.append((sender.name, sid, delivered, st.written, st.fin, fin))
        return out

    def goal_reached(self):
        return not self._incomplete()

    def at_end(self, reason):
        if reason in ("step-cap", "api-exception"):
            return
        inc = self._incomplete()
        if inc and not any(e.crashed for e in self.sim.endpoints):
            s = inc[0]
            # classification only (never the verdict): is the server still confined by the
            # anti-amplification limit on a path it never managed to validate?
            disc = "undelivered"
            try:
                paths = self.sim.server.conn._network_paths
                if paths and not paths[0].is_validated and self.sim.net.fired.get("rebind"):
                    disc = "undelivered/server-path-never-validated-after-rebind"
            except Exception:
                pass
            raise Violation("c01.liveness", disc,
                            "network fair since t=%.2f, run ended (%s) at t=%.2f: stream %d from %s delivered %d of "
                            "%d bytes, fin written=%s delivered=%s (%d streams incomplete)" % (
                                self.sim.cfg["t_fair"], reason, self.sim.k.now, s[1], s[0], s[2], s[3], s[4], s[5],
                                len(inc)))


PROBING = ("PADDING", "PATH_CHALLENGE", "PATH_RESPONSE", "NEW_CONNECTION_ID")


class PathExpectation(Oracle):
    """No verdict of its own: tells the simulated NAT where RFC 9000 9.3 expects the server to send (source of
    the highest-numbered non-probing 1-RTT packet delivered to it), so that in the fair phase a former mapping
    is revived only for a server that cannot know better (profile key strict_heal)."""

    def on_start(self, sim):
        self.sim = sim
        self.highest = -1
        self.cands = []

    def on_datagram_delivered(self, ep, dgram, copy_index):
        if ep.is_client or dgram.sender != "client":
            return
        for p in dgram.meta or []:
            if p.opaque or p.pn is None or p.space != "app" or p.ptype != "1rtt":
                continue
            if all(f.name in PROBING for f in p.frames):
                continue
            if p.pn > self.highest:
                self.cands.append((p.pn, dgram.src))

    def after_step(self):
        # delivered is not processed (a packet of the previous key phase is undecryptable for a server that
        # has just updated its keys): count a packet once the server's receive state shows it
        if not self.cands:
            return
        conn = self.sim.server.conn
        cands, self.cands = self.cands, []
        if conn is None:
            return
        try:
            from aioquic import tls

            space = conn._spaces[tls.Epoch.ONE_RTT]
        except Exception:
            return
        for pn, src in cands:
            if pn > self.highest and pn in space.ack_queue:
                self.highest = pn
                self.sim.net.expected_client_addr = src


PROFILES = {
    "faulty": {"faults": ("drop", "dup", "delay", "blackout", "rebind", "timer-late", "clock"), "retry_p": 0.15,
               "allow_vn": True},
    # many address changes in one connection: every new path gets its own PATH_CHALLENGE, responses may be late
    "rebind_storm": {"faults": ("drop", "dup", "delay", "rebind", "timer-late"), "max_rebinds": 10, "rebind_mean": 5.0, "rebind_burst": True,
                     "rebind_old_alive_p": 0.6, "strict_heal": True},
    # one application only ever receives (and updates its keys): all its packets are acknowledgements
    "quiet_receiver": {"faults": ("drop", "dup", "delay", "blackout", "timer-late"), "quiet_side_p": 1.0, "max_ops": 24, "drop_after_ku_p": 0.5, "ku_quiet_p": 0.5,
                       "op_weights": {"write": 10, "fin": 3, "ping": 1.0, "key_update": 6.0, "reset": 0.5, "stop": 0.5,
                                      "change_cid": 0.5}},
    "fault_free": {"fault_free": True},
}


def run_one(seed, tier="quick", variant=None, replay=None):
    variant = variant or "faulty"
    ch = Chooser(seed, replay)
    oracle = C01Oracle()
    profile = dict(PROFILES[variant])
    oracles = [oracle]
    import os

    if os.environ.get("VERIF_TRACE") or profile.get("strict_heal"):
        # the wire decoder: a debugging aid in general, needed by PathExpectation
        from sim.monitor import WireMonitor

        profile["secrets_log"] = True
        oracles.insert(0, WireMonitor())
        if profile.get("strict_heal"):
            oracles.insert(1, PathExpectation())
    sim = TransportSim(ch, profile, oracles)
    out = Outcome(seed)
    try:
        reason = sim.run()
    except Violation as v:
        out.violation = violation_dict(v, sim.k)
        reason = "violation"
    s = sim.summary()
    s["reason"] = reason
    s["inconclusive"] = reason == "step-cap"
    s["aborted"] = reason == "api-exception"
    out.summary = s
    out.choices = ch.dump()
    fired = sum(v for k, v in s["fired"].items() if k not in ("noroute",))
    out.nontrivial = fired > 0 and s["bytes_delivered"] > 0
    out.signature = s["sig"] + ":" + stable_hash([o[1:4] for o in sim.op_log])
    out.sample = {"seed": seed, "variant": variant, "config": {k: sim.cfg[k] for k in (
        "latency", "fate_weights", "t_adv", "blackouts", "rebinds", "cc", "client_versions", "server_versions",
        "client_max_data", "server_max_stream_data")}, "ops": sim.op_log[:12], "fired": s["fired"],
        "datagrams": s["datagrams"], "end": reason}
    return out
