"""C03, transcript integrity at TLS level (helper for checks/c03.py; NOT a check module).

    run_transcript_integrity(seed, tier, replay=None) -> sim.runner.Outcome

Two REAL `aioquic.tls.Context` objects are piped message by message.  One call = one
configuration (server certificate key type, cipher-suite lists of both sides, ALPN, PSK
resumption with a real ticket from a previous real handshake or not, 0-RTT offer or not,
client-certificate request or not, client has a certificate or not) x a set of alterations
(message, byte position, mask in {0x01, 0x80, 0xFF}): quick = header bytes and last byte of every
message + a chooser-selected sample of positions; thorough = every byte position of every
message x the three masks.  For every alteration the handshake is replayed from scratch with
identical seeded randomness, the one message is altered in transit, everything else is
delivered unaltered until nothing more flows or an endpoint raises.

Oracle (property text: "changing any byte of any handshake message in either direction prevents
completion on the endpoint that received it"): the context that RECEIVED the altered message
never reaches its post-handshake state.  An alert, any other exception, a stall or a later
MAC/signature failure are all fine; what the sending side does is not judged.

Which (message, direction) pairs are claimed, and why the claim is sound for EVERY byte:
  a receiver completes only by accepting the peer's Finished, which the honest peer computes
  over ITS OWN view of the transcript; the receiver compares against the transcript as IT
  received it.  Every byte of a message (4-byte handshake header included, ignored/unknown/GREASE
  extension contents included, legacy_session_id, legacy_version, compression included) is hashed
  as received, so any change before the peer's Finished makes the two views differ:
    c2s ClientHello                 -> server needs the client's Finished over (CH as sent ...);
                                       with PSK the binder covers it too, and a PSK identity that no
                                       longer matches only falls back to a full handshake whose
                                       transcript still contains the altered CH
    s2c ServerHello, EncryptedExtensions, CertificateRequest, Certificate, CertificateVerify
                                    -> client checks CertificateVerify (non-PSK) and the server's
                                       Finished over them (ServerHello additionally feeds the keys)
    s2c Finished                    -> compared with the client's own MAC
    c2s Certificate (empty or not), CertificateVerify
                                    -> server's expected client Finished is computed over them
    c2s Finished                    -> compared with the server's own MAC
  Excluded (not claimed):
    * NewSessionTicket (s2c): a post-handshake message; it arrives after the client completed (or in
      the same flight, after the server's Finished), is not part of the handshake transcript and at
      TLS level nothing authenticates it (only record protection does, which does not exist in a
      Context-to-Context pipe).  It is delivered unaltered.
    * the sender's own completion: altering the client's Finished cannot un-complete the client.
    * HelloRetryRequest / EndOfEarlyData / KeyUpdate: never produced by aioquic's Context.
  No byte of a claimed message is excluded.
"""
import hashlib
from collections import Counter

from sim import bootstrap, fixtures
from sim.chooser import Chooser
from sim.kernel import Violation
from sim.runner import Outcome, stable_hash, violation_dict

from checks import tls_harness as H
from tls13 import messages as M

MASKS = [0x01, 0x80, 0xFF]
QUICK_SAMPLE = 120
CLAIMED = {
    "c2s": [M.CLIENT_HELLO, M.CERTIFICATE, M.CERTIFICATE_VERIFY, M.FINISHED],
    "s2c": [M.SERVER_HELLO, M.ENCRYPTED_EXTENSIONS, M.CERTIFICATE_REQUEST, M.CERTIFICATE, M.CERTIFICATE_VERIFY,
            M.FINISHED],
}


BIT_MASKS = [1 << b for b in range(8)]


def shorter_length_masks(message, every):
    """(position, mask) pairs on the three length bytes whose xor yields a smaller (valid) body length:
    all of them if `every`, else up to 24 evenly spread ones per length byte."""
    length = int.from_bytes(message[1:4], "big")
    out = []
    for pos in (1, 2, 3):
        cand = []
        for mask in range(1, 256):
            b = bytearray(message[1:4])
            b[pos - 1] ^= mask
            if int.from_bytes(b, "big") < length:
                cand.append((pos, mask))
        if not every and len(cand) > 24:
            step = len(cand) / 24.0
            cand = [cand[int(k * step)] for k in range(24)]
        out.extend(cand)
    return out


def draw_config(ch):
    c = ch.stream("config")
    cred = fixtures.SERVER_CERTS[c.choose(len(fixtures.SERVER_CERTS))]
    client_suites = H.SUITE_LISTS[c.choose(len(H.SUITE_LISTS))]
    compatible = [l for l in H.SUITE_LISTS if l is None or client_suites is None or set(l) & set(client_suites)]
    server_suites = compatible[c.choose(len(compatible))]
    psk = bool(c.choose(2))
    cfg = {
        "cred": cred, "client_suites": client_suites, "server_suites": server_suites,
        "alpn": [None, ["h3"], ["hq-interop", "h3"]][c.choose(3)],
        "psk": psk, "early": bool(c.choose(2)) and psk,
        # (aioquic's test-only _request_client_certificate flag is not meaningful together with a PSK)
        "request_client_cert": bool(c.choose(2)) and not psk,
        "client_has_cert": bool(c.choose(2)),
        "cadata": bool(c.choose(2)),
    }
    return cfg


def pipe(seed, cfg, ticket, store, alter=None):
    """One handshake, message by message.  alter = (ordinal, position, mask) or None.
    Returns (client, server, delivered [(direction, original bytes)], outcome string)."""
    tls = H.tls_mod()
    bootstrap.DET.reseed((seed, "c03-handshake"))
    client = H.make_client(cfg["client_suites"], cfg["alpn"], ticket=ticket if cfg["psk"] else None,
                           client_cert=cfg["client_has_cert"], cadata=cfg["cadata"])
    server = H.make_server(cfg["cred"], cfg["server_suites"], cfg["alpn"],
                           request_client_cert=cfg["request_client_cert"], ticket_store=store if cfg["psk"] else None)
    cb, sb = H.new_buffers(), H.new_buffers()
    delivered = []
    outcome = "quiescent"
    client.handle_message(b"", cb)
    pending = [("c2s", m) for m in H.drain(cb)]
    while pending:
        direction, msg = pending.pop(0)
        ordinal = len(delivered)
        delivered.append((direction, msg))
        if alter is not None and alter[0] == ordinal:
            b = bytearray(msg)
            b[alter[1]] ^= alter[2]
            msg = bytes(b)
        rx, rxb, back = (server, sb, "s2c") if direction == "c2s" else (client, cb, "c2s")
        try:
            rx.handle_message(msg, rxb)
        except Exception as e:  # an alert (or any other exception) ends the connection
            outcome = "%s:%s" % ("server" if direction == "c2s" else "client", H.alert_name(e))
            break
        pending.extend((back, m) for m in H.drain(rxb))
    return client, server, delivered, outcome


def run_transcript_integrity(seed, tier="quick", replay=None):
    tls = H.tls_mod()
    bootstrap.DET.reseed(seed)
    ch = Chooser(seed, replay)
    cfg = draw_config(ch)
    out = Outcome(seed)
    digest = hashlib.sha256()
    stats = Counter()
    probes = Counter()
    ticket = store = None
    if cfg["psk"]:
        bootstrap.DET.reseed((seed, "c03-ticket"))
        ticket, store = H.obtain_ticket(cfg["cred"], cfg["client_suites"], cfg["server_suites"], cfg["alpn"],
                                        max_early_data=0xFFFFFFFF if cfg["early"] else None)

    # baseline: must complete on both sides, otherwise the experiment says nothing
    client, server, baseline, outcome = pipe(seed, cfg, ticket, store)
    if client.state != tls.State.CLIENT_POST_HANDSHAKE or server.state != tls.State.SERVER_POST_HANDSHAKE:
        raise RuntimeError("baseline handshake did not complete (%s): %r" % (outcome, cfg))
    if cfg["psk"] and not (client.session_resumed and server.session_resumed):
        raise RuntimeError("baseline handshake did not resume: %r" % (cfg,))
    targets = [(i, d, m) for i, (d, m) in enumerate(baseline) if m[0] in CLAIMED[d]]
    kinds = ["%s/%s" % (d, M.TYPE_NAMES[m[0]]) for _, d, m in targets]
    unclaimed = [M.TYPE_NAMES[m[0]] for d, m in baseline if m[0] not in CLAIMED[d]]
    if any(u != "NewSessionTicket" for u in unclaimed):
        raise RuntimeError("unexpected message in the baseline handshake: %r" % (unclaimed,))

    # ---- which alterations
    # The 4 header bytes (type + 24-bit length) get every single-bit mask: a length that becomes SHORTER
    # truncates the message (its tail is then parsed as the next message), which the three body masks never do.
    plan = []
    if tier == "thorough":
        for i, d, m in targets:
            for pos in range(len(m)):
                for mask in (BIT_MASKS + [0xFF] if pos < 4 else MASKS):
                    plan.append((i, pos, mask))
            plan.extend((i, pos, mask) for pos, mask in shorter_length_masks(m, m[0] == M.FINISHED))
    else:
        st = ch.stream("positions")
        for i, d, m in targets:
            if m[0] == M.FINISHED:
                for pos in range(4):
                    for mask in BIT_MASKS:
                        plan.append((i, pos, mask))
                shorter = shorter_length_masks(m, True)
                for _ in range(4):
                    plan.append((i,) + shorter[st.choose(len(shorter))])
            else:
                for pos in range(4):
                    plan.append((i, pos, BIT_MASKS[st.choose(8)]))
                    plan.append((i, pos, BIT_MASKS[st.choose(8)]))
            plan.append((i, len(m) - 1, MASKS[st.choose(3)]))
        for _ in range(QUICK_SAMPLE):
            i, d, m = targets[st.choose(len(targets))]
            plan.append((i, st.choose(len(m)), MASKS[st.choose(3)]))
    plan = sorted(set(plan))

    reason = "ok"
    try:
        for ordinal, pos, mask in plan:
            direction, original = baseline[ordinal]
            client, server, delivered, outcome = pipe(seed, cfg, ticket, store, (ordinal, pos, mask))
            if len(delivered) <= ordinal or delivered[ordinal][0] != direction \
                    or delivered[ordinal][1][0] != original[0] or len(delivered[ordinal][1]) != len(original):
                raise RuntimeError("replayed handshake diverged from the baseline before the alteration")
            name = "%s/%s" % (direction, M.TYPE_NAMES[original[0]])
            stats["alterations"] += 1
            stats["alterations " + name] += 1
            probes[outcome] += 1
            receiver = server if direction == "c2s" else client
            done = tls.State.SERVER_POST_HANDSHAKE if direction == "c2s" else tls.State.CLIENT_POST_HANDSHAKE
            digest.update(("%d %d %02x %s %s %s\n" % (ordinal, pos, mask, outcome, client.state.name,
                                                     server.state.name)).encode())
            if receiver.state == done:
                raise Violation(
                    "c03.transcript-integrity", name,
                    "%s altered in transit (byte %d of %d, mask 0x%02x: 0x%02x -> 0x%02x) and the receiving %s still "
                    "reached %s (pipe ended: %s; configuration %r)" % (
                        name, pos, len(original), mask, original[pos], original[pos] ^ mask,
                        "server" if direction == "c2s" else "client", done.name, outcome, cfg))
    except Violation as v:
        out.violation = violation_dict(v)
        reason = "violation"

    shown = dict(cfg)
    out.summary = {
        "reason": reason, "steps": stats["alterations"], "sim_time": 0.0,
        "fired": {"alter-handshake-byte": stats["alterations"]},
        "probes": dict(probes), "states": sorted(set(kinds)), "extra": dict(stats),
        "digest": digest.hexdigest()[:32], "inconclusive": False, "aborted": False,
    }
    out.choices = ch.dump()
    out.nontrivial = stats["alterations"] > 0
    out.signature = stable_hash(("c03-tls", sorted((k, repr(v)) for k, v in shown.items()),
                                 out.choices.get("positions")))
    out.sample = {"seed": seed, "variant": "tls_transcript_integrity", "config": shown, "messages": kinds,
                  "transcript_bytes": sum(len(m) for _, _, m in targets), "alterations": stats["alterations"],
                  "end": reason}
    return out
