"""C07 Receive-side limits are enforced and buffering stays bounded."""
from checks._common import ASSUMPTIONS_TRANSPORT, COMPONENTS_TRANSPORT, plan
from sim.forger import Forger
from sim.harness import run_transport
from sim.kernel import Violation
from sim.transport import EndpointBroken, Oracle
from wire import frames as wf

PROPERTY = "C07"
NAME = "c07"
LEVEL = "exploration"
RULE = ("one seed -> a real endpoint completes a handshake with a real peer (small or default limits, both roles as "
        "target); the peer is then silenced and a key-holding forger continues in its name with a seeded HISTORY of "
        "STREAM / RESET_STREAM / STREAM_DATA_BLOCKED / MAX_* / STOP_SENDING frames whose offsets, lengths, final sizes "
        "and stream ids sit at limit-1, limit, limit+1 and 2^62-1 on all four stream types, interleaved with the "
        "target's own limit updates (read from its MAX_* frames on the wire), plus floods of CRYPTO at large offsets, "
        "PATH_CHALLENGE, NEW_CONNECTION_ID with rising retire-prior-to and never-finished streams. A small reference "
        "model of receive-side accounting (limits = transport parameters + every MAX_* frame the target has SENT) "
        "predicts for each frame the set of acceptable outcomes: no close, or close with FLOW_CONTROL_ERROR / "
        "STREAM_LIMIT_ERROR / FINAL_SIZE_ERROR / STREAM_STATE_ERROR. The target must agree frame by frame; after every "
        "step the reassembly buffers, queued challenges, stored peer connection IDs and pending retirements are "
        "measured against the advertised / documented bounds. variant honest: two unmodified endpoints with tiny "
        "windows on a lossy network; neither may ever close with a flow-control, stream-limit, final-size or "
        "stream-state error. non-trivial = at least 3 forged frames were judged; "
        "distinct = hash of the frame-kind/outcome sequence")
ASSUMPTIONS = ASSUMPTIONS_TRANSPORT + [
    "when several errors apply to one frame any of them is accepted; frames for a stream that is complete in both "
    "directions may be ignored (the endpoint keeps no state for it)",
    "buffer sizes are read from the connection object (measured, not hooked)",
    "the forger acknowledges the target's packets so that the target is never congestion-limited while advertising",
]
COMPONENTS = COMPONENTS_TRANSPORT
PLAN = plan(60, 900, ["limits", "limits", "floods", "honest"])

FLOW, SLIMIT, FINAL, SSTATE, CBUF, CIDLIM, PROTO = 0x3, 0x4, 0x6, 0x5, 0xD, 0x9, 0xA
NAMES = {0x3: "FLOW_CONTROL_ERROR", 0x4: "STREAM_LIMIT_ERROR", 0x6: "FINAL_SIZE_ERROR", 0x5: "STREAM_STATE_ERROR",
         0xD: "CRYPTO_BUFFER_EXCEEDED", 0x9: "CONNECTION_ID_LIMIT_ERROR", 0xA: "PROTOCOL_VIOLATION", 0x7: "FRAME_ENCODING"}

PROFILES = {
    "limits": {"fault_free": True, "max_ops": 5, "small_limits": 0.8, "small_stream_limits": 0.5,
               "limit_values": (1, 2, 50, 500, 1199, 1200, 1201, 4000), "fair_budget": 60.0, "versions": False,
               "idle_timeouts": (600.0,)},
    "floods": {"fault_free": True, "max_ops": 3, "small_limits": 0.3, "fair_budget": 60.0, "versions": False,
               "idle_timeouts": (600.0,), "floods": True},
}


PROFILES["honest"] = {
    # "a peer that stays within the advertised limits is never accused": two real endpoints (which stay within
    # the limits: C06), tiny windows so that MAX_DATA / MAX_STREAM_DATA / MAX_STREAMS updates are frequent, and a
    # network that loses, duplicates and reorders them
    "faults": ("drop", "dup", "delay", "blackout", "timer-late"), "small_limits": 0.9,
    "limit_values": (1, 2, 3, 50, 500, 1199, 1200, 1201, 4000, 20000), "max_ops": 20,
    "op_weights": {"write": 10, "fin": 3, "reset": 2.0, "stop": 1.0, "ping": 0.5, "key_update": 0.3, "change_cid": 0.3},
    "split_stream_limits": 0.3, "small_stream_limits": 0.5, "max_streams_per_kind": 8,
}
ACCUSATIONS = (FLOW, SLIMIT, FINAL, SSTATE)


class HonestOracle(Oracle):
    def on_start(self, sim):
        self.sim = sim
        self.n = 0

    def on_event(self, ep, ev):
        if type(ev).__name__ == "ConnectionTerminated" and ev.error_code in ACCUSATIONS and ev.frame_type is not None:
            raise Violation("c07.accused", "%s frame=0x%x" % (NAMES[ev.error_code], ev.frame_type),
                            "%s: connection closed with %s (frame type 0x%x, %r) at t=%.3f although both endpoints are "
                            "unmodified and the network only lost, duplicated and reordered datagrams" % (
                                ep.name, NAMES[ev.error_code], ev.frame_type, ev.reason_phrase, self.sim.k.now))


class StreamModel:
    __slots__ = ("highest", "final", "received", "reset", "limit", "done")

    def __init__(self, limit):
        self.highest = 0
        self.final = None
        self.received = set()  # not needed byte-exact: track contiguous prefix lazily
        self.reset = False
        self.limit = limit
        self.done = False


class C07Oracle(Oracle):
    def __init__(self, mon):
        self.mon = mon
        self.started = False
        self.n_judged = 0
        self.outcomes = []
        self.kinds = {}
        self.total = 0
        self.step_n = 0
        self.last_at = 0.0
        self.closed_expected = False

    def on_start(self, sim):
        self.sim = sim
        self.ch = sim.ch.stream("c07")
        self.forger = Forger(sim, self.mon)
        sim.k.at(sim.cfg["t_fair"] + 3.0, self.begin, tag="app")

    def goal_reached(self):
        return self.started and (self.step_n >= self.total or self.target.terminated or self.target_closing) \
            and self.sim.k.now > self.last_at + 1.0

    @property
    def target_closing(self):
        return self.started and self.target.conn._state.name in ("CLOSING", "DRAINING", "TERMINATED")

    # ------------------------------------------------------------------ setup
    def begin(self):
        sim = self.sim
        self.started = True
        self.last_at = sim.k.now
        c, s = sim.client, sim.server
        if not (c.handshake_complete and s.handshake_complete) or c.terminated or s.terminated or s.conn is None:
            self.total = 0
            self.target = s if s.conn is not None else c
            return
        self.target = sim.endpoints[self.ch.choose(2)]
        self.peer = self.target.peer
        # silence the real peer; the forger continues in its name
        self.peer.crashed = True
        if self.peer.timer_ev is not None:
            self.peer.timer_ev.cancelled = True
        # let everything the real peer still has in flight arrive before the state is snapshotted
        self.total = 1
        self.last_at = sim.k.now + 1.0
        sim.k.after(1.0, self.begin2, tag="app")

    def begin2(self):
        sim = self.sim
        if self.target.terminated or self.target.conn._state.name != "CONNECTED":
            self.total = 0
            return
        side = "client" if self.target.is_client else "server"
        cfg = sim.cfg
        self.max_data = cfg[side + "_max_data"]
        self.stream_initial = cfg[side + "_max_stream_data"]
        self.max_streams = {False: cfg[side + "_max_streams"][0], True: cfg[side + "_max_streams"][1]}
        self.streams = {}
        self.stream_limits = {}
        self.sum_highest = 0
        # what was exchanged before the takeover counts too: replay the monitor's view is not kept,
        # so take the receive state of existing streams from the target (its own bookkeeping of the past)
        conn = self.target.conn
        for sid, st in conn._streams.items():
            m = StreamModel(st.max_stream_data_local)
            m.highest = st.receiver.highest_offset
            m.final = st.receiver._final_size
            m.reset = False
            self.streams[sid] = m
        for sid in conn._streams_finished:
            m = StreamModel(self.stream_initial)
            m.done = True
            self.streams[sid] = m
        self.max_data = conn._local_max_data.value
        self.sum_highest = conn._local_max_data.used
        self.max_streams = {False: conn._local_max_streams_bidi.value, True: conn._local_max_streams_uni.value}
        self.total = 8 + self.ch.choose(40)
        self.step()

    # -------------------------------------------- the target's own advertisements
    def on_datagram_sent(self, ep, dgram):
        if not self.started or self.total == 0 or ep is not self.target or not hasattr(self, "streams"):
            return
        for p in dgram.meta or []:
            if p.opaque:
                # the model can no longer see what the target advertises: stop judging (inconclusive)
                self.total = self.step_n
                self.blind = True
                continue
            for f in p.frames:
                if f.type == wf.MAX_DATA:
                    self.max_data = max(self.max_data, f["limit"])
                elif f.type == wf.MAX_STREAM_DATA:
                    sid = f["stream_id"]
                    self.stream_limits[sid] = max(self.stream_limits.get(sid, 0), f["limit"])
                    if sid in self.streams:
                        self.streams[sid].limit = max(self.streams[sid].limit, f["limit"])
                elif f.type == wf.MAX_STREAMS_BIDI:
                    self.max_streams[False] = max(self.max_streams[False], f["limit"])
                elif f.type == wf.MAX_STREAMS_UNI:
                    self.max_streams[True] = max(self.max_streams[True], f["limit"])

    # ------------------------------------------------------------------ model
    def classify(self, sid):
        t_is_client = self.target.is_client
        peer_initiated = ((sid & 1) == 0) != t_is_client  # initiated by the forged peer
        uni = bool(sid & 2)
        return peer_initiated, uni

    def get_stream(self, sid):
        """returns (stream model or None, set of errors that opening/using it may raise)"""
        peer_initiated, uni = self.classify(sid)
        m = self.streams.get(sid)
        if sid in self.target.conn._streams_finished:
            # the endpoint completed this stream in both directions and dropped its state: whatever
            # still arrives for it may be ignored
            if m is None:
                m = self.streams[sid] = StreamModel(self.stream_initial)
            m.done = True
        if m is not None:
            return m, set()
        if not peer_initiated:
            # a stream only the target may open and has not opened: wrong initiator
            return None, {SSTATE}
        if sid // 4 + 1 > self.max_streams[uni]:
            return None, {SLIMIT}
        m = StreamModel(self.stream_initial)
        self.streams[sid] = m
        return m, set()

    def expect_stream_frame(self, sid, offset, length, fin):
        """acceptable outcomes for STREAM; returns (set of error codes, may_stay_open: bool)"""
        peer_initiated, uni = self.classify(sid)
        if uni and not peer_initiated:
            return {SSTATE}, False
        m, errs = self.get_stream(sid)
        if m is None:
            return errs, False
        if m.done:
            return {FLOW, FINAL}, True  # no state left: may ignore
        end = offset + length
        errs = set()
        if end > m.limit:
            errs.add(FLOW)
        newly = max(0, end - m.highest)
        if self.sum_highest + newly > self.max_data:
            errs.add(FLOW)
        if m.final is not None and (end > m.final or (fin and end != m.final)):
            errs.add(FINAL)
        # a FIN below data already received: the endpoint may, but need not, object (the property
        # only names disagreement with an already FIXED final size)
        optional = {FINAL} if (fin and end < m.highest) else set()
        if errs:
            return errs | optional, False
        # accepted: update
        self.sum_highest += newly
        m.highest = max(m.highest, end)
        if fin:
            m.final = end
        return optional, True

    def expect_reset(self, sid, final_size):
        peer_initiated, uni = self.classify(sid)
        if uni and not peer_initiated:
            return {SSTATE}, False
        m, errs = self.get_stream(sid)
        if m is None:
            return errs, False
        if m.done:
            return {FLOW, FINAL}, True
        errs = set()
        if final_size > m.limit:
            errs.add(FLOW)
        newly = max(0, final_size - m.highest)
        if self.sum_highest + newly > self.max_data:
            errs.add(FLOW)
        if m.final is not None and final_size != m.final:
            errs.add(FINAL)
        optional = {FINAL} if final_size < m.highest else set()
        if errs:
            return errs | optional, False
        self.sum_highest += newly
        m.highest = max(m.highest, final_size)
        m.final = final_size
        m.reset = True
        return optional, True

    # ---------------------------------------------------------------- forging
    def near(self, limit):
        vals = (0, 1, max(limit - 1, 0), limit, limit + 1, limit + 2, limit * 2, (1 << 62) - 1, limit // 2)
        return vals[self.ch.choose(len(vals))]

    def pick_sid(self):
        t_is_client = self.target.is_client
        base_bidi = 1 if t_is_client else 0  # forged peer's own bidi streams
        base_uni = 3 if t_is_client else 2
        own_bidi = 0 if t_is_client else 1  # target-initiated
        own_uni = 2 if t_is_client else 3
        k = self.ch.choose(10)
        lim_b, lim_u = self.max_streams[False], self.max_streams[True]
        if k < 4:
            idx = (0, 1, max(lim_b - 1, 0), lim_b, lim_b + 1)[self.ch.choose(5)]
            return base_bidi + 4 * idx
        if k < 7:
            idx = (0, 1, max(lim_u - 1, 0), lim_u, lim_u + 1)[self.ch.choose(5)]
            return base_uni + 4 * idx
        if k == 7:
            existing = sorted(s for s in self.streams if ((s & 1) == 0) == t_is_client and not (s & 2))
            if existing:
                return existing[self.ch.choose(len(existing))]
            return own_bidi + 4 * self.ch.choose(3)
        if k == 8:
            return own_uni + 4 * self.ch.choose(2)
        known = sorted(self.streams)
        return known[self.ch.choose(len(known))] if known else base_bidi

    def acks(self):
        """ACK everything the target has sent so far (keeps its congestion window open)."""
        largest = self.mon.state[self.target.name].largest["app"]
        if largest < 0:
            return b""
        return wf.encode_ack([(0, largest)], 0)

    def step(self):
        sim = self.sim
        t = self.target
        if t.terminated or t.broken or self.step_n >= self.total:
            return
        if self.target_closing:
            return
        self.step_n += 1
        kind = self.ch.weighted([6, 2, 1, 1, 1, 1])
        flood = None
        if sim.profile.get("floods") and self.ch.choose(3) == 0:
            flood = self.flood()
            kind = 99  # no regular frame this step (the model must only see frames that are sent)
        sid = self.pick_sid()
        m = self.streams.get(sid)
        slim = m.limit if m is not None else self.stream_initial
        room = max(self.max_data - self.sum_highest, 0)
        expect, stay = set(), True
        name = "?"
        if kind == 0:
            name = "STREAM"
            base = (m.highest if m is not None else 0)
            mode = self.ch.choose(6)
            if mode == 0:
                offset, length = base, (0, 1, 10, 100)[self.ch.choose(4)]
            elif mode == 1:
                end = self.near(slim)
                length = min((0, 1, 7, 300)[self.ch.choose(4)], end)
                offset = end - length
            elif mode == 2:
                end = base + self.near(room)
                length = min((1, 7, 300)[self.ch.choose(3)], end)
                offset = end - length
            elif mode == 3:
                offset, length = self.ch.choose(max(base, 1)), (0, 1, 5)[self.ch.choose(3)]
            elif mode == 4:
                offset, length = (1 << 62) - 1 - 1, 1
            else:
                offset, length = base + self.ch.choose(50), 1 + self.ch.choose(20)
            offset = min(max(offset, 0), (1 << 62) - 1)
            if offset + length > (1 << 62) - 1:
                length = 0
            fin = self.ch.choose(4) == 0
            payload = wf.encode_stream(sid, offset, bytes(length), fin)
            expect, stay = self.expect_stream_frame(sid, offset, length, fin)
            desc = "STREAM(sid=%d, off=%d, len=%d, fin=%s)" % (sid, offset, length, fin)
        elif kind == 1:
            name = "RESET_STREAM"
            base = (m.highest if m is not None else 0)
            fs = (base, self.near(slim), base + self.near(room), max(base - 1, 0), 0)[self.ch.choose(5)]
            fs = min(fs, (1 << 62) - 1)
            payload = wf.encode_reset_stream(sid, 9, fs)
            expect, stay = self.expect_reset(sid, fs)
            desc = "RESET_STREAM(sid=%d, final=%d)" % (sid, fs)
        elif kind == 2:
            name = "STREAM_DATA_BLOCKED"
            payload = wf.encode_stream_data_blocked(sid, self.near(slim))
            peer_initiated, uni = self.classify(sid)
            if uni and not peer_initiated:
                expect, stay = {SSTATE}, False
            else:
                mm, errs = self.get_stream(sid)
                expect, stay = (errs, False) if mm is None else (set(), True)
            desc = "STREAM_DATA_BLOCKED(sid=%d)" % sid
        elif kind == 3:
            name = "MAX_STREAM_DATA"
            payload = wf.encode_max_stream_data(sid, self.near(slim))
            peer_initiated, uni = self.classify(sid)
            if uni and peer_initiated:
                expect, stay = {SSTATE}, False  # receive-only for the target
            else:
                mm, errs = self.get_stream(sid)
                expect, stay = (errs, False) if mm is None else (set(), True)
            desc = "MAX_STREAM_DATA(sid=%d)" % sid
        elif kind == 4:
            name = "MAX_DATA/STREAMS"
            payload = wf.encode_max_data(self.near(1000)) + wf.encode_max_streams(self.near(100) % (1 << 60),
                                                                                 bool(self.ch.choose(2)))
            desc = "MAX_DATA+MAX_STREAMS"
        elif kind == 5:
            name = "STOP_SENDING"
            payload = wf.encode_stop_sending(sid, 3)
            peer_initiated, uni = self.classify(sid)
            if uni and peer_initiated:
                expect, stay = {SSTATE}, False
            else:
                mm, errs = self.get_stream(sid)
                expect, stay = (errs, False) if mm is None else (set(), True)
            desc = "STOP_SENDING(sid=%d)" % sid
        if flood is not None:
            payload, desc, expect, stay = flood
            name = "flood"
        self.kinds[name] = self.kinds.get(name, 0) + 1
        src = self.peer.addr
        if flood is not None and getattr(self, "flood_src", None):
            src, self.flood_src = self.flood_src, None
            pkt = self.forger.build(self.peer, "1rtt", payload)  # probing frames only
        else:
            pkt = self.forger.build(self.peer, "1rtt", self.acks() + payload)
        if pkt is None:
            self.total = self.step_n
            return
        before_state = t.conn._state.name
        d = self.forger.inject(t, pkt, src=src, tag="forged-c07")
        self.cur = (desc, expect, stay)
        self.closed_now = None
        try:
            t.on_datagram(d, 0)
        except EndpointBroken:
            return
        self.judge(desc, expect, stay)
        self.measure()
        self.last_at = sim.k.now
        sim.k.after(0.03, self.step, tag="app")

    def flood(self):
        k = self.ch.choose(5)
        if k == 4:
            self.inorder_crypto_burst()
            return wf.encode_ping(), "CRYPTO(in-order burst)", None, True
        if k == 0:
            off = (0, 1000, 524288 - 10, 524288, 524289, 1 << 40)[self.ch.choose(6)]
            start = self.target.conn._crypto_streams[list(self.target.conn._crypto_streams)[-1]].receiver.starting_offset()
            # within the bound the bytes may reach TLS (garbage -> a TLS alert): outcome not modelled
            expect = {CBUF} if off + 10 - start > 524288 else None
            return wf.encode_crypto(off, bytes(10)), "CRYPTO(off=%d)" % off, expect, not expect
        if k == 1:
            n = 1 + self.ch.choose(60)
            # half of the floods are probing-only packets from a SECOND source address (no migration:
            # the frames are probing frames), whose path queue must be bounded just the same
            self.flood_src = ("10.0.0.77", 7000 + self.ch.choose(2)) if self.ch.choose(2) else None
            return b"".join(wf.encode_path_challenge(bytes([i, n]) + bytes(6)) for i in range(n)), \
                "PATH_CHALLENGE(x%d%s)" % (n, "@other-address" if self.flood_src else ""), set(), True
        if k == 2:
            seq = self.flood_seq = getattr(self, "flood_seq", 10) + 1
            rpt = seq if self.ch.choose(2) else max(seq - self.ch.choose(4), 0)
            # same CID length as the silenced peer uses, so the wire monitor keeps parsing short headers
            clen = self.peer.config.connection_id_length
            return wf.encode_new_connection_id(seq, rpt, bytes([seq & 0xFF]) * clen, bytes(16)), \
                "NEW_CONNECTION_ID(seq=%d, rpt=%d)" % (seq, rpt), None, True  # outcome not modelled here (C18)
        sid = self.pick_sid()
        return wf.encode_stream(sid, 0, b"", False), "STREAM(empty, sid=%d)" % sid, None, True

    def inorder_crypto_burst(self):
        """Handshake data that arrives perfectly in order but never completes a message: a message header that
        announces 16 MiB, then contiguous CRYPTO frames. Nothing is out of order, so the reassembly buffer stays
        empty; what the connection holds for the peer (reassembly + the TLS input buffer) must stay bounded all
        the same."""
        t = self.target
        conn = t.conn
        try:
            stream = conn._crypto_streams[list(conn._crypto_streams)[-1]]
            off = stream.receiver.starting_offset()
        except Exception:
            return
        chunk = 1100
        first = True
        self.kinds["crypto-inorder-burst"] = self.kinds.get("crypto-inorder-burst", 0) + 1
        for _ in range(520):
            data = (b"\x04\xff\xff\xff" + bytes(chunk - 4)) if first else bytes(chunk)
            first = False
            try:
                pkt = self.forger.build(self.peer, "1rtt", self.acks() + wf.encode_crypto(off, data))
            except Exception:
                return
            off += len(data)
            d = self.forger.inject(t, pkt, src=self.peer.addr, tag="forged-c07")
            try:
                t.on_datagram(d, 0)
            except EndpointBroken:
                return
            self.measure()
            if conn._state.name != "CONNECTED" or conn._close_pending:
                return

    # ------------------------------------------------------------------ judge
    def on_event(self, ep, ev):
        if self.started and self.total and ep is self.target and type(ev).__name__ == "ConnectionTerminated":
            self.closed_now = ev

    blind = False

    def judge(self, desc, expect, stay):
        conn = self.target.conn
        if expect is None or self.blind:
            return
        self.n_judged += 1
        closing = conn._state.name in ("CLOSING", "DRAINING", "TERMINATED") or conn._close_pending
        code = conn._close_event.error_code if conn._close_event is not None else None
        self.outcomes.append((desc.split("(")[0], code))
        if closing:
            if not expect:
                raise Violation("c07.accused", "closed-0x%x-on-%s" % (code or 0, desc.split("(")[0]),
                                "the peer stayed within every advertised limit, yet after %s the %s closed with %s "
                                "(%r). Model: max_data=%d used=%d, stream limit=%s, max_streams=%s" % (
                                    desc, self.target.name, NAMES.get(code, hex(code or 0)),
                                    getattr(conn._close_event, "reason_phrase", ""), self.max_data, self.sum_highest,
                                    {k: v.limit for k, v in list(self.streams.items())[:6]}, self.max_streams))
            if code not in expect:
                raise Violation("c07.wrong-error", "got-0x%x-want-%s" % (code or 0, "/".join(
                    NAMES[e] for e in sorted(expect))),
                    "after %s the %s closed with %s, expected %s" % (desc, self.target.name,
                                                                     NAMES.get(code, hex(code or 0)),
                                                                     [NAMES[e] for e in sorted(expect)]))
        else:
            if expect and not stay:
                raise Violation("c07.not-enforced", "%s-accepted-want-%s" % (desc.split("(")[0], "/".join(
                    NAMES[e] for e in sorted(expect))),
                    "%s exceeds what the %s advertised (model: max_data=%d used=%d, stream limits %s, max_streams %s) "
                    "but the connection did not close; expected %s" % (
                        desc, self.target.name, self.max_data, self.sum_highest,
                        {k: v.limit for k, v in list(self.streams.items())[:6]}, self.max_streams,
                        [NAMES[e] for e in sorted(expect)]))

    def measure(self):
        conn = self.target.conn
        for sid, st in conn._streams.items():
            held = len(st.receiver._buffer)
            bound = max(st.max_stream_data_local - st.receiver._buffer_start, 0)
            if held > bound:
                raise Violation("c07.buffer", "stream-buffer-beyond-window",
                                "stream %d holds %d bytes for reassembly, advertised window beyond the delivered "
                                "prefix is %d" % (sid, held, bound))
        for epoch, st in conn._crypto_streams.items():
            if len(st.receiver._buffer) > 524288:
                raise Violation("c07.buffer", "crypto-buffer-beyond-max-pending",
                                "CRYPTO reassembly for %s holds %d bytes" % (epoch, len(st.receiver._buffer)))
        held = sum(len(st.receiver._buffer) for st in conn._crypto_streams.values()) + len(
            getattr(conn.tls, "_receive_buffer", b""))
        if held > 524288 + 4096:
            raise Violation("c07.buffer", "handshake-data-beyond-max-pending",
                            "the connection holds %d bytes of handshake data for the peer (CRYPTO reassembly plus the TLS "
                            "input buffer of an incomplete message), the documented bound is %d" % (held, 524288))
        for path in conn._network_paths:
            if len(path.remote_challenges) > 32:
                raise Violation("c07.buffer", "remote-challenges-beyond-32",
                                "%d PATH_CHALLENGE payloads queued for one path" % len(path.remote_challenges))
        if len(conn._peer_cid_available) + 1 > conn._local_active_connection_id_limit + 1:
            raise Violation("c07.buffer", "peer-cids-beyond-active-limit",
                            "%d peer connection IDs stored, advertised limit %d" % (
                                len(conn._peer_cid_available) + 1, conn._local_active_connection_id_limit))
        if len(conn._retire_connection_ids) > 100 + 8:
            raise Violation("c07.buffer", "pending-retirements-beyond-bound",
                            "%d RETIRE_CONNECTION_ID pending" % len(conn._retire_connection_ids))


def api_violation(sim):
    who, name, etype, where, msg = sim.api_exception
    return Violation("c07.api-raised", "%s@%s" % (etype, where), "%s.%s() raised %s at %s: %s" % (
        who, name, etype, where, msg))


def run_one(seed, tier="quick", variant=None, replay=None):
    variant = variant or "limits"
    if variant == "honest":
        from sim.goals import DeliveryGoal

        out = run_transport(seed, PROFILES[variant], lambda mon: [HonestOracle(), DeliveryGoal()], replay=replay,
                            monitor=False, variant=variant, foreign_api_exception=api_violation)
        return out
    holder = {}

    def make(mon):
        holder["o"] = C07Oracle(mon)
        return [holder["o"]]

    def extra(sim, s):
        o = holder["o"]
        s["extra"]["forged_frames_judged"] = o.n_judged
        for k, v in o.kinds.items():
            s["probes"]["forged:" + k] = v
        for kind, code in o.outcomes:
            s["probes"]["outcome:%s:%s" % (kind, NAMES.get(code, "open") if code is not None else "open")] = \
                s["probes"].get("outcome:%s:%s" % (kind, NAMES.get(code, "open") if code is not None else "open"), 0) + 1

    out = run_transport(seed, PROFILES[variant], make, replay=replay, monitor=True, variant=variant,
                        extra_summary=extra, foreign_api_exception=api_violation)
    o = holder["o"]
    out.nontrivial = o.n_judged >= 3
    from sim.runner import stable_hash

    out.signature = stable_hash(o.outcomes) + ":" + stable_hash([out.summary.get("sig")])
    return out
