"""C19 asyncio adapter stays consistent under any event-loop schedule.

Real `serve()`, `connect()`, `QuicServer`, `QuicConnectionProtocol`, stream readers/writers and
`QuicRetryTokenHandler` run on `sim.simloop.SimLoop` (virtual time, in-memory UDP).  The harness
is the application (clients, echo stream handler, a server-side actor) and the observer.
"""
import asyncio
import functools
import hashlib
import os
import traceback
from collections import Counter

from sim import bootstrap, fixtures
from sim.chooser import Chooser
from sim.kernel import HarnessError, Violation
from sim.runner import Outcome, stable_hash

PROPERTY = "C19"
NAME = "c19"
LEVEL = "exploration"
RULE = (
    "each run = one seed -> configuration (1-4 clients, Retry on/off, latency, fault rates, idle timeouts, loop "
    "parameters) + application script per client (streams written with write/writelines/write_eof and read with "
    "read/read(n)/readexactly, ping, concurrent pings, wait_connected, change_connection_id, close, error close, "
    "task cancellation) + server actor (ping, close one connection, QuicServer.close) + per-datagram fates "
    "(drop/dup/delay/blackout/spoofed copy), per-timer lateness and per-callback duration during a bounded "
    "adversarial phase, then a fair phase; non-trivial = at least one fault fired and at least one stream was "
    "echoed completely; distinct = distinct hash of (variant, scripts, sequence of fates/late timers/slow callbacks)"
)
ASSUMPTIONS = [
    "sampling, not proof: a clean batch is evidence only for the schedules drawn",
    "the simulated loop produces only schedules of a single-threaded asyncio loop: FIFO ready queue, I/O callbacks "
    "before the timers of the same iteration, timers never early (always >= 1 us late), callbacks never concurrent",
    "SimDatagramTransport follows asyncio.selector_events._SelectorDatagramTransport for an unconnected UDP socket",
    "the harness application uses the documented API only (one wait_connected() at a time, no write after "
    "write_eof, no stream opened on a connection it has seen terminate); observation uses the overridable "
    "quic_event_received() and create_protocol hooks",
    "Retry token bytes are random (RSA-OAEP inside OpenSSL): lengths are deterministic, digests exclude bytes",
    "cryptography/OpenSSL and CPython's asyncio futures/tasks are trusted",
]
COMPONENTS = {
    "real": ["aioquic.asyncio.serve/QuicServer", "aioquic.asyncio.connect", "QuicConnectionProtocol",
             "QuicStreamAdapter + asyncio.StreamReader/StreamWriter", "QuicRetryTokenHandler", "QuicConnection and below",
             "asyncio.BaseEventLoop call_soon/create_task/run_until_complete, C Task/Future"],
    "stub": ["event-loop clock, timer heap and _run_once (SimLoop)", "datagram transport and UDP network",
             "socket namespace of aioquic.asyncio.client", "getaddrinfo", "application (clients, echo handler, server actor)",
             "wire.header (independent parser, used to read Retry tokens)"],
}
PLAN = {
    "quick": {"budget_s": 60, "max_runs": 1000000, "variants": ["single", "multi", "retry", "close_races"]},
    "thorough": {"budget_s": 900, "max_runs": 100000000, "variants": ["single", "multi", "retry", "close_races"]},
}

SERVER_IP = "10.0.0.2"
NAME_MODE_P = 0.0  # set by checks.c03 (variant asyncio_name)
AMPLIFICATION_MODE = [False]  # set by checks.c13 (variant asyncio_server)
SERVER_PORT = 4433
SERVER_ADDR = (SERVER_IP, SERVER_PORT)

VARIANTS = {
    # clients (min,max), P(retry), races = API used at arbitrary points of the connection's life
    "single": {"clients": (1, 1), "retry": 0.0, "races": False, "server_ops": ("ping",), "short_idle": False},
    "multi": {"clients": (2, 4), "retry": 0.0, "races": False,
              "server_ops": ("ping", "close_proto", "server_close"), "short_idle": False},
    "retry": {"clients": (1, 3), "retry": 1.0, "races": False, "server_ops": ("ping",), "short_idle": False},
    "close_races": {"clients": (1, 3), "retry": 0.34, "races": True,
                    "server_ops": ("ping", "close_proto", "error_close_proto", "server_close"), "short_idle": True},
}

SIZES = (100, 0, 1, 8, 9, 1200, 1300, 5000, 20000, 70000)

_BLOB_LEN = 1 << 17
_BLOB = None


def _blob():
    global _BLOB
    if _BLOB is None:
        out = bytearray()
        h = b"verif-c19"
        while len(out) < _BLOB_LEN * 2:
            h = hashlib.sha256(h).digest()
            out += h
        _BLOB = bytes(out)
    return _BLOB


def make_request(client, k, n):
    """content of stream number k of client `client`: self-describing when n >= 8"""
    if n < 8:
        return bytes((client * 31 + k * 7 + j) & 0xFF for j in range(n))
    head = b"C" + bytes([client & 0xFF]) + (k & 0xFFFF).to_bytes(2, "big") + n.to_bytes(4, "big")
    base = (client * 7919 + k * 104729) % _BLOB_LEN
    return head + _blob()[base:base + n - 8]


def innermost_aioquic_frame(exc):
    where = None
    for fs in traceback.extract_tb(exc.__traceback__):
        fn = fs.filename
        if "/aioquic/" in fn:
            where = "%s:%s" % (fn.split("/aioquic/")[-1], fs.name)
    return where


# --------------------------------------------------------------------------- config
def draw_config(ch, variant):
    c = ch.stream("config")
    v = VARIANTS[variant]
    cfg = {"variant": variant}
    faulty = c.weighted([1, 3]) == 1
    cfg["faulty"] = faulty
    lo, hi = v["clients"]
    cfg["n_clients"] = lo + c.choose(hi - lo + 1)
    cfg["retry"] = v["retry"] >= 1.0 or (v["retry"] > 0 and c.chance(v["retry"]))
    cfg["latency"] = (0.02, 0.001, 0.005, 0.05, 0.1)[c.choose(5)]
    cfg["jitter"] = cfg["latency"] * c.choose(5) / 4.0
    on = set()
    for f in ("delay", "drop", "dup", "slow-callback", "spoof", "timer-late"):
        if faulty and c.chance(0.66):
            on.add(f)
    cfg["faults_on"] = sorted(on)
    intensity = (0.03, 0.08, 0.2, 0.35)[c.weighted([4, 3, 2, 1])]
    w_drop = intensity if "drop" in on else 0.0
    w_dup = intensity * 0.6 if "dup" in on else 0.0
    w_delay = intensity if "delay" in on else 0.0
    cfg["fate_weights"] = [max(1.0 - w_drop - w_dup - w_delay, 0.05), w_drop, w_dup, w_delay]
    t_adv = 0.3 + 6.0 * (1 + c.choose(8)) / 8.0 if faulty else 0.0
    # idle timeouts: short ones (with a blackout longer than them) only where closing races are wanted
    idle_choices = (60.0, 60.0, 4.0, 2.0) if v["short_idle"] else (60.0,)
    cfg["server_idle"] = idle_choices[c.choose(len(idle_choices))]
    cfg["client_idle"] = [idle_choices[c.choose(len(idle_choices))] for _ in range(cfg["n_clients"])]
    short = min([cfg["server_idle"]] + cfg["client_idle"])
    cfg["blackouts"] = []
    if faulty and c.chance(0.4):
        start = t_adv * c.choose(8) / 8.0
        if short < 60.0 and c.chance(0.7):
            dur = short * (1.25 + c.choose(3) / 2.0)
            t_adv = max(t_adv, start + dur)
        else:
            dur = min(0.05 + 2.0 * c.choose(8) / 8.0, max(t_adv - start, 0.05))
        cfg["blackouts"].append((start, start + dur))
    cfg["t_adv"] = cfg["t_fair"] = t_adv
    cfg["p_timer_late"] = (0.05, 0.2, 0.5)[c.choose(3)] if "timer-late" in on else 0.0
    cfg["timer_late_max"] = (0.01, 0.1, 1.0)[c.choose(3)]
    cfg["cb_cost"] = (1e-6, 0.0, 2e-5, 5e-4)[c.choose(4)]
    cfg["p_slow"] = (0.01, 0.05)[c.choose(2)] if "slow-callback" in on else 0.0
    cfg["slow_max"] = (0.005, 0.05, 0.5)[c.choose(3)]
    cfg["read_batch"] = (1, 4, 64)[c.choose(3)]
    spoof = "spoof" in on
    cfg["p_spoof_token"] = 0.6 if spoof else 0.0  # Initial carrying a Retry token
    cfg["p_spoof_initial"] = 0.15 if spoof else 0.0
    cfg["p_spoof_other"] = 0.01 if spoof else 0.0
    cfg["server_cid_len"] = (8, 8, 4, 16, 20)[c.choose(5)]
    cfg["server_max_data"] = (1048576, 1048576, 4000, 20000)[c.choose(4)]
    cfg["server_max_stream_data"] = (1048576, 1048576, 2000, 20000)[c.choose(4)]
    cfg["cc"] = ("reno", "cubic")[c.choose(2)]
    cfg["echo_chunk"] = (0, 0, 50, 1000, 4096)[c.choose(5)]  # 0 = read() until EOF, then echo
    cfg["server_ip"] = SERVER_IP
    cfg["max_callbacks"] = 120000
    return cfg


def draw_script(ch, cfg):
    s = ch.stream("script")
    v = VARIANTS[cfg["variant"]]
    races = v["races"]
    horizon = max(cfg["t_adv"], 0.5)
    plans = []
    if races:
        kinds = ["stream", "ping", "sleep", "pings", "streams", "change_cid", "wait_connected", "close",
                 "error_close", "wait_closed", "change_cids"]
        weights = [6, 3, 2, 1.5, 1.5, 1, 1.5, 2, 1, 0.7, 1]
    else:
        kinds = ["stream", "ping", "sleep", "pings", "streams", "change_cid", "wait_connected", "change_cids"]
        weights = [6, 2, 1.5, 1, 1.5, 1, 0.7, 1]
    for i in range(cfg["n_clients"]):
        p = {"index": i}
        p["start"] = horizon * s.choose(8) / 16.0
        p["wait_connected"] = not (s.chance(0.5) if races else s.chance(0.15))
        # how the client names the server: "explicit" sets configuration.server_name, "default-host" leaves it to
        # connect(), which must then authenticate the HOST it was given (an IP literal the certificate does not
        # cover): only drawn when a caller asks for it (checks.c03, variant asyncio_name)
        p["name_mode"] = "default-host" if NAME_MODE_P and s.chance(NAME_MODE_P) else "explicit"
        p["max_data"] = (1048576, 1048576, 3000, 30000)[s.choose(4)]
        ops = []
        for _ in range(1 + s.choose(6)):
            kind = kinds[s.weighted(weights)]
            op = {"kind": kind, "pre": (0.0, 0.0, 0.01, 0.1, 0.5, 1.5)[s.choose(6)]}
            if kind in ("stream", "streams"):
                n_streams = 1 if kind == "stream" else 2 + s.choose(2)
                specs = []
                for _ in range(n_streams):
                    size = SIZES[s.choose(len(SIZES))]
                    if size > 9:
                        size += s.choose(5) - 2
                    specs.append({
                        "size": size,
                        "chunks": 1 + s.choose(4),
                        "writelines": s.choose(3) == 1,
                        "gap": s.choose(4),  # 0 none, 1 sleep(0), 2 drain(), 3 sleep(10 ms)
                        "read": s.choose(3),  # 0 read(), 1 read(n) loop, 2 readexactly + read(1)
                        "read_n": (16, 500, 4096, 65536)[s.choose(4)],
                    })
                op["streams"] = specs
            elif kind == "pings":
                op["n"] = 2 + s.choose(7)
            elif kind == "change_cids":  # the client rotates through several connection IDs in quick succession
                op["n"] = 2 + s.choose(4)
                op["gap"] = (0.0, 0.0005, 0.003)[s.choose(3)]
            elif kind == "sleep":
                op["dt"] = horizon * (1 + s.choose(8)) / 16.0
            elif kind == "error_close":
                op["code"] = (0x0A, 0x01, 0x100)[s.choose(3)]
            ops.append(op)
        p["ops"] = ops
        # how the client leaves: 0 leave the context manager (close + wait_closed inside connect()),
        # 1 explicit close()+wait_closed() first
        p["leave"] = s.choose(2)
        # does the application go on using the API after its own close()?
        p["after_close"] = bool(races and s.chance(0.3))
        p["cancel_at"] = None
        if races and s.chance(0.15):
            p["cancel_at"] = p["start"] + horizon * s.choose(16) / 8.0
        plans.append(p)
    actor = []
    sops = v["server_ops"]
    for _ in range(s.geometric(4, 0.9)):
        kind = sops[s.choose(len(sops))]
        actor.append({"t": horizon * 1.5 * s.choose(32) / 32.0, "kind": kind, "target": s.choose(8)})
    actor.sort(key=lambda a: a["t"])
    # what happens to the server once every client is finished: 0 close it after the connections
    # have ended, 1 close it at once (connections still draining)
    final_close_early = s.choose(2)
    return plans, actor, final_close_early


# ------------------------------------------------------------------ observed protocol
_CLASSES = {}


def observed_protocol_class():
    cls = _CLASSES.get("proto")
    if cls is not None:
        return cls
    from aioquic.asyncio.protocol import QuicConnectionProtocol
    from aioquic.quic import events

    class ObservedProtocol(QuicConnectionProtocol):
        """QuicConnectionProtocol observed through its documented extension point
        `quic_event_received`; behaviour is unchanged.  __hash__ is a creation counter so that
        `set(self._protocols.values())` in QuicServer.close() iterates in a reproducible order."""

        def __init__(self, quic, stream_handler=None, *, harness, role, owner):
            super().__init__(quic, stream_handler=stream_handler)
            self.v_h = harness
            self.v_role = role
            self.v_owner = owner
            self.v_all_cids = set()
            self.v_n = harness.next_proto_n()
            self.v_cids = {quic.host_cid: True}
            self.v_terminated = False
            self.v_term = None
            self.v_handshake = False
            self.v_retired = 0
            harness.on_protocol_created(self)

        def __hash__(self):
            return self.v_n

        def quic_event_received(self, event):
            h = self.v_h
            name = type(event).__name__
            if isinstance(event, events.ConnectionIdIssued):
                self.v_cids[event.connection_id] = True
                self.v_all_cids.add(event.connection_id)
                if self.v_retired:
                    h.probes["cid_replenished_after_retire"] += 1
            elif isinstance(event, events.ConnectionIdRetired):
                self.v_cids.pop(event.connection_id, None)
                self.v_retired += 1
                h.probes["cid_retired"] += 1
            elif isinstance(event, events.ConnectionTerminated):
                self.v_terminated = True
                self.v_term = (event.error_code, event.reason_phrase)
                h.on_terminated(self, event)
            elif isinstance(event, events.HandshakeCompleted):
                self.v_handshake = True
                if self.v_role == "client" and h.plans[self.v_owner].get("name_mode") == "default-host":
                    h.flag(Violation("c19.authenticity", "completed-for-host-not-in-certificate",
                                     "client %d called connect(%r, ...) without configuration.server_name and reported "
                                     "HandshakeCompleted although the server's certificate is only valid for localhost / "
                                     "127.0.0.1" % (self.v_owner, SERVER_IP)))
            h.loop.log("ev", self.v_role, self.v_n, name, len(getattr(event, "data", b"") or b""))
            super().quic_event_received(event)

    _CLASSES["proto"] = ObservedProtocol
    return ObservedProtocol


class Waiter:
    __slots__ = ("kind", "owner", "state", "t0", "done", "result", "t1")

    def __init__(self, kind, owner, state, t0):
        self.kind = kind
        self.owner = owner
        self.state = state
        self.t0 = t0
        self.done = False
        self.result = None
        self.t1 = None


class ClientState:
    def __init__(self, index, plan):
        self.index = index
        self.plan = plan
        self.obs = None
        self.phase = "start"
        self.connect_result = None
        self.knows_closed = False
        self.watch_done = False
        self.kicked = False
        self.closing_by_us = False
        self.cancelled = False
        self.failures = []  # (what, detail) : anything that was not a plain success
        self.streams_ok = 0
        self.streams_short = 0
        self.stream_n = 0
        self.task = None


# --------------------------------------------------------------------------- harness
class Harness:
    def __init__(self, ch, variant):
        from sim import simloop

        self.ch = ch
        self.variant = variant
        self.cfg = draw_config(ch, variant)
        self.plans, self.actor_plan, self.final_close_early = draw_script(ch, self.cfg)
        self.loop = simloop.new_loop(ch, self.cfg)
        self.loop.keep_trace = bool(os.environ.get("VERIF_TRACE"))
        self.probes = self.loop.probes
        self.net = self.loop.net
        self.proto_n = 0
        self.server = None
        self.server_transport = None
        self.server_closed = False
        self.server_protos = []
        self.clients = [ClientState(i, p) for i, p in enumerate(self.plans)]
        self.client_addrs = {("10.0.0.1", 40001 + i) for i in range(len(self.plans))}
        self.waiters = []
        self.aux_tasks = []
        self.tokens = {}  # address -> set of Retry tokens the server sent there
        self.amp_recv, self.amp_sent = {}, {}
        self.other_handler = None
        self.violation = None
        self.bytes_echoed = 0
        self.ops_log = []
        self.closers = False  # somebody closed something on purpose (server side)
        self.t_end = None
        self.reason = None
        self.states = set()
        self.net.taps.append(self.on_sendto)
        self.net.spoof_filter = self.spoof_filter
        self.net.deliver_tap = self.on_deliver
        self.loop.after_iteration = self.after_iteration
        if self.cfg["retry"]:
            self.probes["retry_enabled_runs"] += 1

    # -- small helpers
    def next_proto_n(self):
        self.proto_n += 1
        return self.proto_n

    def flag(self, v):
        """remember the first violation; it is raised at the next loop-iteration boundary"""
        if self.violation is None:
            self.violation = v

    def spawn(self, coro, aux=True):
        t = self.loop.create_task(coro)
        if aux:
            self.aux_tasks.append(t)
        return t

    # -- network observation (server side only; uses the independent wire parser)
    def on_sendto(self, transport, data, dst):
        if transport is not self.server_transport:
            return
        # anti-amplification as the network sees it, for addresses no client of this run owns (nothing ever
        # validates them): what the server sends there never exceeds three times what arrived from there
        if dst not in self.client_addrs:
            self.amp_sent[dst] = self.amp_sent.get(dst, 0) + len(data)
            if AMPLIFICATION_MODE[0] and self.amp_sent[dst] > 3 * self.amp_recv.get(dst, 0):
                self.flag(Violation("c19.amplification", "more-than-3x-to-spoofed-address",
                                    "t=%.6f: the server has sent %d bytes to %s:%d, an address from which only %d bytes "
                                    "arrived and which nobody validated" % (
                                        self.loop.time(), self.amp_sent[dst], dst[0], dst[1],
                                        self.amp_recv.get(dst, 0))))
        from wire.header import parse_datagram

        pkts, _ = parse_datagram(data, 0)
        if pkts and pkts[0].ptype == "retry":
            self.tokens.setdefault(dst, set()).add(bytes(pkts[0].token))
            self.probes["retry_sent"] += 1
            # "only for tokens it issued": another token handler of the same process (a second server) has its own
            # key and must not accept this server's token
            if self.other_handler is None:
                from aioquic.quic.retry import QuicRetryTokenHandler

                self.other_handler = QuicRetryTokenHandler()
            accepted = False
            from sim.simloop import as_seen_by_v6_socket

            for form in (dst, as_seen_by_v6_socket(dst)):  # the server's socket may report the mapped form
                try:
                    self.other_handler.validate_token(form, bytes(pkts[0].token))
                    accepted = True
                except Exception:
                    pass
            self.probes["token_offered_to_another_handler"] += 1
            if accepted:
                self.flag(Violation("c19.retry-validation", "token-accepted-by-another-handler",
                                    "t=%.6f: a Retry token issued by the server to %s:%d is accepted by a second "
                                    "QuicRetryTokenHandler of the same process, which never issued it" % (
                                        self.loop.time(), dst[0], dst[1])))

    def _initial_of(self, data):
        from wire.header import parse_datagram

        if not data or not data[0] & 0x80:
            return None
        pkts, _ = parse_datagram(data, self.cfg["server_cid_len"])
        if pkts and pkts[0].ptype == "initial":
            return pkts[0]
        return None

    def spoof_filter(self, transport, data, dst):
        if dst != SERVER_ADDR or transport is self.server_transport:
            return 0.0, None
        cfg = self.cfg
        if not cfg["p_spoof_initial"]:
            return 0.0, None
        ini = self._initial_of(data)
        if ini is None:
            return cfg["p_spoof_other"], None
        if ini.token:
            return cfg["p_spoof_token"], "token_replay_attempted"
        if AMPLIFICATION_MODE[0]:
            # (checks.c13, variant asyncio_server) half of the spoofed token-less Initials are cut short
            def cut(ch, data):
                k = ch.choose(3)
                if k == 0:
                    return data
                self.probes["spoofed_initial_undersized"] += 1
                if k == 1:  # the genuine datagram cut short (its Length field then lies)
                    return data[:(60, 80, 98, 150, 400, 1199)[ch.choose(6)]]
                # a well-formed but tiny Initial: same connection IDs and version, a payload of a few bytes
                from wire import header as wh

                n = (17, 20, 24, 40, 60, 200, 900)[ch.choose(7)]
                hdr = wh.build_long_header("initial", ini.version, bytes(ini.dcid), bytes(ini.scid), b"", 0, 1, n)
                return hdr + bytes((i * 29 + 7) & 0xFF for i in range(n))

            return max(cfg["p_spoof_initial"], 0.5), None, cut
        return cfg["p_spoof_initial"], None

    def on_deliver(self, transport, d):
        if transport is self.server_transport:
            self.amp_recv[d.src] = self.amp_recv.get(d.src, 0) + len(d.data)
        if transport is not self.server_transport or not d.spoofed or self.server is None:
            return
        ini = self._initial_of(d.data)
        if ini is not None and ini.token:
            if bytes(ini.dcid) in self.server._protocols:
                self.probes["token_replay_routed_to_existing_connection"] += 1
            else:
                self.probes["token_replay_reached_validation"] += 1

    # -- protocol observation
    def on_protocol_created(self, proto):
        if proto.v_role != "server":
            return
        self.server_protos.append(proto)
        self.probes["server_protocols_created"] += 1
        tr = self.server_transport
        d = tr.current if tr is not None else None
        if d is None:
            raise HarnessError("server protocol created outside datagram_received")
        if d.spoofed:
            self.probes["state_created_by_spoofed_initial"] += 1
        if not self.cfg["retry"]:
            return
        # "creates connection state under address validation only for tokens it issued to that address"
        ini = self._initial_of(d.data)
        token = bytes(ini.token) if ini is not None else b""
        if not token:
            self.flag(Violation("c19.retry-validation", "state-without-token",
                                "t=%.6f: with retry=True the server created connection state for a datagram "
                                "from %s:%d that carries no Retry token" % (self.loop.time(), d.src[0], d.src[1])))
        elif token not in self.tokens.get(d.src, ()):
            elsewhere = sorted(a for a, toks in self.tokens.items() if token in toks)
            self.flag(Violation("c19.retry-validation", "state-for-token-of-other-address",
                                "t=%.6f: with retry=True the server created connection state for an Initial from "
                                "%s:%d whose token it never sent to that address (token was issued to %s)" % (
                                    self.loop.time(), d.src[0], d.src[1], elsewhere or "nobody")))
        else:
            self.probes["state_created_after_valid_token"] += 1

    def on_terminated(self, proto, event):
        if event.reason_phrase == "Idle timeout":
            self.probes["idle_timeout"] += 1
            if self.loop.time() < self.cfg["t_fair"]:
                self.probes["idle_timeout_in_adversarial_phase"] += 1
        elif proto.v_role == "client" and not self.clients[proto.v_owner].closing_by_us:
            self.probes["client_saw_peer_close"] += 1
        if proto.v_role == "client" and not self.clients[proto.v_owner].closing_by_us:
            self.clients[proto.v_owner].failures.append(("terminated", event.reason_phrase or "code=%d" % event.error_code))
        if not proto.v_handshake:
            self.probes["terminated_before_handshake"] += 1

    # -- oracle 3: routing table, checked at every loop-iteration boundary
    def after_iteration(self):
        if self.violation is not None:
            v, self.violation = self.violation, None
            raise v
        loop = self.loop
        if loop.caught:
            self.judge_loop_exceptions()
        server = self.server
        if server is None:
            return
        table = server._protocols
        for cid, proto in table.items():
            if getattr(proto, "v_terminated", False):
                raise Violation("c19.routing-stale", "entry-for-terminated-connection",
                                "t=%.6f: QuicServer._protocols still maps connection ID %s to a connection that "
                                "reported ConnectionTerminated%r in an earlier loop iteration" % (
                                    loop.time(), cid.hex(), proto.v_term))
        if self.server_closed:
            return
        for proto in self.server_protos:
            if proto.v_terminated:
                continue
            for cid in proto.v_cids:
                if table.get(cid) is not proto:
                    raise Violation("c19.routing-missing", "live-connection-unreachable",
                                    "t=%.6f: server connection #%d is alive and announced connection ID %s (not "
                                    "retired) but QuicServer._protocols does not route it (%d entries)" % (
                                        loop.time(), proto.v_n, cid.hex(), len(table)))

        # the same clause from the client's side (independent of what the server believes was retired): the
        # connection ID a live client currently addresses its packets to was issued by a live server connection
        # and has not been retired by that client, so it must be routed
        for st in self.clients:
            cp = st.obs
            if cp is None or cp.v_terminated or not cp.v_handshake:
                continue
            try:
                cur = cp._quic._peer_cid.cid
            except Exception:
                continue
            for proto in self.server_protos:
                if not proto.v_terminated and cur in proto.v_all_cids and table.get(cur) is not proto:
                    raise Violation("c19.routing-missing", "client-current-cid-unrouted",
                                    "t=%.6f: client %d addresses its packets to connection ID %s, which live server "
                                    "connection #%d issued and this client has not retired, but QuicServer._protocols "
                                    "does not route it" % (loop.time(), st.index, cur.hex(), proto.v_n))

    # -- oracle 2a: the loop exception handler belongs to the simulator
    def judge_loop_exceptions(self):
        caught, self.loop.caught = self.loop.caught, []
        for ctx in caught:
            msg = ctx.get("message", "")
            exc = ctx.get("exception")
            if "was never retrieved" in msg or "was destroyed but it is pending" in msg:
                # garbage-collection time diagnostics, not a callback that failed
                continue
            if exc is None:
                raise HarnessError("loop exception handler called without exception: %r" % (msg,))
            where = innermost_aioquic_frame(exc)
            if where is None:
                raise HarnessError("exception outside aioquic reached the loop: %s\n%s" % (
                    msg, "".join(traceback.format_exception(type(exc), exc, exc.__traceback__))))
            raise Violation("c19.loop-exception", "%s@%s" % (type(exc).__name__, where),
                            "t=%.6f: %s: %s: %s" % (self.loop.time(), msg[:120], type(exc).__name__, str(exc)[:160]))

    # -- oracle 2b: awaited waiters
    async def track(self, kind, owner, proto, fn):
        if kind == "wait_connected":
            state = ("after-termination" if proto.v_terminated else
                     "after-handshake" if proto.v_handshake else "while-handshaking")
        else:
            state = "after-termination" if proto.v_terminated else "while-alive"
        w = Waiter(kind, owner, state, self.loop.time())
        self.waiters.append(w)
        self.loop.log("await", kind, state)
        try:
            r = await fn()
        except ConnectionError:
            w.result = "ConnectionError"
        except asyncio.CancelledError:
            w.result = "cancelled"
            w.done = True
            raise
        except BaseException as exc:
            w.result = type(exc).__name__
            w.done = True
            where = innermost_aioquic_frame(exc)
            if where is None:
                raise
            self.flag(Violation("c19.waiter-result", "%s:%s@%s" % (kind, type(exc).__name__, where),
                                "t=%.6f: %s() awaited by %s finished with %s: %s (only success or ConnectionError "
                                "is allowed)" % (self.loop.time(), kind, owner, type(exc).__name__, str(exc)[:160])))
            return w
        else:
            w.result = "ok"
            if r is not None:
                self.flag(Violation("c19.waiter-result", "%s:returned-value" % kind,
                                    "%s() returned %r" % (kind, r)))
        w.done = True
        w.t1 = self.loop.time()
        self.loop.log("done", kind, w.result)
        return w

    # ------------------------------------------------------------------ application
    def stream_handler(self, reader, writer):
        self.spawn(self.echo(reader, writer))

    async def echo(self, reader, writer):
        chunk = self.cfg["echo_chunk"]
        state = {"n": 0, "want": None}
        if chunk == 0:
            data = await reader.read()
            self.check_server_read(state, data, writer, True)
            writer.write(data)
        else:
            head = bytearray()
            while True:
                data = await reader.read(chunk)
                if not data:
                    break
                if state["want"] is None and state["n"] + len(head) < 8:
                    # wait for the 8-byte self-description before judging
                    head += data
                    if len(head) >= 8:
                        self.check_server_read(state, bytes(head), writer, False)
                else:
                    self.check_server_read(state, data, writer, False)
                writer.write(data)
            self.check_server_read(state, b"", writer, True)
        writer.write_eof()

    def check_server_read(self, state, data, writer, at_eof):
        """oracle 1, client -> server direction (streams of >= 8 bytes describe themselves)"""
        want = state["want"]
        if want is None:
            if state["n"] or len(data) < 8 or data[0:1] != b"C":
                state["n"] += len(data)
                return
            client, k, n = data[1], int.from_bytes(data[2:4], "big"), int.from_bytes(data[4:8], "big")
            if client >= len(self.clients) or n > 200000:
                self.flag(Violation("c19.stream-bytes", "server-wrong-bytes",
                                    "server reader returned a stream header no client wrote: %s" % bytes(data[:8]).hex()))
                state["n"] += len(data)
                return
            want = state["want"] = make_request(client, k, n)
            state["id"] = (client, k)
        off = state["n"]
        state["n"] = off + len(data)
        n = len(want)
        client, k = state["id"]
        if data != want[off:off + len(data)] or state["n"] > n:
            self.flag(Violation("c19.stream-bytes", "server-wrong-bytes",
                                "t=%.6f: stream %d of client %d: the server's reader returned %d bytes that are not "
                                "a prefix of the %d bytes written" % (self.loop.time(), k, client, state["n"], n)))
        elif at_eof and state["n"] < n:
            proto = writer.transport.protocol
            if not proto.v_terminated:
                self.flag(Violation("c19.stream-bytes", "server-eof-before-all-bytes",
                                    "t=%.6f: stream %d of client %d: the server's reader signalled EOF after %d of "
                                    "%d bytes although its connection has not terminated" % (
                                        self.loop.time(), k, client, state["n"], n)))
            else:
                self.probes["server_short_read_after_termination"] += 1

    async def client_main(self, st):
        from aioquic.asyncio.client import connect
        from aioquic.quic.configuration import QuicConfiguration

        plan = st.plan
        cfg = self.cfg
        i = st.index
        try:
            if plan["start"] > 0:
                await asyncio.sleep(plan["start"])
            conf = QuicConfiguration(
                is_client=True, alpn_protocols=["verif"], idle_timeout=cfg["client_idle"][i],
                max_data=plan["max_data"], congestion_control_algorithm=cfg["cc"])
            conf.load_verify_locations(cafile=fixtures.ca_path())
            if plan.get("name_mode") != "default-host":
                conf.server_name = "localhost"
            factory = functools.partial(observed_protocol_class(), harness=self, role="client", owner=i)
            if not plan["wait_connected"]:
                self.probes["connect_without_wait_connected"] += 1
            st.phase = "connect"
            async with connect(SERVER_IP, SERVER_PORT, configuration=conf, create_protocol=factory,
                               wait_connected=plan["wait_connected"], local_port=40001 + i) as proto:
                st.obs = proto
                st.phase = "body"
                # a close waiter that is pending for the whole life of the connection
                self.spawn(self.watch_closed(st, proto))
                for op in plan["ops"]:
                    await self.client_op(st, proto, op)
                self.kick(st, proto)
                if plan["leave"] == 1 and not st.knows_closed:
                    await self.do_close(st, proto, None)
                st.phase = "exit"
                st.closing_by_us = True
                if not proto.v_handshake and not proto.v_terminated:
                    self.probes["close_during_handshake"] += 1
            st.phase = "done"
            st.connect_result = "ok"
        except ConnectionError:
            st.connect_result = "ConnectionError@" + st.phase
            st.phase = "done"
            if not st.knows_closed:
                st.failures.append(("connect", st.connect_result))
        except asyncio.CancelledError:
            st.connect_result = "cancelled@" + st.phase
            st.phase = "done"
            if not st.cancelled:
                raise

    async def watch_closed(self, st, proto):
        await self.track("wait_closed", "client%d-watch" % st.index, proto, proto.wait_closed)
        st.watch_done = True

    def kick(self, st, proto):
        """connect(wait_connected=False) does not transmit ("start sending data using 0-RTT"): the
        handshake starts with the application's first transmission.  An application that has
        nothing to send yet has to call transmit() itself."""
        if not st.kicked:
            st.kicked = True
            if not st.plan["wait_connected"]:
                self.loop.log("op", st.index, "transmit")
                proto.transmit()

    async def do_close(self, st, proto, code):
        i = st.index
        st.closing_by_us = True
        if not proto.v_handshake and not proto.v_terminated:
            self.probes["close_during_handshake"] += 1
        if code is None:
            self.loop.log("op", i, "close")
            proto.close()
        else:
            # an endpoint that detects a protocol error: QuicConnection.close(error_code) + transmit()
            self.loop.log("op", i, "error_close", code)
            self.probes["error_close"] += 1
            proto._quic.close(error_code=code, reason_phrase="verif")
            proto.transmit()
        w = await self.track("wait_closed", "client%d" % i, proto, proto.wait_closed)
        st.knows_closed = True
        self.note(st, w)

    def note(self, st, w):
        if w.result != "ok":
            st.failures.append((w.kind, w.result))

    async def client_op(self, st, proto, op):
        i = st.index
        kind = op["kind"]
        races = VARIANTS[self.variant]["races"]
        if op["pre"] > 0:
            await asyncio.sleep(op["pre"])
        if (st.knows_closed or st.watch_done) and not races:
            # an application that never touches a connection it knows to be closed
            return
        if st.knows_closed and not st.plan["after_close"]:
            return
        if kind in ("stream", "streams", "ping", "pings"):
            st.kicked = True  # these transmit by themselves
        else:
            self.kick(st, proto)
        if kind == "sleep":
            await asyncio.sleep(op["dt"])
        elif kind == "ping":
            if proto.v_terminated:
                self.probes["ping_after_termination"] += 1
            self.loop.log("op", i, "ping")
            self.note(st, await self.track("ping", "client%d" % i, proto, proto.ping))
        elif kind == "pings":
            self.probes["concurrent_pings"] += 1
            if proto.v_terminated:
                self.probes["ping_after_termination"] += 1
            self.loop.log("op", i, "pings", op["n"])
            ts = [self.spawn(self.track("ping", "client%d" % i, proto, proto.ping), aux=False) for _ in range(op["n"])]
            for w in await asyncio.gather(*ts):
                self.note(st, w)
        elif kind == "wait_connected":
            self.loop.log("op", i, "wait_connected")
            if proto.v_terminated:
                self.probes["wait_connected_after_termination"] += 1
            elif proto.v_handshake:
                self.probes["wait_connected_after_handshake"] += 1
            self.note(st, await self.track("wait_connected", "client%d" % i, proto, proto.wait_connected))
        elif kind == "wait_closed":
            if st.knows_closed:
                self.probes["wait_closed_after_close"] += 1
                self.note(st, await self.track("wait_closed", "client%d" % i, proto, proto.wait_closed))
        elif kind == "change_cid":
            if not proto.v_terminated and not st.knows_closed and proto.v_handshake:
                self.loop.log("op", i, "change_cid")
                self.probes["change_connection_id"] += 1
                proto.change_connection_id()
        elif kind == "change_cids":
            for _ in range(op["n"]):
                if proto.v_terminated or st.knows_closed or not proto.v_handshake:
                    break
                self.loop.log("op", i, "change_cid")
                self.probes["change_connection_id"] += 1
                proto.change_connection_id()
                proto.transmit()
                await asyncio.sleep(op["gap"])
        elif kind == "close":
            if not st.knows_closed:
                await self.do_close(st, proto, None)
        elif kind == "error_close":
            if not st.knows_closed:
                await self.do_close(st, proto, op["code"])
        elif kind in ("stream", "streams"):
            if st.knows_closed:
                # a stream opened on a connection the application has seen terminate is outside what the property promises
                self.probes["stream_skipped_connection_dead"] += 1
                return
            if proto.v_terminated:
                # the application lost the race with the termination: whatever it reads must still end
                self.probes["stream_opened_on_unnoticed_termination"] += 1
            specs = op["streams"]
            if len(specs) == 1:
                await self.client_stream(st, proto, specs[0])
            else:
                self.probes["concurrent_streams"] += 1
                ts = [self.spawn(self.client_stream(st, proto, sp), aux=False) for sp in specs]
                await asyncio.gather(*ts)
        else:
            raise HarnessError("unknown op %r" % (kind,))

    async def client_stream(self, st, proto, spec):
        """oracle 1, seen from the client: the echo equals what was written, then EOF"""
        i = st.index
        k = st.stream_n
        st.stream_n += 1
        n = spec["size"]
        req = make_request(i, k, n)
        reader, writer = await proto.create_stream(is_unidirectional=False)
        self.loop.log("op", i, "stream", k, n, spec["chunks"], int(spec["writelines"]), spec["read"])
        self.ops_log.append((i, "stream", n, spec["chunks"], spec["read"]))
        nch = max(1, min(spec["chunks"], n)) if n else 1
        bounds = [n * j // nch for j in range(nch + 1)]
        for j in range(nch):
            part = req[bounds[j]:bounds[j + 1]]
            if spec["writelines"]:
                mid = len(part) // 2
                writer.writelines([part[:mid], part[mid:]])
            else:
                writer.write(part)
            if j + 1 < nch:
                gap = spec["gap"]
                if gap == 1:
                    await asyncio.sleep(0)
                elif gap == 2:
                    await writer.drain()
                elif gap == 3:
                    await asyncio.sleep(0.01)
        writer.write_eof()
        got = bytearray()
        extra = b""
        mode = spec["read"]
        w = Waiter("read", "client%d" % i, "after-termination" if proto.v_terminated else "while-alive",
                   self.loop.time())
        self.waiters.append(w)
        try:
            if mode == 0:
                got += await reader.read()
            elif mode == 1:
                while True:
                    data = await reader.read(spec["read_n"])
                    if not data:
                        break
                    got += data
            else:
                try:
                    got += await reader.readexactly(n)
                    extra = await reader.read(1)
                except asyncio.IncompleteReadError as e:
                    got += e.partial
        finally:
            w.done = True
            w.result = "ok"
        self.loop.log("read", i, k, len(got))
        if bytes(got) != req[:len(got)] or len(got) > n or extra:
            self.flag(Violation("c19.stream-bytes", "client-wrong-bytes",
                                "t=%.6f: client %d stream #%d: wrote %d bytes, the echo read back (%d bytes%s) is not "
                                "a prefix of them" % (self.loop.time(), i, k, n, len(got),
                                                      ", then more data after the end" if extra else "")))
        elif len(got) < n:
            if not proto.v_terminated:
                self.flag(Violation("c19.stream-bytes", "client-eof-before-all-bytes",
                                    "t=%.6f: client %d stream #%d: reader signalled EOF after %d of %d bytes although "
                                    "the connection has not terminated" % (self.loop.time(), i, k, len(got), n)))
            else:
                st.streams_short += 1
                self.probes["client_short_read_after_termination"] += 1
                st.failures.append(("stream", "short %d/%d" % (len(got), n)))
        else:
            st.streams_ok += 1
            self.bytes_echoed += n

    # -- server-side actor: pings, closes one connection, closes the server
    def live_server_protos(self):
        return [p for p in self.server_protos if not p.v_terminated]

    def close_server(self):
        if self.server_closed:
            return
        live = self.live_server_protos()
        if live:
            self.probes["server_close_with_live_connections"] += 1
            if any(not p.v_handshake for p in live):
                self.probes["server_close_during_handshake"] += 1
        self.loop.log("op", "server", "close", len(live))
        self.server_closed = True
        self.server.close()

    async def server_actor(self):
        for a in self.actor_plan:
            dt = a["t"] - self.loop.time()
            if dt > 0:
                await asyncio.sleep(dt)
            if self.server_closed:
                return
            kind = a["kind"]
            if kind == "server_close":
                self.closers = True
                self.close_server()
                return
            live = self.live_server_protos()
            if not live:
                continue
            proto = live[a["target"] % len(live)]
            self.loop.log("op", "server", kind)
            if kind == "ping":
                self.probes["server_ping"] += 1
                self.spawn(self.track("ping", "server", proto, proto.ping))
            elif kind == "close_proto":
                self.closers = True
                self.probes["server_closes_one_connection"] += 1
                if not proto.v_handshake:
                    self.probes["close_during_handshake"] += 1
                proto.close()
                self.spawn(self.track("wait_closed", "server", proto, proto.wait_closed))
            elif kind == "error_close_proto":
                self.closers = True
                self.probes["error_close"] += 1
                proto._quic.close(error_code=0x0A, reason_phrase="verif")
                proto.transmit()
                self.spawn(self.track("wait_closed", "server", proto, proto.wait_closed))

    def cancel_client(self, st):
        if st.task is not None and not st.task.done():
            st.cancelled = True
            st.closing_by_us = True
            self.probes["client_task_cancelled"] += 1
            if st.phase == "connect":
                self.probes["cancel_during_connect"] += 1
            self.loop.log("op", st.index, "cancel", st.phase)
            st.task.cancel()

    # ------------------------------------------------------------------------ main
    async def wait_done(self, get_tasks, deadline):
        loop = self.loop
        while True:
            pend = [t for t in get_tasks() if not t.done()]
            if not pend:
                return True
            remaining = deadline - loop.time()
            if remaining <= 0:
                return False
            await asyncio.wait(pend, timeout=remaining)

    async def main(self):
        from aioquic.asyncio.server import serve
        from aioquic.quic.configuration import QuicConfiguration

        cfg = self.cfg
        loop = self.loop
        sc = QuicConfiguration(
            is_client=False, alpn_protocols=["verif"], idle_timeout=cfg["server_idle"],
            connection_id_length=cfg["server_cid_len"], max_data=cfg["server_max_data"],
            max_stream_data=cfg["server_max_stream_data"], congestion_control_algorithm=cfg["cc"])
        cert, chain, key = fixtures.cert_chain("server_ed25519")
        sc.certificate, sc.certificate_chain, sc.private_key = cert, chain, key
        factory = functools.partial(observed_protocol_class(), harness=self, role="server", owner=None)
        self.server = await serve("::", SERVER_PORT, configuration=sc, create_protocol=factory,
                                  retry=cfg["retry"], stream_handler=self.stream_handler)
        self.server_transport = self.server._transport
        main_tasks = []
        last_action = 0.0
        for st in self.clients:
            st.task = self.spawn(self.client_main(st), aux=False)
            main_tasks.append(st.task)
            if st.plan["cancel_at"] is not None:
                loop.call_at(st.plan["cancel_at"], self.cancel_client, st)
                last_action = max(last_action, st.plan["cancel_at"])
        main_tasks.append(self.spawn(self.server_actor(), aux=False))
        if self.actor_plan:
            last_action = max(last_action, self.actor_plan[-1]["t"])
        max_idle = max([cfg["server_idle"]] + cfg["client_idle"])
        # generous: every connection that is not used any more idles out well before this
        self.t_end = max(cfg["t_fair"], last_action) + 3 * max_idle + 30.0
        ok = await self.wait_done(lambda: main_tasks, self.t_end)
        if ok:
            ok = await self.wait_done(lambda: self.aux_tasks, self.t_end)
        if not ok:
            return "budget"
        # every application task is finished; now the server goes away
        if self.final_close_early:
            self.close_server()
            await asyncio.sleep(5.0)
        else:
            await asyncio.sleep(5.0)
            self.close_server()
            await asyncio.sleep(2.0)
        return "complete"

    # -- end-of-run verdicts
    def task_verdict(self):
        """an application task that died of anything but a connection error"""
        for t in self.loop.all_tasks:
            if not t.done() or t.cancelled():
                continue
            exc = t.exception()
            if exc is None:
                continue
            where = innermost_aioquic_frame(exc)
            if where is None or isinstance(exc, HarnessError):
                raise HarnessError("harness task failed: %s" % "".join(
                    traceback.format_exception(type(exc), exc, exc.__traceback__)))
            raise Violation("c19.api-exception", "%s@%s" % (type(exc).__name__, where),
                            "a documented API call made by the application raised %s: %s" % (
                                type(exc).__name__, str(exc)[:160]))

    def liveness_verdict(self):
        """oracle 4: the network has been fair since t_fair and the budget (three idle periods and
        more) is over: whatever is still awaited will never finish"""
        loop = self.loop
        pending = [w for w in self.waiters if not w.done]
        discs = []
        for w in pending:
            discs.append(("%s:called-%s" % (w.kind, w.state), w))
        for st in self.clients:
            if st.task is not None and not st.task.done() and st.phase in ("connect", "exit"):
                discs.append(("connect():%s" % ("entering" if st.phase == "connect" else "leaving"), None))
        if not discs:
            stuck = [t for t in loop.all_tasks if not t.done()]
            raise HarnessError("budget over, %d tasks pending, but no tracked waiter is pending" % len(stuck))
        discs.sort(key=lambda x: x[0])
        disc, w = discs[0]
        detail = ""
        if w is not None:
            detail = " (%s, awaited by %s since t=%.3f)" % (w.kind, w.owner, w.t0)
        raise Violation("c19.liveness", disc,
                        "network fair since t=%.3f, now t=%.3f: %d awaited call(s) never finished: %s%s" % (
                            self.cfg["t_fair"], loop.time(), len(discs),
                            ", ".join(sorted(set(d for d, _ in discs))), detail))

    def fault_free_verdict(self):
        """On a perfect network, with nobody closing before the clients are done, long idle
        timeouts and no cancellation, nothing may fail: every stream is echoed completely and
        every waiter succeeds."""
        cfg = self.cfg
        if cfg["faulty"] or self.closers or any(self.loop.fired.values()) or any(
                v for k, v in self.net.fired.items()):
            return
        if min([cfg["server_idle"]] + cfg["client_idle"]) < 60.0:
            return
        for st in self.clients:
            if st.cancelled or not st.failures:
                continue
            # failures that follow the client's own close() are its own doing
            own = False
            for op in st.plan["ops"]:
                if op["kind"] in ("close", "error_close"):
                    own = True
            if own:
                continue
            what, detail = ([f for f in st.failures if f[0] != "terminated"] or st.failures)[0]
            raise Violation("c19.fault-free", "%s:%s" % (what, detail.split(" ")[0]),
                            "perfect network, nobody closed anything, idle timeouts >= 60 s, yet client %d saw: %s" % (
                                st.index, "; ".join("%s -> %s" % f for f in st.failures[:4])))


def run_one(seed, tier="quick", variant=None, replay=None):
    from sim import simloop

    variant = variant or "single"
    bootstrap.load()
    simloop.install_client_socket_shim()
    bootstrap.DET.reseed(seed)
    bootstrap.WALL.offset = 0.0
    bootstrap.RETRY_KEY_INDEX[0] = 0
    ch = Chooser(seed, replay)
    h = Harness(ch, variant)
    loop = h.loop
    out = Outcome(seed)
    reason = None
    violation = None
    try:
        try:
            reason = loop.run_until_complete(h.main())
            if loop.caught:
                h.judge_loop_exceptions()
            if h.violation is not None:
                raise h.violation
            h.task_verdict()
            if reason == "budget":
                h.liveness_verdict()
            else:
                h.fault_free_verdict()
        except Violation as v:
            violation = v
            reason = "violation"
        except simloop.StepCap:
            reason = "step-cap"
        t_final = loop.time()
        steps = loop.callbacks
        digest = loop.digest()
        results = Counter()
        for w in h.waiters:
            results["%s:%s" % (w.kind, w.result if w.done else "pending")] += 1
    finally:
        loop.shutdown()
    if violation is not None:
        out.violation = {"oracle": violation.oracle, "discriminator": violation.discriminator,
                         "message": violation.message, "time": round(t_final, 9), "step": steps}
    fired = Counter(h.net.fired)
    fired.update(loop.fired)
    probes = {k: v for k, v in h.probes.items() if v}
    for st in h.clients:
        h.states.add("client:%s:%s:%s" % (st.connect_result, st.obs.v_term[1][:20] if st.obs is not None and st.obs.v_term
                                          else None, bool(st.failures)))
    s = {
        "reason": reason, "steps": steps, "sim_time": round(t_final, 6), "fired": dict(fired), "probes": probes,
        "digest": digest, "inconclusive": reason == "step-cap", "aborted": False,
        "states": sorted(h.states),
        "extra": {"datagrams_sent": h.net.sent, "datagrams_delivered": h.net.delivered, "loop_iterations": loop.iterations,
                  "streams_echoed": sum(st.streams_ok for st in h.clients),
                  "streams_cut_by_termination": sum(st.streams_short for st in h.clients),
                  "bytes_echoed": h.bytes_echoed, "waiters": len(h.waiters),
                  "waiters_connection_error": sum(1 for w in h.waiters if w.result == "ConnectionError")},
        "waiter_results": dict(results),
    }
    out.summary = s
    out.choices = ch.dump()
    n_fired = sum(v for k, v in fired.items() if k != "noroute")
    out.nontrivial = n_fired > 0 and s["extra"]["streams_echoed"] > 0
    script_sig = stable_hash([(p["wait_connected"], p["leave"], p["cancel_at"], [o["kind"] for o in p["ops"]])
                              for p in h.plans] + [(a["kind"], a["t"]) for a in h.actor_plan])
    out.signature = "%s:%s:%s" % (variant, script_sig, h.net.sig.hexdigest()[:16])
    out.sample = {
        "seed": seed, "variant": variant,
        "config": {k: h.cfg[k] for k in ("n_clients", "retry", "latency", "jitter", "fate_weights", "t_adv", "blackouts",
                                         "server_idle", "client_idle", "p_timer_late", "timer_late_max", "cb_cost",
                                         "p_slow", "read_batch", "faults_on", "echo_chunk")},
        "clients": [{"wait_connected": p["wait_connected"], "start": round(p["start"], 4), "leave": p["leave"],
                     "cancel_at": p["cancel_at"],
                     "ops": [(o["kind"], o["pre"]) + (tuple(sp["size"] for sp in o["streams"]),) if "streams" in o
                             else (o["kind"], o["pre"]) for o in p["ops"]],
                     "result": st.connect_result, "failures": st.failures[:4]}
                    for p, st in zip(h.plans, h.clients)],
        "server_actor": [(a["kind"], round(a["t"], 4)) for a in h.actor_plan],
        "final_close_early": h.final_close_early,
        "fired": dict(fired), "waiters": dict(results), "end": reason, "sim_time": round(t_final, 3),
    }
    if loop.keep_trace:
        out.sample["trace_lines"] = len(loop.trace_lines)
        run_one.last_trace = loop.trace_lines
    return out
