"""C14 HTTP/3 events are independent of chunking and survive a round trip."""
import hashlib

from sim import bootstrap
from sim.chooser import Chooser
from sim.h3lib import (DGRAM, FakeQuic, Streams, body_bytes, chunks_of, cuts_from_mask, draw_cuts, first_diff,
                       gen_body_size, gen_request_headers, gen_response_headers, gen_trailers, interleave,
                       item_brief, norm_add, norm_data, normalise_into, read_varint)
from sim.kernel import Violation
from sim.runner import Outcome, stable_hash, violation_dict
from sim.transport import innermost_frame

PROPERTY = "C14"
NAME = "c14"
LEVEL = "exploration"
RULE = (
    "each run = one seed -> one HTTP/3 session written through the real sending API of a client and a server "
    "H3Connection on recording transports (requests, responses, bodies of 0/1/frame-boundary sizes, trailers, "
    "content-length, push promises + pushed responses, WebTransport sessions with uni/bidi streams and datagrams; "
    "header lists with static, literal and dynamic QPACK entries - sticky fields repeated across messages -, no "
    "decoder feedback so that header blocks may reference not-yet-delivered insertions; 30 % burst sessions: a "
    "warm-up exchange then 17..36 concurrent short exchanges; 60 % duplex: the receivers also perform their own "
    "role's sends so that streams finish in both directions), giving one byte string per QUIC stream and direction; fresh receiving "
    "H3Connections get these bytes (a) canonically (whole streams, sender order), (b) variant 'random': 3 "
    "chooser-drawn splittings x interleavings per direction, (c) variant 'exhaustive_short': every one of the "
    "2^(n-1) splittings (x FIN with the last chunk / alone) of one stream of <= 12 bytes, (d) variant 'truncated': "
    "one stream cut by FIN at every byte (sampled above 24 bytes), whole vs. 2 drawn splittings/placements of that "
    "stream. Events are "
    "normalised per stream and compared with the canonical delivery and with what was submitted. A run is "
    "non-trivial when some stream was delivered in more than one piece or out of sender order; distinct = hash of "
    "the stream bytes and of every schedule"
)
ASSUMPTIONS = [
    "sampling for long streams / exhaustive only for the splittings of one short stream per run",
    "pylsqpack (ls-qpack) is third-party code and trusted to encode/decode consistently",
    "the sending endpoints only learn each other's control stream (SETTINGS, MAX_PUSH_ID): without decoder "
    "feedback every dynamic-table reference stays 'at risk', which is what lets any interleaving be a legal one; "
    "keeping the streams at risk within the peer's QPACK_BLOCKED_STREAMS=16 is the sending encoder's duty, also "
    "in burst sessions with 17..36 concurrent exchanges",
    "duplex sessions: a receiving client has performed the client's HEADERS/DATA sends before anything arrives; a "
    "receiving server performs the response sends of a stream right after that request's headers were delivered "
    "(push promises and WebTransport writes are not replayed on receivers)",
    "informational (1xx) responses are not generated: the aioquic sending API models a second HEADERS frame as "
    "trailers",
    "the reverse direction of a WebTransport bidirectional stream is not generated (only the initiator writes)",
]
COMPONENTS = {
    "real": ["H3Connection (sending client + server, receiving client + server)", "pylsqpack encoder/decoder",
             "aioquic Buffer (_buffer C helper rebuilt from the working tree)"],
    "stub": ["FakeQuic recording transport (send_stream_data / get_next_available_stream_id / send_datagram_frame "
             "/ close)", "delivery schedule (splitting, interleaving, FIN placement)"],
}
PLAN = {
    "quick": {"budget_s": 45, "max_runs": 10 ** 7,
              "variants": ["random", "random", "exhaustive_short", "truncated"]},
    "thorough": {"budget_s": 900, "max_runs": 10 ** 9,
                 "variants": ["random", "random", "exhaustive_short", "truncated"]},
}

FRAME_NAMES = {0: "DATA", 1: "HEADERS", 4: "SETTINGS", 5: "PUSH_PROMISE", 0xD: "MAX_PUSH_ID", 0x41: "WT"}


class Msg:
    __slots__ = ("dir", "sid", "steps", "pos", "push_id", "off", "session")

    def __init__(self, direction, sid, steps, push_id=None, session=None):
        self.dir = direction
        self.sid = sid
        self.steps = steps
        self.pos = 0
        self.push_id = push_id
        self.off = 0
        self.session = session


class Session:
    """A valid HTTP/3 session written through the sending API."""

    def __init__(self, ch, small):
        from aioquic.h3.connection import H3Connection

        cfg = ch.stream("config")
        self.s = ch.stream("script")
        self.h = ch.stream("headers")
        self.small = small
        self.wt = cfg.chance(0.5)
        # burst: more than 16 concurrent header-carrying streams per direction (the encoder must
        # keep the streams it puts at risk of blocking within the peer's QPACK_BLOCKED_STREAMS)
        self.burst = (not small) and cfg.weighted([7, 3]) == 1
        # duplex: the receiving endpoints also perform their own role's sends (a client has sent
        # its requests; a server answers a request once its headers arrived)
        self.duplex = cfg.chance(0.6)
        # fields repeated in most header lists: ls-qpack inserts a field into the dynamic table
        # the second time it sees it and references it from then on
        self.sticky = []
        self.sticky_trailer = []
        if not small:
            hs = self.h
            for i in range(1 + hs.choose(3)):
                self.sticky.append((b"x-sticky-%d" % i, b"sticky-value-%d-%d" % (i, hs.choose(50))))
            if hs.chance(0.5):
                self.sticky.append((b"user-agent", b"verif/1.%d" % hs.choose(10)))
            self.sticky_trailer = [(b"x-sticky-trailer", b"t%d" % hs.choose(50))]
        self.p_sticky = 0.95 if self.burst else 0.6
        self.oplog = {"c2s": [], "s2c": []}
        # half of the sessions run with the qlog trace attached (logging must not change what is delivered)
        self.with_logger = self.h.chance(0.5)
        if FORCE_LOGGER[0] is not None:  # checks.c20 (variant h3) runs the same session with the trace off and on
            self.with_logger = FORCE_LOGGER[0]
        self.qc = FakeQuic(True, logger=self.with_logger)
        self.qs = FakeQuic(False, logger=self.with_logger)
        self.hc = H3Connection(self.qc, enable_webtransport=self.wt)
        self.hs = H3Connection(self.qs, enable_webtransport=self.wt)
        self.exp = {"c2s": {}, "s2c": {}}
        self.kind = {"c2s": {}, "s2c": {}}
        for d, h3 in (("c2s", self.hc), ("s2c", self.hs)):
            self.kind[d][h3._local_control_stream_id] = "control"
            self.kind[d][h3._local_encoder_stream_id] = "qpack-enc"
            self.kind[d][h3._local_decoder_stream_id] = "qpack-dec"
        self.msgs = []
        self.requests = []  # request stream ids without a response yet
        self.n_requests = 0
        self.n_push = 0
        self.sessions = []
        self.n_wt_streams = 0
        self.counts = {"request": 0, "response": 0, "push": 0, "wt_session": 0, "wt_uni": 0, "wt_bidi": 0,
                       "datagram": 0, "trailers": 0, "content_length": 0, "open_end": 0, "burst_session": 0,
                       "bodyless_fin_on_headers": 0, "fin_on_trailers": 0}
        self._exchange_control()
        self._script()
        self.c2s = Streams(self.qc.writes, self.qc.datagrams)
        self.s2c = Streams(self.qs.writes, self.qs.datagrams)
        for q, who in ((self.qc, "client"), (self.qs, "server")):
            if q.closed is not None:
                raise Violation("c14.sender-closed", "code=0x%x" % q.closed[0],
                                "the sending %s closed its connection with 0x%x (%r) on receipt of the peer's "
                                "initial control stream" % (who, q.closed[0], q.closed[1]))

    def _exchange_control(self):
        from aioquic.quic.events import StreamDataReceived

        # the senders only learn each other's SETTINGS / MAX_PUSH_ID (needed to use the dynamic
        # table and to push); nothing else is fed back (see ASSUMPTIONS)
        for sid, data, fin in list(self.qc.writes):
            self.hs.handle_event(StreamDataReceived(data=data, end_stream=fin, stream_id=sid))
        for sid, data, fin in list(self.qs.writes):
            self.hc.handle_event(StreamDataReceived(data=data, end_stream=fin, stream_id=sid))

    # ---- message plans
    def _body_plan(self, hdrs, light=False):
        s, small = self.s, self.small
        steps = []
        if self.sticky and s.chance(self.p_sticky):
            hdrs = hdrs + self.sticky
        if light:  # burst / warm-up: many short messages
            n_data = s.weighted([3, 2, 1])
            sizes = [(0, 1, 3, 17, 64)[s.choose(5)] for _ in range(n_data)]
        else:
            n_data = s.geometric(2 if small else 4, 0.6 if small else 1.0)
            sizes = [gen_body_size(s, small) for _ in range(n_data)]
        trailers = s.chance(0.25)
        if s.chance(0.3):
            hdrs = hdrs + [(b"content-length", b"%d" % sum(sizes))]
            self.counts["content_length"] += 1
        steps.append(["H", hdrs, False])
        for z in sizes:
            steps.append(["D", z, False])
        if trailers:
            tr = gen_trailers(self.h, small)
            if self.sticky_trailer and s.chance(self.p_sticky):
                tr = tr + self.sticky_trailer
            steps.append(["H", tr, False])
            self.counts["trailers"] += 1
        if s.weighted([6, 1]) == 0 or (light and s.chance(0.8)):
            steps[-1][2] = True  # FIN with the last frame
            if len(steps) == 1:
                self.counts["bodyless_fin_on_headers"] += 1
            elif trailers:
                self.counts["fin_on_trailers"] += 1
        else:
            self.counts["open_end"] += 1
        return steps

    def _new_request(self, light=False):
        sid = self.qc.get_next_available_stream_id()
        self.n_requests += 1
        self.kind["c2s"][sid] = "request"
        self.requests.append(sid)
        m = Msg("c2s", sid, self._body_plan(gen_request_headers(self.h, self.small), light))
        self.msgs.append(m)
        self.counts["request"] += 1
        return m

    def _new_response(self, sid, light=False):
        self.requests.remove(sid)
        self.kind["s2c"][sid] = "response"
        m = Msg("s2c", sid, self._body_plan(gen_response_headers(self.h, self.small), light))
        self.msgs.append(m)
        self.counts["response"] += 1
        return m

    def _create(self):
        s = self.s
        k = s.weighted([4, 6, 1.5, 2.5, 1] if not (self.small and self.wt) else [2, 3, 3, 4, 1])
        if k == 1 and self.requests:
            sid = self.requests.pop(s.choose(len(self.requests)))
            steps = self._body_plan(gen_response_headers(self.h, self.small))
            n_pp = s.geometric(2, 0.7)
            for _ in range(n_pp):
                if self.n_push + sum(1 for st in steps if st[0] == "P") >= 4:
                    break
                pos = s.choose(len(steps))  # before the final step, so never after the FIN
                steps.insert(pos, ["P", gen_request_headers(self.h, self.small, full=True), False])
            self.kind["s2c"][sid] = "response"
            self.msgs.append(Msg("s2c", sid, steps))
            self.counts["response"] += 1
            return
        if k == 2 and self.wt and len(self.sessions) < 2 and self.n_requests < 6:
            sid = self.qc.get_next_available_stream_id()
            self.n_requests += 1
            self.kind["c2s"][sid] = "request"
            self.kind["s2c"][sid] = "response"
            self.msgs.append(Msg("c2s", sid, [["H", gen_request_headers(self.h, self.small, b"webtransport"), False]]))
            self.msgs.append(Msg("s2c", sid, [["H", [(b":status", b"200")], False]]))
            self.sessions.append(sid)
            self.counts["wt_session"] += 1
            return
        if k == 3 and self.sessions and self.n_wt_streams < 6:
            session = self.sessions[s.choose(len(self.sessions))]
            direction = ("c2s", "s2c")[s.choose(2)]
            uni = s.chance(0.5)
            steps = [["WO", uni, False]]
            for _ in range(s.geometric(3, 1.0)):
                steps.append(["WD", gen_body_size(s, self.small), False])
            if s.weighted([4, 1]) == 0:
                if len(steps) == 1 or s.chance(0.3):
                    steps.append(["WD", 0, True])  # FIN on its own write
                else:
                    steps[-1][2] = True
            self.n_wt_streams += 1
            self.msgs.append(Msg(direction, None, steps, session=session))
            self.counts["wt_uni" if uni else "wt_bidi"] += 1
            return
        if k == 4 and self.sessions:
            session = self.sessions[s.choose(len(self.sessions))]
            direction = ("c2s", "s2c")[s.choose(2)]
            self.msgs.append(Msg(direction, None, [["G", [0, 1, 5, 300][s.choose(4)], False]], session=session))
            self.counts["datagram"] += 1
            return
        # default: a new request
        if self.n_requests >= 6:
            return
        sid = self.qc.get_next_available_stream_id()
        self.n_requests += 1
        self.kind["c2s"][sid] = "request"
        self.requests.append(sid)
        self.msgs.append(Msg("c2s", sid, self._body_plan(gen_request_headers(self.h, self.small))))
        self.counts["request"] += 1

    def _step(self, m):
        kind, arg, fin = m.steps[m.pos]
        m.pos += 1
        h3, q = (self.hc, self.qc) if m.dir == "c2s" else (self.hs, self.qs)
        exp = self.exp[m.dir]
        if kind == "H":
            h3.send_headers(m.sid, arg, end_stream=fin)
            norm_add(exp, m.sid, ("H", tuple(arg), m.push_id))
            if m.push_id is None:
                self.oplog[m.dir].append(("H", m.sid, arg, fin))
        elif kind == "D":
            data = body_bytes(m.sid, m.off, arg)
            m.off += arg
            h3.send_data(m.sid, data, end_stream=fin)
            norm_data(exp, m.sid, "D", m.push_id, data)
            if m.push_id is None:
                self.oplog[m.dir].append(("D", m.sid, data, fin))
        elif kind == "P":
            push_sid = h3.send_push_promise(m.sid, arg)
            push_id = self.n_push
            self.n_push += 1
            norm_add(exp, m.sid, ("P", push_id, tuple(arg)))
            self.kind["s2c"][push_sid] = "push"
            self.msgs.append(Msg("s2c", push_sid, self._body_plan(gen_response_headers(self.h, self.small)),
                                 push_id=push_id))
            self.counts["push"] += 1
        elif kind == "WO":
            m.sid = h3.create_webtransport_stream(m.session, is_unidirectional=arg)
            self.kind[m.dir][m.sid] = "wt-uni" if arg else "wt-bidi"
        elif kind == "WD":
            data = body_bytes(m.sid, m.off, arg)
            m.off += arg
            q.send_stream_data(m.sid, data, fin)
            norm_data(exp, m.sid, "W", m.session, data)
        elif kind == "G":
            data = body_bytes(m.session, 0, arg)
            h3.send_datagram(m.session, data)
            norm_add(exp, DGRAM, ("G", m.session, data))
        if fin:
            norm_add(exp, m.sid, ("END",))

    def _script(self):
        s = self.s
        if self.burst:
            self.counts["burst_session"] += 1
            # warm-up exchange written completely, in order
            for _ in range(1 + s.choose(2)):
                rq = self._new_request(light=True)
                while rq.pos < len(rq.steps):
                    self._step(rq)
                rs = self._new_response(rq.sid, light=True)
                while rs.pos < len(rs.steps):
                    self._step(rs)
            # then more than 16 concurrent exchanges
            n = 17 + s.choose(20)
            burst = [self._new_request(light=True) for _ in range(n)]
            answered = s.weighted([3, 1])  # 0: every request is answered
            for rq in burst:
                if answered == 0 or s.chance(0.5):
                    self._new_response(rq.sid, light=True)
        budget = 1 + (s.choose(3) if self.small else s.geometric(10, 3.5))
        if self.burst:
            budget = s.choose(3)
        guard = 0
        while guard < 400:
            guard += 1
            live = [m for m in self.msgs if m.pos < len(m.steps)]
            if budget > 0 and (not live or s.chance(0.4)):
                budget -= 1
                self._create()
                continue
            if not live:
                break
            self._step(live[s.choose(len(live))])


# ---------------------------------------------------------------- delivery


class Result:
    __slots__ = ("store", "closed", "raised", "blocked", "resumed", "n")


def local_send(h3, op):
    if op[0] == "H":
        h3.send_headers(op[1], op[2], end_stream=op[3])
    else:
        h3.send_data(op[1], op[2], end_stream=op[3])


FORCE_LOGGER = [None]
LOGGER_ON_DELIVERY = [False]  # set per run by run_one (the receiving connections log too when the session did)


def deliver(is_client, wt, schedule, local=None):
    """feed a schedule to a FRESH receiving H3Connection. local: the HEADERS/DATA sends of the
    receiver's own role (same API calls as in the session): a client performs them before anything
    arrives, a server those of a stream once the request headers of that stream were delivered"""
    from aioquic.h3.connection import H3Connection
    from aioquic.quic.events import DatagramFrameReceived, StreamDataReceived

    q = FakeQuic(is_client, logger=LOGGER_ON_DELIVERY[0])
    h3 = H3Connection(q, enable_webtransport=wt)
    r = Result()
    r.store = {}
    r.raised = None
    r.blocked = set()
    streams = h3._stream
    pending = {}
    if local:
        if is_client:
            for op in local:
                local_send(h3, op)
        else:
            for op in local:
                pending.setdefault(op[1], []).append(op)
    try:
        for d in schedule:
            if d[0] == "s":
                evs = h3.handle_event(StreamDataReceived(data=d[2], end_stream=d[3], stream_id=d[1]))
                st = streams.get(d[1])  # probe only
                if st is not None and st.blocked:
                    r.blocked.add(d[1])
            else:
                evs = h3.handle_event(DatagramFrameReceived(data=d[1]))
            if evs:
                normalise_into(r.store, evs)
                if pending:
                    for ev in evs:
                        if type(ev).__name__ == "HeadersReceived" and ev.stream_id in pending:
                            for op in pending.pop(ev.stream_id):
                                local_send(h3, op)
    except Violation:
        raise
    except Exception as exc:  # an exception out of handle_event is part of the verdict
        r.raised = "%s@%s" % (type(exc).__name__, innermost_frame(exc))
    r.closed = q.closed
    r.resumed = sum(1 for sid in r.blocked if any(it[0] in ("H", "P") for it in r.store.get(sid, ())))
    r.n = len(schedule)
    return r


def canonical_schedule(st):
    out = []
    for sid in st.order:
        if st.data[sid] or st.fin[sid]:
            out.append(("s", sid, st.data[sid], st.fin[sid]))
    out.extend(("d", d) for d in st.datagrams)
    return out


def random_schedule(ch, st, enc_sid, tag):
    sp = ch.stream("split" + tag)
    od = ch.stream("order" + tag)
    per = {}
    for sid in st.order:
        data = st.data[sid]
        cuts = draw_cuts(sp, len(data), st.bounds[sid])
        fin_alone = st.fin[sid] and sp.chance(0.35)
        per[sid] = [("s", sid, c, f) for c, f in chunks_of(data, cuts, st.fin[sid], fin_alone)]
    per[DGRAM] = [("d", d) for d in st.datagrams]
    return interleave(od, per, st.order + [DGRAM], last=enc_sid)


def target_schedule(ch, st, target, tag):
    """only the target stream is split; the other streams whole in sender order, the pieces of
    the target dropped in at drawn positions (so that what differs from the canonical delivery is
    attributable to the target stream)"""
    sp = ch.stream("split" + tag)
    od = ch.stream("order" + tag)
    data = st.data[target]
    cuts = draw_cuts(sp, len(data), st.bounds[target], style=sp.weighted([1, 3, 4, 3, 1]))
    pieces = [("s", target, c, f) for c, f in chunks_of(data, cuts, st.fin[target], sp.chance(0.5))]
    out = [("s", o, st.data[o], st.fin[o]) for o in st.order if o != target and (st.data[o] or st.fin[o])]
    out += [("d", g) for g in st.datagrams]
    mode = od.weighted([2, 2, 1])
    if mode == 0:  # contiguous somewhere
        at = od.choose(len(out) + 1)
        return out[:at] + pieces + out[at:]
    if mode == 2:  # before everything (a request: before its encoder stream -> blocked)
        return pieces + out
    slots = sorted(od.choose(len(out) + 1) for _ in pieces)
    res = []
    pi = 0
    for i in range(len(out) + 1):
        while pi < len(pieces) and slots[pi] == i:
            res.append(pieces[pi])
            pi += 1
        if i < len(out):
            res.append(out[i])
    return res


def sched_sig(schedule):
    return [(d[1], len(d[2]), d[3]) if d[0] == "s" else ("d", len(d[1])) for d in schedule]


def describe_diff(kind, sid, want, got):
    fd = first_diff(want, got)
    if fd is None:
        return "same", ""
    i, x, y = fd
    disc = "%s/want=%s/got=%s" % (kind, item_brief(x), item_brief(y))
    if x is not None and y is not None and x[0] == y[0]:
        disc += "(content differs)"
    msg = "stream %s (%s) item %d: expected %s, got %s" % (sid, kind, i, _short(x), _short(y))
    return disc, msg


def _short(it):
    if it is None:
        return "nothing"
    r = repr(it)
    return r if len(r) < 160 else r[:157] + "..."


def compare(oracle, what, kinds, want, got, closed, raised, extra_msg=""):
    """want/got: normalised stores"""
    if raised is not None:
        raise Violation("c14.exception", raised, "%s: handle_event raised %s on a valid session %s" % (
            what, raised, extra_msg))
    if closed is not None:
        raise Violation(oracle, "closed-0x%x/%s" % (closed[0], closed[1][:40]),
                        "%s: the receiver closed the connection with 0x%x (%r) on a valid session %s" % (
                            what, closed[0], closed[1], extra_msg))
    if want == got:
        return
    keys = sorted(set(want) | set(got), key=str)
    for sid in keys:
        a = want.get(sid, [])
        b = got.get(sid, [])
        if a != b:
            kind = kinds.get(sid, "dgram" if sid == DGRAM else "?")
            disc, msg = describe_diff(kind, sid, a, b)
            raise Violation(oracle, disc, "%s: %s %s" % (what, msg, extra_msg))


def frame_where(st, kinds, sid, k):
    """parser position of a cut after k bytes of a VALID stream (classification only)"""
    kind = kinds.get(sid, "?")
    bounds = st.bounds[sid]
    data = st.data[sid]
    w = 0
    for i, b in enumerate(bounds):
        if b <= k:
            w = i
    start = bounds[w]
    if k == start:
        return "%s/frame-boundary" % kind if k else "%s/empty" % kind
    n_prefix = {"control": 1, "qpack-enc": 1, "qpack-dec": 1, "push": 2, "wt-uni": 2, "wt-bidi": 1}.get(kind, 0)
    if w < n_prefix:
        return "%s/in-stream-prefix" % kind
    if kind in ("qpack-enc", "qpack-dec"):
        return "%s/in-instructions" % kind
    if kind.startswith("wt-"):
        return "%s/in-data" % kind
    ftype, p = read_varint(data, start)
    flen, p = read_varint(data, p)
    name = FRAME_NAMES.get(ftype, "0x%x" % ftype if ftype is not None else "?")
    if k < p:
        return "%s/%s:in-frame-header" % (kind, name)
    if k == p:
        return "%s/%s:header-complete-payload-0-of-%s" % (kind, name, "n" if flen else "0")
    return "%s/%s:in-payload" % (kind, name)


# --------------------------------------------------------------------- run


def run_one(seed, tier="quick", variant=None, replay=None):
    variant = variant or "random"
    bootstrap.load()
    bootstrap.DET.reseed(seed)
    ch = Chooser(seed, replay)
    out = Outcome(seed)
    probes = {}
    extra = {"deliveries": 0, "splittings_checked": 0, "truncated_cases": 0, "truncated_chunk_dependent": 0,
             "truncated_raised": 0, "truncated_closed": 0}
    states = set()
    dig = hashlib.sha256()
    sigs = []
    info = {"variant": variant}
    nontrivial = [False]

    def bump(name, n=1):
        if n:
            probes[name] = probes.get(name, 0) + n

    def account(r, direction):
        extra["deliveries"] += 1
        bump("blocked_stream", len(r.blocked))
        if len(r.blocked) >= 16:
            bump("deliveries_with_16_or_more_blocked_streams")
        bump("blocked_stream_resumed", r.resumed)
        for sid in r.blocked:
            states.add(("blocked", direction, sess.kind[direction].get(sid, "?")))
        dig.update(repr(sorted(r.store.items(), key=lambda kv: str(kv[0]))).encode())
        dig.update(repr((r.closed, r.raised)).encode())

    sess = None
    try:
        LOGGER_ON_DELIVERY[0] = False
        try:
            sess = Session(ch, small=(variant == "exhaustive_short"))
        except Violation:
            raise
        except Exception as exc:
            # the session only makes valid calls of the sending API with valid messages: an exception from
            # inside the library means those messages are never delivered (a harness bug is re-raised)
            from sim.transport import innermost_frame

            where = innermost_frame(exc)
            if where == "?" or "pylsqpack" in repr(exc):
                raise
            raise Violation("c14.send-raised", "%s@%s" % (type(exc).__name__, where),
                            "a valid call of the HTTP/3 sending API raised %r at %s" % (exc, where))
        LOGGER_ON_DELIVERY[0] = sess.with_logger
        bump("with_qlog_trace", int(sess.with_logger))
        for k, v in sess.counts.items():
            bump(k, v)
        info["wt"] = sess.wt
        info["session"] = {k: v for k, v in sess.counts.items() if v}
        dirs = (("c2s", sess.c2s, False, sess.hc._local_encoder_stream_id),
                ("s2c", sess.s2c, True, sess.hs._local_encoder_stream_id))
        info["streams"] = {d: {str(sid): len(st.data[sid]) for sid in st.order} for d, st, _, _ in dirs}
        canon = {}
        local = {"c2s": None, "s2c": None}
        if sess.duplex:  # the receiver of one direction is the sender of the other one
            local = {"c2s": sess.oplog["s2c"], "s2c": sess.oplog["c2s"]}
            bump("duplex_session")
        info["duplex"] = sess.duplex
        info["burst"] = sess.burst
        for d, st, rc, enc in dirs:
            dig.update(repr([(sid, st.data[sid], st.fin[sid]) for sid in st.order]).encode())
            r = deliver(rc, sess.wt, canonical_schedule(st), local[d])
            account(r, d)
            canon[d] = r
            compare("c14.roundtrip", "%s canonical delivery vs. what was submitted to the sending API" % d,
                    sess.kind[d], sess.exp[d], r.store, r.closed, r.raised)
            for sid in st.order:
                if len(st.data[sid]) > 4 and sess.kind[d].get(sid) in ("qpack-enc",):
                    bump("dynamic_table_insertions")
            for lst in r.store.values():
                for it in lst:
                    if it[0] == "P":
                        bump("push_promise_received")
                    elif it[0] == "W":
                        bump("webtransport_data_received")
                    elif it[0] == "G":
                        bump("datagram_received")
                    elif it[0] == "H" and it[2] is not None:
                        bump("pushed_response_received")

        if variant == "random":
            for d, st, rc, enc in dirs:
                for rep in range(3):
                    sch = random_schedule(ch, st, enc, "-%s-%d" % (d, rep))
                    if sch != canonical_schedule(st):
                        nontrivial[0] = True
                    sigs.append(sched_sig(sch))
                    r = deliver(rc, sess.wt, sch, local[d])
                    account(r, d)
                    compare("c14.chunking", "%s schedule #%d vs. canonical delivery" % (d, rep), sess.kind[d],
                            canon[d].store, r.store, r.closed, r.raised,
                            "(deliveries: %s)" % _short(sched_sig(sch)))

        elif variant == "exhaustive_short":
            pick = ch.stream("target")
            cands = [(d, sid) for d, st, _, _ in dirs for sid in st.order
                     if 2 <= len(st.data[sid]) <= 12 or (len(st.data[sid]) == 1 and st.fin[sid])]
            if cands:
                kinds_present = sorted(set(sess.kind[d].get(sid, "?") for d, sid in cands))
                want_kind = kinds_present[pick.weighted([
                    {"control": 1, "qpack-enc": 2}.get(k, 5) for k in kinds_present])]
                cands = [c for c in cands if sess.kind[c[0]].get(c[1], "?") == want_kind]
                d, sid = cands[pick.choose(len(cands))]
                _, st, rc, enc = [x for x in dirs if x[0] == d][0]
                data = st.data[sid]
                n = len(data)
                kind = sess.kind[d].get(sid, "?")
                info["target"] = {"dir": d, "stream": sid, "kind": kind, "bytes": data.hex(), "fin": st.fin[sid]}
                bump("exhaustive_target_" + kind)
                # where the pieces of the target go relative to the other (whole) streams
                others = [("s", o, st.data[o], st.fin[o]) for o in st.order if o != sid and (st.data[o] or st.fin[o])]
                others += [("d", g) for g in st.datagrams]
                place = pick.weighted([2, 2, 2])
                first = pick.choose(len(others) + 1)
                sigs.append((d, sid, data, place, first))
                for mask in range(1 << (n - 1)):
                    for fin_alone in ((False, True) if st.fin[sid] else (False,)):
                        pieces = [("s", sid, c, f) for c, f in
                                  chunks_of(data, cuts_from_mask(n, mask), st.fin[sid], fin_alone)]
                        if place == 0:  # contiguous at a drawn position
                            sch = others[:first] + pieces + others[first:]
                        elif place == 1:  # one piece between each pair of other deliveries, from that position
                            sch = list(others[:first])
                            rest = others[first:]
                            for i, p in enumerate(pieces):
                                sch.append(p)
                                if i < len(rest):
                                    sch.append(rest[i])
                            sch.extend(rest[len(pieces):])
                        else:  # everything else first (for a request: after the encoder stream), pieces last
                            sch = others + pieces if first % 2 == 0 else pieces + others
                        r = deliver(rc, sess.wt, sch, local[d])
                        account(r, d)
                        extra["splittings_checked"] += 1
                        nontrivial[0] = True
                        compare("c14.chunking", "%s stream %d (%s, %s%s) split %s vs. canonical delivery" % (
                            d, sid, kind, data.hex(), "+FIN" if st.fin[sid] else "",
                            [len(p[2]) for p in pieces] + (["FIN alone"] if fin_alone else [])),
                            sess.kind[d], canon[d].store, r.store, r.closed, r.raised)
            else:
                bump("exhaustive_no_short_stream")

        elif variant == "truncated":
            pick = ch.stream("target")
            d, st, rc, enc = dirs[pick.choose(2)]
            cands = [sid for sid in st.order if len(st.data[sid]) >= 1]
            sid = cands[pick.choose(len(cands))]
            n = len(st.data[sid])
            kind = sess.kind[d].get(sid, "?")
            if n <= 24:
                ks = list(range(n))
            else:
                kset = set()
                for b in st.bounds[sid]:
                    for dlt in (-1, 0, 1, 2, 3):
                        if 0 <= b + dlt < n and pick.chance(0.5):
                            kset.add(b + dlt)
                for _ in range(8):
                    kset.add(pick.choose(n))
                ks = sorted(kset)[:24]
            info["target"] = {"dir": d, "stream": sid, "kind": kind, "len": n, "cuts": ks}
            bump("truncated_target_" + kind)
            first_v = None
            for k in ks:
                t = Streams([])
                t.order = st.order
                t.data = dict(st.data)
                t.fin = dict(st.fin)
                t.bounds = dict(st.bounds)
                t.datagrams = st.datagrams
                t.data[sid] = st.data[sid][:k]
                t.fin[sid] = True
                t.bounds[sid] = [b for b in st.bounds[sid] if b < k] or [0]
                rc0 = deliver(rc, sess.wt, canonical_schedule(t), local[d])
                account(rc0, d)
                v0 = verdict(rc0)
                extra["truncated_cases"] += 1
                if rc0.raised:
                    extra["truncated_raised"] += 1
                if rc0.closed:
                    extra["truncated_closed"] += 1
                    states.add(("truncated-close", kind, rc0.closed[0]))
                for rep in range(2):
                    sch = target_schedule(ch, t, sid, "-trunc")
                    nontrivial[0] = True
                    sigs.append((k, sched_sig(sch)))
                    r = deliver(rc, sess.wt, sch, local[d])
                    account(r, d)
                    v = verdict(r)
                    if v != v0:
                        extra["truncated_chunk_dependent"] += 1
                        if first_v is None:
                            where = frame_where(st, sess.kind[d], sid, k)
                            if v0[0] != v[0] or v0[0] != "open":
                                def vb(vv, rr):
                                    if vv[0] == "closed":
                                        return "closed+%s(%s)" % (vv[1], rr.closed[1][:40])
                                    return "+".join(vv[:2]) if vv[0] != "open" else "open"

                                sym = "%s-vs-%s" % (vb(v0, rc0), vb(v, r))
                                msg = "whole: %s %s, chunked: %s %s" % (
                                    _short(v0[:2]), rc0.closed or "", _short(v[:2]), r.closed or "")
                            else:
                                sym, msg = "events", ""
                                for key in sorted(set(v0[1]) | set(v[1]), key=str):
                                    a, b = v0[1].get(key, []), v[1].get(key, [])
                                    if a != b:
                                        sym, msg = describe_diff(sess.kind[d].get(key, "?"), key, a, b)
                                        sym = "events:" + sym.split("/", 1)[1]
                                        break
                            if kind in ("request", "response", "push"):
                                where = where.split("/", 1)[1]  # the same parser serves the three kinds
                            first_v = Violation(
                                "c14.truncated-chunk-dependent", "%s/%s" % (where, sym),
                                "%s stream %d (%s) = first %d of %d bytes (%s) then FIN: the outcome depends on the "
                                "chunking. %s. Whole streams in sender order vs. deliveries %s" % (
                                    d, sid, kind, k, n, st.data[sid][max(0, k - 24):k].hex(), msg,
                                    _short(sched_sig(sch))))
                        break
            if first_v is not None:
                raise first_v
        reason = "done"
    except Violation as v:
        out.violation = violation_dict(v)
        reason = "violation"
    out.summary = {
        "reason": reason, "steps": extra["deliveries"], "sim_time": 0.0, "fired": {}, "probes": probes,
        "states": states, "extra": extra, "digest": dig.hexdigest()[:32], "inconclusive": False, "aborted": False,
    }
    # the set of choice streams must not depend on where a run stopped (the shrinker iterates
    # over the names of the run it started from)
    for name in ["config", "script", "headers", "target", "split-trunc", "order-trunc"] + [
            "%s-%s-%d" % (a, d, i) for a in ("split", "order") for d in ("c2s", "s2c") for i in range(3)]:
        ch.stream(name)
    out.choices = ch.dump()
    out.nontrivial = nontrivial[0]
    out.signature = stable_hash((variant, dig.hexdigest(), sigs))
    out.sample = info
    return out


def verdict(r):
    if r.raised is not None:
        return ("raised", r.raised)
    if r.closed is not None:
        return ("closed", "0x%x" % r.closed[0])
    return ("open", r.store)


def evidence_extra(tier, total):
    ex = total["extra"]
    return {
        "exhaustive": False,
        "note": "splittings_checked counts deliveries of the exhaustive_short variant (all 2^(n-1) splittings of "
                "one stream of <= 12 bytes per run); truncated_* count the second class (streams cut by FIN)",
        "truncated_class": {"cases": ex.get("truncated_cases", 0),
                            "chunk_dependent": ex.get("truncated_chunk_dependent", 0),
                            "closed_connection": ex.get("truncated_closed", 0),
                            "raised": ex.get("truncated_raised", 0)},
    }
