"""Boilerplate shared by the transport-sim checks."""
COMPONENTS_TRANSPORT = {
    "real": ["QuicConnection x2 (client, server) incl. recovery, congestion control, packet builder, streams, "
             "crypto pairs, tls.Context", "_crypto/_buffer C helpers rebuilt from the working tree"],
    "stub": ["network (SimNetwork)", "clocks and timers (Kernel)", "scripted application",
             "server front-end (accept on first full-size Initial)"],
    "independent_reference": ["wire/ (RFC 9000/9001/9369 codec and packet protection, no aioquic imports) used by the "
                              "WireMonitor to decrypt and decode every datagram as sent"],
}
ASSUMPTIONS_TRANSPORT = [
    "sampling, not proof: a clean batch is evidence only for the seeds drawn",
    "cryptography/OpenSSL are trusted; the independent wire/ stack shares those primitives but not _crypto.c",
    "the scripted application uses the public API only as documented",
    "knowledge credited to an endpoint at DELIVERY of the carrying packet (superset of what it processed), so the "
    "oracle can only be more permissive than a correct endpoint",
]


def plan(quick_s, thorough_s, variants):
    return {"quick": {"budget_s": quick_s, "max_runs": 10 ** 7, "variants": variants},
            "thorough": {"budget_s": thorough_s, "max_runs": 10 ** 9, "variants": variants}}
