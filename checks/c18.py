"""C18 Connection-ID lifecycle honours the peer's instructions."""
from checks._common import ASSUMPTIONS_TRANSPORT, COMPONENTS_TRANSPORT, plan
from sim.forger import Forger
from sim.goals import DeliveryGoal, incomplete_streams
from sim.harness import run_transport
from sim.kernel import Violation
from sim.transport import EndpointBroken, Oracle
from wire import frames as wf

PROPERTY = "C18"
NAME = "c18"
LEVEL = "exploration"
RULE = ("variant honest: C01-style lossy runs in which both applications call change_connection_id() often; judged on the "
        "decrypted wire: an endpoint never addresses a packet to a peer CID after it announced its retirement, never has "
        "more issued-and-unretired CIDs than the peer allows (8), every RETIRE_CONNECTION_ID it owes eventually reaches "
        "the peer (again after loss) and every CID the peer retired is replaced by a new one. variant forged: after a "
        "handshake the peer is silenced and a key-holding forger plays a seeded HISTORY of NEW_CONNECTION_ID (any "
        "sequence number, retire-prior-to, duplicates, reordering) and RETIRE_CONNECTION_ID frames and probes every CID "
        "the target issued; once the target has acknowledged a packet carrying retire-prior-to N every later packet "
        "carries a destination CID of sequence >= N and a RETIRE_CONNECTION_ID for each abandoned CID appears; exceeding "
        "the advertised active_connection_id_limit gets CONNECTION_ID_LIMIT_ERROR, staying within it is not accused; a "
        "packet addressed to any issued, unretired CID is acknowledged; retired CIDs are replaced. non-trivial = at "
        "least one CID change / forged CID frame; distinct = hash of schedule + CID frame history")
ASSUMPTIONS = ASSUMPTIONS_TRANSPORT + [
    "a forged frame counts as processed once the target acknowledged the packet that carried it",
    "both endpoints advertise active_connection_id_limit 8 (aioquic's constant), read from the configuration",
]
COMPONENTS = COMPONENTS_TRANSPORT
PLAN = plan(60, 900, ["honest", "honest", "forged", "forged", "resumed"])

OPS = {"write": 6, "fin": 2, "reset": 0.5, "stop": 0.5, "ping": 1.0, "key_update": 0.5, "change_cid": 7.0}
PROFILES = {
    "honest": {"faults": ("drop", "dup", "delay", "blackout", "timer-late"), "op_weights": OPS, "max_ops": 24,
               "cid_lengths": (8, 4, 5, 12, 20)},
    "forged": {"fault_free": True, "max_ops": 4, "fair_budget": 60.0, "versions": True, "idle_timeouts": (600.0,),
               "cid_lengths": (8, 4, 5, 12, 20)},
}
LIMIT = 8


class HonestOracle(Oracle):
    def __init__(self, limits=None):
        self.st = {}
        self.n_switch = 0
        self.limits = limits or {}  # endpoint name -> active_connection_id_limit its PEER advertises (default LIMIT)

    def on_start(self, sim):
        self.sim = sim
        for ep in sim.endpoints:
            self.st[ep.name] = {
                "issued": {},  # seq -> cid issued BY this endpoint (NEW_CONNECTION_ID frames it sent)
                "retire_sent": {},  # seq (of peer CIDs) -> first time a RETIRE for it left this endpoint
                "retire_delivered_to_me": set(),  # seqs of MY cids the peer retired (delivered to me)
                "peer_cid_by_bytes": {},  # cid bytes -> seq, for CIDs the PEER issued (from frames delivered to me)
                "dcid_last": None,
            }

    def on_datagram_sent(self, ep, dgram):
        s = self.st[ep.name]
        peer = self.st[ep.peer.name]
        for p in dgram.meta or []:
            if p.opaque:
                continue
            if p.ptype == "1rtt":
                seq = s["peer_cid_by_bytes"].get(bytes(p.dcid))
                if seq is not None and seq in s["retire_sent"] and not any(
                        f.type == wf.RETIRE_CONNECTION_ID and f["seq"] == seq for f in p.frames):
                    if self.sim.k.now > s["retire_sent"][seq]:
                        raise Violation("c18.retired-cid-used", "dcid-of-retired-seq",
                                        "%s addressed 1-RTT packet #%d to peer connection ID seq %d after announcing its "
                                        "retirement at t=%.4f" % (ep.name, p.pn, seq, s["retire_sent"][seq]))
                if s["dcid_last"] is not None and bytes(p.dcid) != s["dcid_last"]:
                    self.n_switch += 1
                s["dcid_last"] = bytes(p.dcid)
            for f in p.frames:
                if f.type == wf.NEW_CONNECTION_ID:
                    s["issued"][f["seq"]] = bytes(f["cid"])
                    active = len(s["issued"]) + 1 - len(s["retire_delivered_to_me"])
                    limit = self.limits.get(ep.name, LIMIT)
                    if active > limit:
                        raise Violation("c18.issued-too-many", "active-cids-beyond-peer-limit",
                                        "%s has issued %d connection IDs of which the peer retired %d: %d active, the "
                                        "peer allows %d" % (ep.name, len(s["issued"]) + 1,
                                                            len(s["retire_delivered_to_me"]), active, limit))
                elif f.type == wf.RETIRE_CONNECTION_ID:
                    s["retire_sent"].setdefault(f["seq"], self.sim.k.now)

    def on_datagram_delivered(self, ep, dgram, copy_index):
        s = self.st[ep.name]
        for p in dgram.meta or []:
            if p.opaque or p.pn is None:
                continue
            for f in p.frames:
                if f.type == wf.NEW_CONNECTION_ID:
                    s["peer_cid_by_bytes"][bytes(f["cid"])] = f["seq"]
                elif f.type == wf.RETIRE_CONNECTION_ID:
                    s["retire_delivered_to_me"].add(f["seq"])

    def goal_reached(self):
        # do not stop the run while a retirement is still owed (its retransmission may be waiting for
        # a backed-off probe timeout): liveness is judged at quiescence or at the end of the fair budget
        for ep in self.sim.endpoints:
            s = self.st[ep.name]
            peer = self.st[ep.peer.name]
            if any(seq not in peer["retire_delivered_to_me"] for seq in s["retire_sent"]):
                return False
            if ep.handshake_complete and len(s["issued"]) < 7 + len(s["retire_delivered_to_me"]):
                return False
        return True

    def at_end(self, reason):
        sim = self.sim
        if reason in ("step-cap", "api-exception") or incomplete_streams(sim):
            return
        if any(e.terminated or e.crashed for e in sim.endpoints):
            return
        for ep in sim.endpoints:
            s = self.st[ep.name]
            peer = self.st[ep.peer.name]
            for seq in s["retire_sent"]:
                if seq not in peer["retire_delivered_to_me"]:
                    raise Violation("c18.retire-lost", "retire-never-delivered",
                                    "%s announced retirement of peer CID seq %d at t=%.3f; no RETIRE_CONNECTION_ID for it "
                                    "was ever delivered to the peer although the network has been fair since t=%.2f "
                                    "(run ended %s at t=%.2f)" % (ep.name, seq, s["retire_sent"][seq],
                                                                 sim.cfg["t_fair"], reason, sim.k.now))
            need = self.limits.get(ep.name, LIMIT) - 1 + len(s["retire_delivered_to_me"])
            if ep.handshake_complete and len(s["issued"]) < need:
                raise Violation("c18.not-replaced", "retired-cid-not-replaced",
                                "%s issued %d new connection IDs in total, the peer retired %d of its IDs: %d expected "
                                "so that 8 stay active" % (ep.name, len(s["issued"]), len(s["retire_delivered_to_me"]),
                                                          need))


class ForgedOracle(Oracle):
    def __init__(self, mon):
        self.mon = mon
        self.started = False
        self.total = 0
        self.step_n = 0
        self.last_at = 0.0
        self.history = []
        self.pending = []  # forged packets awaiting ack: dict(pn, kind, ...)
        self.processed_rpt = 0
        self.expect_close = None
        self.n_probe = 0
        self.withhold = False
        self.withheld = set()
        self.retire_copies = {}
        self.retire_lost_at = {}

    def on_start(self, sim):
        self.sim = sim
        self.ch = sim.ch.stream("c18")
        self.forger = Forger(sim, self.mon)
        sim.k.at(sim.cfg["t_fair"] + 3.0, self.begin, tag="app")

    def goal_reached(self):
        return self.started and (self.step_n >= self.total or self.target.terminated) and \
            self.sim.k.now > self.last_at + 1.5

    def begin(self):
        sim = self.sim
        self.started = True
        self.last_at = sim.k.now
        c, s = sim.client, sim.server
        self.target = s if s.conn is not None else c
        if not (c.handshake_complete and s.handshake_complete) or c.terminated or s.terminated or s.conn is None:
            return
        self.target = sim.endpoints[self.ch.choose(2)]
        self.peer = self.target.peer
        self.peer.crashed = True
        if self.peer.timer_ev is not None:
            self.peer.timer_ev.cancelled = True
        # let everything the real peer still has in flight arrive before the forger takes over
        self.total = 1
        self.last_at = sim.k.now + 1.0
        sim.k.after(1.0, self.begin2, tag="app")

    def begin2(self):
        sim = self.sim
        if self.target.terminated or self.target.conn._state.name != "CONNECTED":
            self.total = 0
            return
        self.clen = self.peer.config.connection_id_length
        # CIDs the silenced peer had issued so far (seen on the wire by the monitor: we kept none, so
        # read the target's own table once: this is the state at takeover, not an oracle)
        conn = self.target.conn
        self.mine = {conn._peer_cid.sequence_number: bytes(conn._peer_cid.cid)}  # seq -> cid, issued by "peer"
        for c_ in conn._peer_cid_available:
            self.mine[c_.sequence_number] = bytes(c_.cid)
        self.model_current = conn._peer_cid.sequence_number
        self.withhold = bool(self.ch.choose(2))
        self.switch_retired = set()
        self.cur_dcid = self.forger.current_dcid(self.peer)
        self.next_seq = max(self.mine) + 1
        self.retired_by_target = set(conn._retire_connection_ids)  # RETIREs it still owes
        self.retire_seen = set()
        self.max_rpt_sent = 0
        self.target_issued = {}  # seq -> cid issued by the target (probe targets)
        for h in conn._host_cids:
            self.target_issued[h.sequence_number] = bytes(h.cid)
        self.target_retired_by_me = set()
        self.dcid_violation = None
        self.total = 6 + self.ch.choose(30)
        self.step()

    def acks(self):
        """ACK what the target sent, EXCEPT (in withholding runs) the packet that carried the first copy
        of each RETIRE_CONNECTION_ID: that packet is 'lost', so the retirement must be announced again."""
        largest = self.mon.state[self.target.name].largest["app"]
        if largest < 0:
            return b""
        holes = sorted(pn for pn in self.withheld if pn <= largest)
        ranges, lo = [], 0
        for pn in holes:
            if pn - 1 >= lo:
                ranges.append((lo, pn - 1))
            lo = pn + 1
        if lo <= largest:
            ranges.append((lo, largest))
        return wf.encode_ack(ranges, 0) if ranges else b""

    def active_after(self, seq, rpt, cid):
        """model of the set of CIDs the target must hold after processing NCID(seq, rpt)"""
        mine = dict(self.model_active)
        r = max(self.model_rpt, rpt)
        if seq >= r and seq not in self.model_seen:
            mine[seq] = cid
        mine = {k: v for k, v in mine.items() if k >= r}
        return mine, r

    def step(self):
        sim = self.sim
        t = self.target
        if t.terminated or t.broken or self.step_n >= self.total:
            return
        if t.conn._state.name != "CONNECTED":
            return
        if not hasattr(self, "model_active"):
            self.model_active = dict(self.mine)
            self.model_seen = set(self.mine)
            self.model_rpt = 0
        self.step_n += 1
        kind = self.ch.weighted([5, 2, 3])
        desc = None
        expect_close = False
        if kind == 0:
            mode = self.ch.choose(7)
            gaps = [q for q in range(min(self.mine), self.next_seq) if q not in self.model_seen and q not in self.mine] \
                if mode == 6 else []
            if mode == 0 and self.model_seen:  # duplicate of an earlier frame
                seq = sorted(self.model_seen)[self.ch.choose(len(self.model_seen))]
                cid = self.mine.get(seq, bytes([seq & 0xFF]) * self.clen)
                rpt = min(self.ch.choose(seq + 1), seq)
            elif gaps:  # a frame that was overtaken: a sequence number below ones already delivered
                seq = gaps[self.ch.choose(len(gaps))]
                cid = bytes([(seq * 7 + 3) & 0xFF]) * (self.clen - 1) + bytes([seq & 0xFF]) if self.clen > 1 else bytes(
                    [seq & 0xFF])
                rpt = min((0, 0, self.model_rpt)[self.ch.choose(3)], seq)
            else:
                seq = self.next_seq + (0, 0, 0, 1, 3)[self.ch.choose(5)]
                cid = bytes([(seq * 7 + 3) & 0xFF]) * (self.clen - 1) + bytes([seq & 0xFF]) if self.clen > 1 else bytes(
                    [seq & 0xFF])
                rpt = (0, 0, self.model_rpt, seq, max(seq - 1, 0), max(seq - 3, 0))[self.ch.choose(6)]
                rpt = min(rpt, seq)
                self.next_seq = max(self.next_seq, seq + 1)
            self.mine.setdefault(seq, cid)
            active, r = self.active_after(seq, rpt, self.mine[seq])
            expect_close = len(active) > LIMIT
            payload = wf.encode_new_connection_id(seq, rpt, self.mine[seq], bytes(16))
            desc = ("NCID", seq, rpt)
            info = {"kind": "ncid", "seq": seq, "rpt": rpt, "active": active, "r": r, "close": expect_close}
        elif kind == 1:
            # retire one of the target's CIDs (never the one this packet is addressed to)
            cands = sorted(k for k in self.target_issued if k not in self.target_retired_by_me)
            cands = [k for k in cands if self.target_issued[k] != self.cur_dcid]
            if not cands:
                self.sim.k.after(0.01, self.step, tag="app")
                return
            seq = cands[self.ch.choose(len(cands))]
            payload = wf.encode_retire_connection_id(seq)
            desc = ("RETIRE", seq)
            info = {"kind": "retire", "seq": seq}
        else:
            # probe: a PING addressed to one of the CIDs the target issued and we have not retired
            cands = sorted(k for k in self.target_issued if k not in self.target_retired_by_me)
            seq = cands[self.ch.choose(len(cands))]
            payload = wf.encode_ping()
            desc = ("PROBE", seq)
            info = {"kind": "probe", "seq": seq, "dcid": self.target_issued[seq]}
            self.n_probe += 1
        dcid = info.get("dcid") or self.cur_dcid
        if dcid != self.cur_dcid:
            self.cur_dcid = dcid
            if not t.is_client and len(self.model_active) > 1:
                # a server that sees its peer switch to another of its CIDs switches too: it retires
                # the peer CID it was using and takes the next one (RFC 9000 5.1.2 / 9.5)
                cur = self.model_current if self.model_current in self.model_active else next(iter(self.model_active))
                del self.model_active[cur]
                self.model_current = next(iter(self.model_active))
                self.switch_retired.add(cur)
        pn = self.forger.next_pn(self.peer, "app")
        pkt = self.forger.build(self.peer, "1rtt", self.acks() + payload, pn=pn, dcid=dcid)
        if pkt is None:
            self.total = self.step_n
            return
        info["pn"] = pn
        info["t"] = sim.k.now
        self.history.append(desc)
        self.pending.append(info)
        d = self.forger.inject(t, pkt, src=self.peer.addr, tag="forged-c18")
        try:
            t.on_datagram(d, 0)
        except EndpointBroken:
            return
        conn = t.conn
        closing = conn._state.name != "CONNECTED" or conn._close_pending
        code = conn._close_event.error_code if conn._close_event is not None else None
        if info["kind"] == "ncid":
            # (a frame that leaves the target without any usable connection ID - everything it holds is below
            # Retire Prior To and the repeated ID was already used up - may be answered by closing: RFC 9000
            # 5.1.2 "if the endpoint can no longer process the indicated connection IDs, it MAY close")
            if closing and not info["close"] and len(info["active"]) > 0:
                raise Violation("c18.accused", "closed-0x%x-within-limit" % (code or 0),
                                "NEW_CONNECTION_ID(seq=%d, retire_prior_to=%d) leaves %d active connection IDs (limit "
                                "%d), yet the %s closed with 0x%x %r; history %s" % (
                                    info["seq"], info["rpt"], len(info["active"]), LIMIT, t.name, code or 0,
                                    getattr(conn._close_event, "reason_phrase", ""), self.history[-8:]))
            if info["close"] and not closing:
                raise Violation("c18.limit-not-enforced", "more-than-limit-accepted",
                                "NEW_CONNECTION_ID(seq=%d, retire_prior_to=%d) makes %d active connection IDs, beyond the "
                                "advertised active_connection_id_limit %d, but the %s did not close; history %s" % (
                                    info["seq"], info["rpt"], len(info["active"]), LIMIT, t.name, self.history[-8:]))
            if info["close"] and closing and code != 0x9:
                raise Violation("c18.limit-not-enforced", "wrong-error-0x%x" % (code or 0),
                                "expected CONNECTION_ID_LIMIT_ERROR, got 0x%x" % (code or 0))
            if not closing:
                self.model_active, self.model_rpt = info["active"], info["r"]
                self.model_seen.add(info["seq"])
                if self.model_current not in self.model_active and self.model_active:
                    self.model_current = next(iter(self.model_active))
        elif closing and info["kind"] in ("retire", "probe"):
            raise Violation("c18.accused", "closed-0x%x-on-%s" % (code or 0, info["kind"]),
                            "%s closed with 0x%x %r after %s; history %s" % (
                                t.name, code or 0, getattr(conn._close_event, "reason_phrase", ""), desc,
                                self.history[-8:]))
        elif info["kind"] == "retire":
            self.target_retired_by_me.add(info["seq"])
        self.last_at = sim.k.now
        sim.k.after(0.05, self.step, tag="app")

    # ---------------------------------------------------------------- the wire
    def on_datagram_sent(self, ep, dgram):
        if not self.started or self.total == 0 or ep is not self.target or not hasattr(self, "mine"):
            return
        for p in dgram.meta or []:
            if p.opaque:
                self.total = self.step_n
                continue
            if p.ptype != "1rtt":
                continue
            acked = []
            for f in p.frames:
                if f.type in (wf.ACK, wf.ACK_ECN):
                    for info in self.pending:
                        if any(lo <= info["pn"] <= hi for lo, hi in f["ranges"]):
                            acked.append(info)
                elif f.type == wf.RETIRE_CONNECTION_ID:
                    self.retire_seen.add(f["seq"])
                    n = self.retire_copies.get(f["seq"], 0) + 1
                    self.retire_copies[f["seq"]] = n
                    if n == 1 and self.withhold:
                        self.withheld.add(p.pn)
                        self.retire_lost_at[f["seq"]] = self.step_n
                elif f.type == wf.NEW_CONNECTION_ID:
                    self.target_issued[f["seq"]] = bytes(f["cid"])
            for info in acked:
                if info in self.pending:
                    self.pending.remove(info)
                    info["acked"] = True
                    if info["kind"] == "ncid":
                        self.processed_rpt = max(self.processed_rpt, info["rpt"])
            # destination CID of this packet must be of sequence >= processed retire-prior-to
            seq = None
            for k, v in self.mine.items():
                if v == bytes(p.dcid):
                    seq = k if seq is None else min(seq, k)
            if seq is not None and seq < self.processed_rpt:
                raise Violation("c18.retire-prior-to", "dcid-below-retire-prior-to",
                                "%s acknowledged a NEW_CONNECTION_ID with retire_prior_to=%d, yet its packet #%d is "
                                "addressed to the connection ID of sequence %d; history %s" % (
                                    ep.name, self.processed_rpt, p.pn, seq, self.history[-8:]))

    def at_end(self, reason):
        if not self.started or self.total == 0 or reason in ("step-cap", "api-exception"):
            return
        t = self.target
        if t.terminated or t.conn._state.name != "CONNECTED":
            return
        # a RETIRE_CONNECTION_ID whose packet was never acknowledged (the forger withheld the ACK and
        # acknowledged at least 6 later steps' packets) must have been announced again
        for seq, at_step in self.retire_lost_at.items():
            if self.step_n - at_step >= 8 and self.retire_copies.get(seq, 0) < 2:
                raise Violation("c18.retire-not-repeated", "retire-not-resent-after-loss",
                                "the packet carrying RETIRE_CONNECTION_ID(seq=%d) was never acknowledged (later packets "
                                "were), yet the %s did not announce the retirement again; history %s" % (
                                    seq, t.name, self.history[-10:]))
        # every CID the target had to abandon must have been announced as retired
        known_before = set(k for k in self.model_seen)
        for seq in sorted(known_before):
            if seq < self.processed_rpt and seq not in self.retire_seen and seq in self.held_at_some_point():
                raise Violation("c18.retire-not-announced", "abandoned-cid-without-retire",
                                "%s abandoned peer connection ID seq %d (retire_prior_to %d was acknowledged) but never "
                                "sent RETIRE_CONNECTION_ID for it; history %s" % (t.name, seq, self.processed_rpt,
                                                                                 self.history[-10:]))
        # probes to issued, unretired CIDs must have been acknowledged
        for info in self.pending:
            if info["kind"] == "probe" and info["seq"] not in self.target_retired_by_me and \
                    self.sim.k.now - info["t"] > 1.0:
                raise Violation("c18.issued-cid-rejected", "probe-not-acknowledged",
                                "a valid packet addressed to connection ID seq %d, which the %s issued and the peer never "
                                "retired, was not acknowledged" % (info["seq"], t.name))
        # retired CIDs are replaced
        active = [k for k in self.target_issued if k not in self.target_retired_by_me]
        if self.target_retired_by_me and len(active) < LIMIT:
            raise Violation("c18.not-replaced", "retired-cid-not-replaced",
                            "the peer retired %d of the %s's connection IDs; only %d are active now (expected %d)" % (
                                len(self.target_retired_by_me), t.name, len(active), LIMIT))

    def held_at_some_point(self):
        # CIDs that were active in the model at some time (accepted frames only)
        return self.model_seen


def run_one(seed, tier="quick", variant=None, replay=None):
    variant = variant or "honest"
    holder = {}

    if variant == "resumed":
        # the restart fault: the second connection resumes with 0-RTT against a server that now advertises a
        # smaller active_connection_id_limit than the one remembered with the ticket (set on the server's side
        # right after construction: what its transport parameters carry)
        from sim.harness import run_resumed

        small = (2, 3, 4)[seed % 3]

        def post_create(sim, ep):
            if not ep.is_client:
                ep.conn._local_active_connection_id_limit = small

        def make2(mon):
            holder["h"] = HonestOracle(limits={"client": small})
            return [holder["h"], DeliveryGoal()]

        prof2 = dict(PROFILES["honest"], post_create=post_create, t_adv_max=3.0)
        out = run_resumed(seed, replay, prof2, make2, variant, early_writes=[(300, False)])
        out.nontrivial = True
        return out

    def make(mon):
        if variant == "honest":
            holder["h"] = HonestOracle()
            return [holder["h"], DeliveryGoal()]
        holder["f"] = ForgedOracle(mon)
        return [holder["f"]]

    def extra(sim, s):
        h = holder.get("h")
        if h is not None:
            s["probes"]["dcid_switches"] = h.n_switch
            s["extra"]["retire_frames_owed"] = sum(len(x["retire_sent"]) for x in h.st.values())
        f = holder.get("f")
        if f is not None:
            s["extra"]["forged_cid_frames"] = len(f.history)
            s["probes"]["probes_to_issued_cids"] = f.n_probe
            s["probes"]["processed_retire_prior_to>0"] = 1 if f.processed_rpt else 0

    out = run_transport(seed, PROFILES[variant], make, replay=replay, monitor=True, variant=variant,
                        extra_summary=extra)
    h, f = holder.get("h"), holder.get("f")
    if h is not None:
        out.nontrivial = h.n_switch > 0
    if f is not None:
        out.nontrivial = len(f.history) >= 3
        from sim.runner import stable_hash

        out.signature = stable_hash(f.history)
    return out
