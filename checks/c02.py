"""C02 Only authentic packets are accepted; altered packets change nothing."""
from checks._common import ASSUMPTIONS_TRANSPORT, COMPONENTS_TRANSPORT
from checks.c01 import C01Oracle
from sim.forger import Forger
from sim.goals import DeliveryGoal
from sim.harness import run_transport
from sim.kernel import Violation
from sim.transport import EndpointBroken, Oracle
from wire import crypto as wc
from wire import frames as wf

PROPERTY = "C02"
NAME = "c02"
LEVEL = "exploration"
RULE = (
    "variant roundtrip: C01-style lossy runs over all cipher suites, both versions, key updates; EVERY packet emitted "
    "is opened by the independent RFC 9001/9369 stack keyed from the sender's secrets log and re-protected; the "
    "result must equal the wire bytes (an unopenable packet is a violation), and delivery must still complete. "
    "variant alter: at seeded points of such runs, before a genuine datagram is delivered, altered copies of one of "
    "its packets (bit flips / byte overwrites in header, packet number, payload head and tail, tag, or anywhere) are "
    "delivered as their own datagrams; each must leave events, handshake progress (TLS state, crypto offsets, keys), "
    "delivered stream offsets and closing state unchanged; the run then continues to the delivery verdict. "
    "variant alter_exhaustive (fault_enumeration inside the run): every single bit and every byte x 3 masks of one "
    "packet. variant pnlen: after a handshake the real client is silenced and a key-holding forger sends valid PING "
    "packets with packet-number jumps across every window boundary in each of the four packet-number lengths; the "
    "server must acknowledge exactly those whose truncation decodes (RFC 9000 A.3, independent decoder) to the real "
    "number. variant retry: the same alterations applied to Retry packets (built by the independent codec). "
    "non-trivial = at least one altered delivery / forged packet / fault; distinct = hash of schedule + alteration "
    "positions")
ASSUMPTIONS = ASSUMPTIONS_TRANSPORT + [
    "the 'no-op' comparison reads connection internals named by the property's mechanism (TLS state, crypto stream "
    "offsets, installed keys, stream receive offsets, connection state); amplification credit and the idle timer "
    "legitimately change on dropped packets and are not compared",
    "persistent poisoning by an altered packet is caught through the delivery verdict at the end of the run; a single "
    "transiently rejected genuine packet would be masked by retransmission",
]
COMPONENTS = COMPONENTS_TRANSPORT
PLAN = {
    "quick": {"budget_s": 75, "max_runs": 10 ** 7, "variants": ["roundtrip", "alter", "alter", "pnlen", "retry"]},
    "thorough": {"budget_s": 1200, "max_runs": 10 ** 9,
                 "variants": ["roundtrip", "alter", "alter_exhaustive", "pnlen", "retry"]},
}

FAULTS = ("drop", "dup", "delay", "blackout", "timer-late", "clock")
PROFILES = {
    "roundtrip": {"faults": FAULTS, "op_weights": {"write": 10, "fin": 3, "reset": 1, "stop": 1, "ping": 1.5,
                                                   "key_update": 4.0, "change_cid": 1.0}},
    "alter": {"faults": FAULTS},
    "alter_exhaustive": {"faults": ("drop", "delay"), "max_ops": 6},
    "pnlen": {"fault_free": True, "max_ops": 3, "fair_budget": 40.0, "versions": True},
    "retry": {"faults": ("drop", "dup", "delay"), "retry_p": 1.0, "max_ops": 5},
}


def snapshot(conn):
    """What the property says an altered packet must not change (white box, read only)."""
    tls = getattr(conn, "tls", None)
    cryptos = getattr(conn, "_cryptos", {}) or {}
    # A corrupted first Initial legitimately makes a fresh server prepare its (public) Initial
    # keys and TLS context while staying in its first state: not handshake progress.
    tls_state = "START"
    if tls is not None and tls.state.name not in ("SERVER_EXPECT_CLIENT_HELLO",):
        tls_state = tls.state.name
    return (
        conn._state,
        conn._close_pending,
        repr(conn._close_event),
        tls_state,
        conn._handshake_complete,
        conn._handshake_confirmed,
        len(conn._events),
        tuple(sorted((sid, s.receiver._buffer_start, s.receiver.is_finished) for sid, s in conn._streams.items())),
        tuple(sorted((int(e.value), s.receiver._buffer_start) for e, s in conn._crypto_streams.items()
                     if s.receiver._buffer_start)),
        tuple(sorted((int(e.value), c.recv.is_valid(), c.send.is_valid(), c.recv.key_phase) for e, c in
                     cryptos.items() if e.name != "INITIAL" and (c.recv.is_valid() or c.send.is_valid()))),
        conn._retry_count,
    )


SNAP_NAMES = ("connection state", "close pending", "close event", "TLS state", "handshake complete",
              "handshake confirmed", "queued events", "stream receive offsets", "crypto receive offsets",
              "installed keys / key phase", "retry count")


class AlterOracle(Oracle):
    def __init__(self, mon, exhaustive=False, retry_only=False):
        self.mon = mon
        self.exhaustive = exhaustive
        self.retry_only = retry_only
        self.n_altered = 0
        self.n_points = 0
        self.regions = {}
        self.states = set()
        self.done_exhaustive = False
        self.positions = []

    def on_start(self, sim):
        self.sim = sim
        self.ch = sim.ch.stream("alter")

    def on_datagram_delivered(self, ep, dgram, copy_index):
        if ep.conn is None or ep.terminated or dgram.meta is None:
            return
        pkts = [p for p in dgram.meta if p.ptype in ("initial", "handshake", "0rtt", "1rtt", "retry")
                and getattr(p, "view", None) is not None]
        if self.retry_only:
            pkts = [p for p in pkts if p.ptype == "retry"]
        if not pkts:
            return
        if self.exhaustive:
            if self.done_exhaustive or not self.ch.chance(0.15):
                return
            self.done_exhaustive = True
        elif not self.retry_only and not self.ch.chance(0.25):
            return
        p = pkts[self.ch.choose(len(pkts))]
        raw = p.view.raw
        n = len(raw)
        self.n_points += 1
        st = (ep.name, p.ptype, str(ep.conn._state), ep.conn._handshake_complete, ep.conn._handshake_confirmed)
        self.states.add(st)
        if self.exhaustive:
            alterations = [(i, 1 << b) for i in range(n) for b in range(8)]
            alterations += [(i, m) for i in range(n) for m in (0xFF, 0x0F, 0xF0)]
        else:
            k = 1 + self.ch.choose(6)
            alterations = []
            hdr = (p.view.pn_offset or 1) + 4 if p.ptype != "retry" else n
            for _ in range(k):
                region = self.ch.choose(5)
                if region == 0:
                    pos = self.ch.choose(max(min(hdr, n), 1))
                    name = "header+pn"
                elif region == 1:
                    pos = min(hdr + self.ch.choose(32), n - 1)
                    name = "payload-head"
                elif region == 2:
                    pos = max(n - 1 - self.ch.choose(16), 0)
                    name = "tag"
                elif region == 3:
                    pos = max(n - 17 - self.ch.choose(32), 0)
                    name = "payload-tail"
                else:
                    pos = self.ch.choose(n)
                    name = "anywhere"
                self.regions[name] = self.regions.get(name, 0) + 1
                mask = (1 << self.ch.choose(8)) if self.ch.choose(3) else (1 + self.ch.choose(255))
                alterations.append((pos, mask))
        conn = ep.conn
        for pos, mask in alterations:
            altered = bytearray(raw)
            altered[pos] ^= mask
            if (altered[0] & 0x80) and bytes(altered[1:5]) == b"\x00\x00\x00\x00":
                # the alteration turned a long-header packet into a Version Negotiation packet,
                # which is unauthenticated by design (RFC 9000 6): not an "altered protected packet"
                continue
            data = bytes(altered)
            if p.ptype == "initial" and ep.peer.is_client and len(data) < 1200:
                data += b"\x00" * (1200 - len(data))  # datagram padding, as the client does
            before = snapshot(conn)
            self.sim.k.trace("altered", ep.name, p.ptype, pos, mask)
            ep.api("receive_datagram", data, dgram.src, ep.now())
            self.n_altered += 1
            after = snapshot(conn)
            if before != after:
                diff = [SNAP_NAMES[i] for i in range(len(before)) if before[i] != after[i]]
                raise Violation(
                    "c02.altered", "%s:%s" % (p.ptype, "+".join(diff)),
                    "%s accepted an altered %s packet (byte %d of %d xor 0x%02x): changed %s (before %r, after %r)" % (
                        ep.name, p.ptype, pos, n, mask, diff,
                        [before[i] for i in range(len(before)) if before[i] != after[i]],
                        [after[i] for i in range(len(before)) if before[i] != after[i]]))
            # (new events would show as a longer event queue in the snapshot; events queued by an
            # earlier transmit, e.g. ConnectionIdIssued, are left for the driver to pop)


class PnLenOracle(Oracle):
    """Forged valid packets with every packet-number length; acceptance observed as ACKs on the wire."""

    JUMPS = (1, 1, 2, 3, 100, 127, 128, 129, 255, 256, 257, 32767, 32768, 32769, 65535, 65536, 65537,
             (1 << 23) - 1, 1 << 23, (1 << 23) + 1, (1 << 24) + 1, (1 << 31) - 1, 1 << 31, (1 << 31) + 1, (1 << 32) + 5)

    def __init__(self, mon):
        self.mon = mon
        self.forged = []  # (pn, pn_len, expect_accept, time)
        self.acked = set()
        self.accepted_largest = None
        self.started = False
        self.n = 0
        self.delivered_largest = -1
        self.lens = {1: 0, 2: 0, 3: 0, 4: 0}
        self.expected_accept = 0
        self.expected_reject = 0

    def on_start(self, sim):
        self.sim = sim
        self.ch = sim.ch.stream("pnlen")
        self.forger = Forger(sim, self.mon)
        sim.k.at(sim.cfg["t_fair"] + 3.0, self.begin, tag="app")

    def goal_reached(self):
        return self.started and self.n >= self.total and self.sim.k.now > self.last_at + 0.5

    def begin(self):
        sim = self.sim
        c, s = sim.client, sim.server
        if not (c.handshake_complete and s.handshake_complete) or c.terminated or s.terminated or s.conn is None:
            self.total = 0
            self.started = True
            self.last_at = sim.k.now
            return
        # silence the real client: the forger continues in its name
        c.crashed = True
        if c.timer_ev is not None:
            c.timer_ev.cancelled = True
        self.total = 6 + self.ch.choose(20)
        self.started = True
        self.last_at = sim.k.now
        # what the client sent last may still be in flight (a bulk transfer over a slow path): the forger
        # starts once everything has arrived, from the largest number that was DELIVERED to the server
        sim.k.after(max(1.0, 4 * sim.cfg["latency"]), self.begin_forging, tag="app")

    def begin_forging(self):
        self.accepted_largest = max(self.delivered_largest, 0)
        self.base_largest = self.accepted_largest
        self.last_at = self.sim.k.now
        self.step()

    def on_datagram_delivered(self, ep, dgram, copy_index):
        if ep.is_client or dgram.sender != "client":
            return
        for p in dgram.meta or []:
            if not p.opaque and p.space == "app" and p.pn is not None and p.pn > self.delivered_largest:
                self.delivered_largest = p.pn

    def step(self):
        sim = self.sim
        s = sim.server
        if s.terminated or s.broken or self.n >= self.total:
            return
        largest = self.accepted_largest
        mode = self.ch.choose(4)
        if mode == 3 and largest - self.base_largest > 3:
            # an older, not yet used number; never below what the real client had sent (those may
            # legitimately be discarded as "too old to tell whether it is a duplicate", RFC 9000 12.3)
            pn = largest - 1 - self.ch.choose(min(largest - self.base_largest - 2, 70000))
            while any(f[0] == pn for f in self.forged) and pn > self.base_largest + 1:
                pn -= 1
        else:
            pn = largest + self.JUMPS[self.ch.choose(len(self.JUMPS))]
        while any(f[0] == pn for f in self.forged):
            pn += 1  # every forged packet has its own number, so an ACK is attributable
        pn_len = 1 + self.ch.choose(4)
        self.lens[pn_len] += 1
        truncated = pn & ((1 << (8 * pn_len)) - 1)
        decoded = wc.decode_pn(largest, truncated, 8 * pn_len)
        expect = decoded == pn and pn >= 0
        if pn < 0:
            return
        pkt = self.forger.build(sim.client, "1rtt", wf.encode_ping() + wf.encode_padding(8), pn=pn, pn_len=pn_len)
        if pkt is None:
            self.total = self.n
            return
        self.n += 1
        self.forged.append((pn, pn_len, expect, sim.k.now, largest))
        if expect:
            self.expected_accept += 1
            if pn > self.accepted_largest:
                self.accepted_largest = pn
        else:
            self.expected_reject += 1
        d = self.forger.inject(s, pkt, src=sim.client.addr, tag="forged-pn")
        try:
            s.on_datagram(d, 0)
        except EndpointBroken:
            return
        self.last_at = sim.k.now
        sim.k.after(0.06, self.step, tag="app")

    def on_datagram_sent(self, ep, dgram):
        if ep.is_client or not self.started:
            return
        for p in dgram.meta or []:
            if p.opaque or p.space != "app":
                continue
            for f in p.frames:
                if f.type in (wf.ACK, wf.ACK_ECN):
                    for pn, pn_len, expect, t, largest in self.forged:
                        if any(lo <= pn <= hi for lo, hi in f["ranges"]):
                            self.acked.add(pn)

    def at_end(self, reason):
        if reason in ("step-cap", "api-exception") or not self.started:
            return
        if self.sim.server.terminated:
            return
        for pn, pn_len, expect, t, largest in self.forged:
            got = pn in self.acked
            if expect and not got:
                raise Violation(
                    "c02.pnlen", "valid-packet-rejected:len%d" % pn_len,
                    "a correctly protected 1-RTT packet with packet number %d sent with a %d-byte packet number "
                    "(largest accepted before: %d; RFC 9000 A.3 decodes the truncation to %d) was never "
                    "acknowledged by the server" % (pn, pn_len, largest, pn))
            if not expect and got:
                raise Violation(
                    "c02.pnlen", "undecodable-packet-accepted:len%d" % pn_len,
                    "packet number %d sent with %d bytes does not decode to itself relative to largest %d, yet the "
                    "server acknowledged it" % (pn, pn_len, largest))


def run_one(seed, tier="quick", variant=None, replay=None):
    variant = variant or "roundtrip"
    holder = {}

    def make(mon):
        if variant == "roundtrip":
            o = C01Oracle()
            holder["c01"] = o
            return [o]
        if variant in ("alter", "alter_exhaustive", "retry"):
            a = AlterOracle(mon, exhaustive=variant == "alter_exhaustive", retry_only=variant == "retry")
            holder["alter"] = a
            o = C01Oracle()
            return [a, o]
        if variant == "pnlen":
            o = PnLenOracle(mon)
            holder["pn"] = o
            return [o]
        raise ValueError(variant)

    def extra(sim, s):
        a = holder.get("alter")
        if a is not None:
            s["extra"]["altered_deliveries"] = a.n_altered
            s["extra"]["alteration_points"] = a.n_points
            for k, v in a.regions.items():
                s["probes"]["altered:" + k] = v
            s["states"] = list(a.states)
        pn = holder.get("pn")
        if pn is not None:
            s["extra"]["forged_packets"] = pn.n
            s["extra"]["forged_expected_accept"] = pn.expected_accept
            s["extra"]["forged_expected_reject"] = pn.expected_reject
            for k, v in pn.lens.items():
                s["probes"]["pn_len_%d" % k] = v

    out = run_transport(seed, PROFILES[variant], make, replay=replay, monitor=True,
                        strict_roundtrip=True, variant=variant, extra_summary=extra)
    # C01-class verdicts raised by the delivery oracle are reported under this property's ids
    if out.violation is not None and out.violation["oracle"].startswith("c01."):
        v = out.violation
        v["message"] = "(delivery verdict in a C02 run) " + v["message"]
        v["oracle"] = "c02.delivery"
    a = holder.get("alter")
    pn = holder.get("pn")
    if a is not None:
        out.nontrivial = a.n_altered > 0
    if pn is not None:
        out.nontrivial = pn.n > 0
    return out
