"""C20 Logging is observationally transparent."""
import json

from checks._common import ASSUMPTIONS_TRANSPORT, COMPONENTS_TRANSPORT, plan
from sim.chooser import Chooser
from sim.goals import DeliveryGoal
from sim.hostile import HostileInjector
from sim.kernel import Violation
from sim.monitor import WireMonitor
from sim.runner import Outcome, stable_hash, violation_dict
from sim.transport import Oracle, TransportSim

PROPERTY = "C20"
NAME = "c20"
LEVEL = "exploration"
RULE = ("every case is executed twice from the same seed / choice log: once with quic_logger=None and "
        "secrets_log_file=None, once with both enabled (hostile variant: secrets log on in both runs because the "
        "forger needs the keys, qlog off/on). The two executions must produce the identical event log (every API "
        "result, popped event, emitted datagram byte for byte, application op, final state); no exception may come "
        "from logging; json.dumps(QuicLogger.to_dict()) must succeed; the qlog must contain one packet_sent record per "
        "packet the independent decoder counted leaving that endpoint and no more packet_received records than packets "
        "delivered (equal in fault-free runs). Scenarios: benign, lossy (C01), hostile (C05). The H3 hostile scenarios "
        "(C16) are paired the same way inside the C16 check. non-trivial = more than 4 datagrams; distinct = hash of "
        "fates + ops + configuration")
ASSUMPTIONS = ASSUMPTIONS_TRANSPORT + [
    "byte-exact determinism of the code under test given the seams in sim/bootstrap.py (proved by the determinism "
    "self-test); qlog timestamps read the real clock and are not compared",
]
COMPONENTS = COMPONENTS_TRANSPORT
PLAN = plan(60, 900, ["benign", "lossy", "lossy", "hostile", "resumed", "h3"])

FAULTS = ("drop", "dup", "delay", "blackout", "timer-late", "clock", "rebind")
PROFILES = {
    "benign": {"fault_free": True},
    "lossy": {"faults": FAULTS, "allow_vn": True, "retry_p": 0.15, "foreign_tp_p": 0.3},
    "hostile": {"faults": FAULTS, "hostile": True, "allow_vn": True, "retry_p": 0.15},
}


class Recorder(Oracle):
    """counts what the qlog must agree with"""

    def __init__(self):
        self.delivered_packets = {"client": 0, "server": 0}
        self.sent_packets = {"client": 0, "server": 0}

    def on_start(self, sim):
        self.sim = sim

    def on_datagram_sent(self, ep, dgram):
        for p in dgram.meta or []:
            if p.ptype in ("initial", "handshake", "0rtt", "1rtt"):
                self.sent_packets[ep.name] += 1

    def on_datagram_delivered(self, ep, dgram, copy_index):
        for p in dgram.meta or []:
            if p.ptype in ("initial", "handshake", "0rtt", "1rtt", "retry", "vn"):
                self.delivered_packets[ep.name] += 1


def one(seed, replay, profile, logging_on, hostile):
    ch = Chooser(seed, replay)
    prof = dict(profile)
    prof["quic_logger"] = logging_on
    prof["secrets_log"] = logging_on or hostile
    oracles = []
    mon = rec = None
    if prof["secrets_log"]:
        mon = WireMonitor()
        oracles.append(mon)
        rec = Recorder()
        oracles.append(rec)
    if hostile:
        oracles.append(HostileInjector(mon, rate=0.15))
    oracles.append(DeliveryGoal())
    sim = TransportSim(ch, prof, oracles)
    sim.k.keep_trace = True
    reason = sim.run()
    return sim, ch, reason, rec


def clean_trace(lines):
    return [line for line in lines if not line.startswith("        ")]


def run_resumed_pair(seed, replay):
    """session resumption with 0-RTT (the `restart` fault), logging off vs on"""
    from sim.harness import run_resumed

    early = [((300, True), (5000, False), (1, False))[seed % 3]]
    prof2 = {"faults": ("drop", "dup", "delay"), "t_adv_max": 2.0, "max_ops": 5}
    keep_a, keep_b = {}, {}
    run_resumed(seed, replay, prof2, lambda mon: [DeliveryGoal()], "resumed", early_writes=early,
                secrets_log=False, quic_logger=False, keep=keep_a)
    out = run_resumed(seed, replay, prof2, lambda mon: [DeliveryGoal()], "resumed", early_writes=early,
                      secrets_log=True, quic_logger=True, keep=keep_b)
    if out.violation is not None:
        return out
    for which in ("sim1", "sim2"):
        a, b = keep_a.get(which), keep_b.get(which)
        if a is None or b is None:
            if (a is None) != (b is None):
                v = Violation("c20.divergence", "resumption:%s-missing" % which,
                              "with logging %s the second connection did not even start" % (
                                  "enabled" if b is None else "disabled"))
                out.violation = violation_dict(v)
            break
        if b.api_exception and not a.api_exception:
            who, name, etype, where, msg = b.api_exception
            v = Violation("c20.raised-with-logging", "%s@%s" % (etype, where),
                          "resumption/0-RTT scenario: with logging enabled %s.%s() raised %s at %s (%s); without "
                          "logging the same inputs did not" % (who, name, etype, where, msg))
            out.violation = violation_dict(v, b.k)
            break
        ta, tb = clean_trace(a.k.trace_lines), clean_trace(b.k.trace_lines)
        if ta != tb:
            i = 0
            while i < min(len(ta), len(tb)) and ta[i] == tb[i]:
                i += 1
            la = ta[i] if i < len(ta) else "<end>"
            lb = tb[i] if i < len(tb) else "<end>"
            kind = (lb.split(" ")[2:3] or la.split(" ")[2:3] or ["?"])[0]
            v = Violation("c20.divergence", "resumption:first-difference:%s" % kind,
                          "resumption/0-RTT scenario (%s): executions with logging off and on diverge at event %d: "
                          "off: %r / on: %r" % (which, i, la, lb))
            out.violation = violation_dict(v, b.k)
            break
    if out.violation is not None:
        out.summary["reason"] = "violation"
    return out


def run_h3_pair(seed, tier, replay):
    """HTTP/3 sessions (requests, responses, pushes, trailers, WebTransport, QPACK blocking under every
    chunking and reordering of checks.c14) with the qlog trace detached and attached: same deliveries, same
    events, and nothing raised because of logging."""
    from checks import c14

    outs = []
    for flag in (False, True):
        c14.FORCE_LOGGER[0] = flag
        try:
            outs.append(c14.run_one(seed, tier=tier, variant="random", replay=replay))
        finally:
            c14.FORCE_LOGGER[0] = None
    off, on = outs
    out = on
    out.violation = None
    ka = (off.violation or {}).get("oracle"), (off.violation or {}).get("discriminator")
    kb = (on.violation or {}).get("oracle"), (on.violation or {}).get("discriminator")
    von = outs[1].violation if False else None
    if kb != ka:
        v = Violation("c20.h3-differs", "with-trace:%s|%s/without:%s|%s" % (kb[0], (kb[1] or "")[:60], ka[0],
                                                                          (ka[1] or "")[:60]),
                      "the same HTTP/3 session and delivery schedules end differently with the qlog trace attached "
                      "(%s) than without it (%s)" % (kb, ka))
        out.violation = violation_dict(v)
    elif off.summary.get("digest") != on.summary.get("digest"):
        v = Violation("c20.h3-differs", "digest", "the same HTTP/3 session delivers different events with the qlog "
                      "trace attached than without it")
        out.violation = violation_dict(v)
    out.summary = dict(on.summary, reason="violation" if out.violation else "done")
    out.nontrivial = True
    return out


def run_one(seed, tier="quick", variant=None, replay=None):
    variant = variant or "lossy"
    if variant == "h3":
        return run_h3_pair(seed, tier, replay)
    if variant == "resumed":
        return run_resumed_pair(seed, replay)
    prof = PROFILES[variant]
    hostile = bool(prof.get("hostile"))
    out = Outcome(seed)
    sim_a, ch_a, reason_a, _ = one(seed, replay, prof, False, hostile)
    sim_b, ch_b, reason_b, rec = one(seed, replay, prof, True, hostile)
    s = sim_b.summary()
    s["reason"] = reason_b
    s["inconclusive"] = reason_b == "step-cap"
    s["aborted"] = False
    s.setdefault("extra", {})
    try:
        ta, tb = clean_trace(sim_a.k.trace_lines), clean_trace(sim_b.k.trace_lines)
        if sim_b.api_exception and not sim_a.api_exception:
            who, name, etype, where, msg = sim_b.api_exception
            raise Violation("c20.raised-with-logging", "%s@%s" % (etype, where),
                            "with logging enabled %s.%s() raised %s at %s (%s); without logging the same inputs "
                            "did not" % (who, name, etype, where, msg))
        if ta != tb or reason_a != reason_b:
            i = 0
            while i < min(len(ta), len(tb)) and ta[i] == tb[i]:
                i += 1
            la = ta[i] if i < len(ta) else "<end>"
            lb = tb[i] if i < len(tb) else "<end>"
            kind = (lb.split(" ")[2:3] or la.split(" ")[2:3] or ["?"])[0]
            raise Violation("c20.divergence", "first-difference:%s" % kind,
                            "executions with logging off and on diverge at event %d: off: %r / on: %r" % (i, la, lb))
        # qlog document
        for ep in sim_b.endpoints:
            lg = ep.config.quic_logger if ep.config is not None else None
            if lg is None:
                continue
            try:
                doc = lg.to_dict()
                text = json.dumps(doc)
            except Exception as exc:
                raise Violation("c20.qlog", "not-serialisable:%s" % type(exc).__name__,
                                "%s: QuicLogger.to_dict()/json.dumps failed: %r" % (ep.name, exc))
            s["extra"]["qlog_bytes"] = s["extra"].get("qlog_bytes", 0) + len(text)
            n_sent = n_recv = n_drop = n_unknown_cid = 0
            for tr in doc.get("traces", []):
                for ev in tr.get("events", []):
                    if ev.get("name") == "transport:packet_sent":
                        n_sent += 1
                    elif ev.get("name") == "transport:packet_received":
                        n_recv += 1
                    elif ev.get("name") == "transport:packet_dropped":
                        n_drop += 1
                        if (ev.get("data") or {}).get("trigger") == "unknown_connection_id":
                            n_unknown_cid += 1
            if ep.conn is None:
                continue
            s["extra"]["qlog_packet_sent_records"] = s["extra"].get("qlog_packet_sent_records", 0) + n_sent
            if not sim_b.api_exception and n_sent != rec.sent_packets[ep.name]:
                raise Violation("c20.qlog", "packet_sent-count",
                                "%s: qlog has %d transport:packet_sent records, %d packets left that endpoint" % (
                                    ep.name, n_sent, rec.sent_packets[ep.name]))
            if n_recv > rec.delivered_packets[ep.name] and not hostile:
                raise Violation("c20.qlog", "packet_received-more-than-delivered",
                                "%s: qlog has %d transport:packet_received records, only %d packets were delivered" % (
                                    ep.name, n_recv, rec.delivered_packets[ep.name]))
            # every delivered packet leaves exactly one record: received, or dropped (e.g. a late
            # Handshake packet after the keys were discarded)
            # (datagram padding after the last packet also leaves a packet_dropped record, hence >=)
            # (a datagram whose first packet is addressed to a connection ID the endpoint has retired in the
            # meantime - a late retransmission on a slow path - is dropped as a whole with ONE record: up to two
            # coalesced packets behind it are not looked at)
            if variant == "benign" and n_recv + n_drop + 2 * n_unknown_cid < rec.delivered_packets[ep.name]:
                raise Violation("c20.qlog", "packet-record-count-fault-free",
                                "%s: fault-free in-order run: qlog has %d packet_received + %d packet_dropped records, "
                                "%d packets were delivered" % (ep.name, n_recv, n_drop,
                                                               rec.delivered_packets[ep.name]))
    except Violation as v:
        out.violation = violation_dict(v, sim_b.k)
        s["reason"] = "violation"
    out.summary = s
    out.choices = ch_b.dump()
    out.nontrivial = s["datagrams"] > 4
    out.signature = s["sig"] + ":" + stable_hash([o[1:5] for o in sim_b.op_log]) + ":" + stable_hash(
        [sim_b.cfg[k] for k in ("cc", "client_versions", "server_versions")])
    out.sample = {"seed": seed, "variant": variant, "ops": sim_b.op_log[:8], "fired": s["fired"],
                  "datagrams": s["datagrams"], "end": reason_b, "trace_events_compared": len(sim_b.k.trace_lines)}
    return out
