#!/venv/bin/python
"""Tiny driver for checks/c03_tls.run_transcript_integrity (until checks/c03.py calls it).

    tools/run_c03_tls.py [--seeds N] [--first S] [--tier quick|thorough] [--jobs J] [--digest]

Exit status: 0 no violation, 1 violation(s) (printed), 2 harness error.
"""
import argparse
import multiprocessing
import os
import sys
import time
import traceback
from collections import Counter

sys.path.insert(0, os.path.dirname(os.path.dirname(os.path.abspath(__file__))))


def _one(args):
    seed, tier = args
    from checks import c03_tls

    try:
        o = c03_tls.run_transcript_integrity(seed, tier)
    except Exception:
        return seed, "error", traceback.format_exc(), None, None, None
    return seed, "ok", o.violation, o.summary["extra"], o.summary["probes"], (o.summary["digest"], o.sample)


def main():
    ap = argparse.ArgumentParser()
    ap.add_argument("--seeds", type=int, default=300)
    ap.add_argument("--first", type=int, default=1)
    ap.add_argument("--tier", default="quick")
    ap.add_argument("--jobs", type=int, default=os.cpu_count() or 4)
    ap.add_argument("--digest", action="store_true", help="print seed and digest of every run")
    a = ap.parse_args()
    from sim import bootstrap

    bootstrap.load()
    t0 = time.time()
    extra, probes = Counter(), Counter()
    violations, errors = [], []
    configs = Counter()
    with multiprocessing.get_context("fork").Pool(a.jobs) as pool:
        for seed, status, v, ex, pr, more in pool.imap(_one, [(s, a.tier) for s in range(a.first, a.first + a.seeds)]):
            if status == "error":
                errors.append((seed, v))
                continue
            extra.update(ex)
            probes.update(pr)
            digest, sample = more
            c = sample["config"]
            configs[(c["cred"], c["psk"], c["request_client_cert"])] += 1
            if a.digest:
                print(seed, digest)
            if v is not None:
                violations.append((seed, v))
    print("runs=%d tier=%s wall=%.1fs alterations=%d configurations(cert,psk,client-cert-request)=%d" % (
        a.seeds, a.tier, time.time() - t0, extra["alterations"], len(configs)))
    for k in sorted(extra):
        if k != "alterations":
            print("  %-42s %d" % (k, extra[k]))
    print("  outcomes:", dict(probes.most_common()))
    for seed, tb in errors[:3]:
        print("HARNESS-ERROR seed=%d\n%s" % (seed, tb))
    for seed, v in violations[:10]:
        print("VIOLATION seed=%d %s[%s]: %s" % (seed, v["oracle"], v["discriminator"], v["message"]))
    return 2 if errors else 1 if violations else 0


if __name__ == "__main__":
    sys.exit(main())
