#!/usr/bin/env python3
"""Write seeded/SUMMARY.md from the meta.json files."""
import json, os
V = os.path.dirname(os.path.dirname(os.path.abspath(__file__)))
rows = []
for name in sorted(os.listdir(os.path.join(V, "seeded"))):
    mp = os.path.join(V, "seeded", name, "meta.json")
    if not os.path.exists(mp):
        continue
    m = json.load(open(mp))
    cr = m.get("check_results", {})
    rows.append((name, m.get("property"), m.get("summary", "").replace("|", "/")[:170],
                 ", ".join("%s:%s" % kv for kv in sorted(cr.items())),
                 (m.get("detected_as") or [""])[0].split(":")[0][:70]))
with open(os.path.join(V, "seeded", "SUMMARY.md"), "w") as f:
    f.write("# Seeded breaking changes and the checks that catch them\n\n"
            "Written by fresh sub-agents from the property text alone; confirmed (suite passes with the patch, demo fails "
            "with / passes without it) by tools/confirm_seeded.py; evaluated by tools/reeval_seeded.py (./check <id> quick "
            "against a patched copy of /repo).\n\n| id | property | change | result | detected as |\n|---|---|---|---|---|\n")
    for r in rows:
        f.write("| %s | %s | %s | %s | %s |\n" % r)
    det = sum(1 for r in rows if "DETECTED" in r[3])
    neu = sum(1 for r in rows if "neutralised" in r[3])
    f.write("\n%d seeded changes, %d detected by the check of their own property (after the extensions listed in "
            "DESIGN.md 14.4), %d no longer break the property on the current tree because a later fix: commit in "
            "/repo neutralises them (their own demo passes; see the meta.json).\n" % (len(rows), det, neu))
print(len(rows), "rows")
