#!/venv/bin/python
"""Determinism self-test of the C14 / C16 check modules: every (variant, seed) run twice in this
process and once more in fresh interpreters under PYTHONHASHSEED=0 and =1 must give the same
digest, signature, violation and choice log.   usage: tools/h3_determinism.py [n_seeds]"""
import json
import os
import subprocess
import sys

HERE = os.path.dirname(os.path.dirname(os.path.abspath(__file__)))
sys.path.insert(0, HERE)
CASES = [("checks.c14", v) for v in ("random", "exhaustive_short", "truncated")] + \
        [("checks.c16", v) for v in ("h3_client", "h3_server", "h0")]


def fingerprints(n):
    import importlib

    out = {}
    for modname, variant in CASES:
        mod = importlib.import_module(modname)
        for seed in range(1000, 1000 + n):
            o = mod.run_one(seed, variant=variant)
            vd = o.violation and (o.violation["oracle"], o.violation["discriminator"], o.violation["message"])
            out["%s/%s/%d" % (modname, variant, seed)] = [o.summary["digest"], o.signature, vd,
                                                          json.dumps(o.choices, sort_keys=True),
                                                          json.dumps(o.summary["probes"], sort_keys=True)]
    return out


def main():
    n = int(sys.argv[1]) if len(sys.argv) > 1 and sys.argv[1] != "--child" else 6
    if len(sys.argv) > 2 and sys.argv[1] == "--child":
        print(json.dumps(fingerprints(int(sys.argv[2]))))
        return 0
    a = fingerprints(n)
    b = fingerprints(n)
    bad = [k for k in a if a[k] != b[k]]
    results = {"same process twice": bad}
    for hs in ("0", "1"):
        env = dict(os.environ, PYTHONHASHSEED=hs)
        r = subprocess.run([sys.executable, os.path.abspath(__file__), "--child", str(n)], env=env,
                           capture_output=True, text=True, cwd=HERE)
        if r.returncode != 0:
            print(r.stderr[-2000:])
            return 2
        c = json.loads(r.stdout)
        results["fresh interpreter PYTHONHASHSEED=" + hs] = [k for k in a if json.loads(json.dumps(a[k])) != c[k]]
    ok = True
    for k, v in results.items():
        print("%-45s %s" % (k, "same (%d runs)" % len(a) if not v else "DIFFERENT: %s" % v[:5]))
        ok = ok and not v
    # replay: the recorded choice log reproduces the run
    import importlib

    bad = []
    for modname, variant in CASES:
        mod = importlib.import_module(modname)
        for seed in range(1000, 1000 + n):
            o = mod.run_one(seed, variant=variant)
            o2 = mod.run_one(seed + 12345, variant=variant, replay=o.choices)
            if modname.endswith("c16"):
                o2 = mod.run_one(seed, variant=variant, replay=o.choices)  # the handshake bytes come from the seed
            if (o.summary["digest"], o.signature) != (o2.summary["digest"], o2.signature):
                bad.append((modname, variant, seed))
    print("%-45s %s" % ("replay of the choice log", "same" if not bad else "DIFFERENT: %s" % bad[:5]))
    return 0 if ok and not bad else 1


if __name__ == "__main__":
    sys.exit(main())
