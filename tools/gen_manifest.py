#!/usr/bin/env python3
"""Generate /verif/MANIFEST.json from the table below (single source of truth)."""
import json
import os

HERE = os.path.dirname(os.path.dirname(os.path.abspath(__file__)))

CLAIMED = {
    # id: (category, technique, text, level_note, design_ref)
    "C01": (
        "exploration",
        "deterministic simulation: seeded schedule/fault search over two real endpoints, byte-exact stream oracle",
        "Seeded search (swarm configurations, application scripts, per-datagram fates, timer latenesses, NAT "
        "rebinding) over two real QuicConnection endpoints on a simulated network in virtual time; safety (prefix, "
        "single end marker, no protocol-error close) checked after every event, liveness at the end of a fair phase. "
        "Sampling, not proof: this is the right level because the property is quantified over schedules and fault "
        "sequences that cannot be enumerated.",
        "Trusted: cryptography/OpenSSL, the harness (network, clocks, scripted application). The application only "
        "uses the API as documented. A client address change is modelled as hard (old address dead) during the "
        "adversarial phase and healed in the fair phase.",
        "DESIGN.md 7 C01",
    ),
}

NOT_APPLICABLE = {
    "C15": "pure input property (character classes and ordering of one header list): no schedule, clock, fault or "
           "interleaving to simulate; see DESIGN.md 8",
    "C17": "pure codec round-trip over inputs: a differential-fuzzing / enumeration target, not a simulation target; "
           "see DESIGN.md 8",
}

NOT_YET = "not claimed: the check for this property is not built yet (work in progress, see DESIGN.md 13)"


def main():
    props = [json.loads(l)["id"] for l in open(os.path.join(HERE, "properties.jsonl"))]
    checks = []
    for pid in props:
        if pid not in CLAIMED:
            continue
        cat, tech, text, note, ref = CLAIMED[pid]
        checks.append({
            "property_id": pid,
            "quick_cmd": "./check %s quick" % pid,
            "thorough_cmd": "VERIF_TIMEOUT=7200 ./check %s thorough" % pid,
            "evidence_file": "/verif/evidence/%s.json" % pid,
            "replay_cmd_template": "./check --replay {path}",
            "engine": "detsim",
            "level_claimed": {"category": cat, "text": text, "design_ref": ref},
            "level_note": note,
            "technique": tech,
        })
    na = []
    for pid in props:
        if pid in CLAIMED:
            continue
        na.append({"property_id": pid, "reason": NOT_APPLICABLE.get(pid, NOT_YET)})
    doc = {
        "version": 1,
        "setup_cmd": "./setup",
        "hooks": {
            "guard": "AIOQUIC_VERIF",
            "enable": "no hooks in /repo are needed: aioquic is Sans-IO, every seam (clock, network, randomness, key "
                      "generation, set ordering) is owned by monkeypatching in sim/bootstrap.py inside the check "
                      "process only; the C helpers are rebuilt from the working tree by every check",
            "baseline_off_cmd": "cd /repo && /venv/bin/python -m pytest -ra -q -p no:cacheprovider --timeout=900",
            "source_commits": [],
            "add_only": True,
        },
        "engines": [{
            "name": "detsim",
            "path": "/verif/sim",
            "serves_properties": sorted(CLAIMED),
            "kind_free_text": "deterministic discrete-event simulation with seeded fault injection (own chooser, "
                              "kernel, network, endpoint driver, wire monitor, shrinker)",
        }],
        "checks": checks,
        "not_applicable": na,
        "notes": "See DESIGN.md. Genuine defects found are recorded in known_findings.json (status fixed / known).",
    }
    with open(os.path.join(HERE, "MANIFEST.json"), "w") as f:
        json.dump(doc, f, indent=1)
    print("MANIFEST.json: %d checks, %d not claimed" % (len(checks), len(na)))


if __name__ == "__main__":
    main()
