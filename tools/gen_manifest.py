#!/usr/bin/env python3
"""Generate /verif/MANIFEST.json from the table below (single source of truth)."""
import json
import os

HERE = os.path.dirname(os.path.dirname(os.path.abspath(__file__)))

CLAIMED = {
    # id: (category, technique, text, level_note, design_ref)
    "C01": (
        "exploration",
        "deterministic simulation: seeded schedule/fault search over two real endpoints, byte-exact stream oracle",
        "Seeded search (swarm configurations, application scripts, per-datagram fates, timer latenesses, NAT "
        "rebinding) over two real QuicConnection endpoints on a simulated network in virtual time; safety (prefix, "
        "single end marker, no protocol-error close) checked after every event, liveness at the end of a fair phase. "
        "Sampling, not proof: this is the right level because the property is quantified over schedules and fault "
        "sequences that cannot be enumerated.",
        "Trusted: cryptography/OpenSSL, the harness (network, clocks, scripted application). The application only "
        "uses the API as documented. A client address change is modelled as hard (old address dead) during the "
        "adversarial phase and healed in the fair phase (variant rebind_storm: healed only for a server that, by "
        "RFC 9000 9.3, cannot know the newer address). Variants: faulty, rebind_storm, quiet_receiver, fault_free.",
        "DESIGN.md 7 C01, 14.4",
    ),
    "C02": (
        "exploration",
        "deterministic simulation with fault injection: every emitted packet re-protected by an independent RFC "
        "9001/9369 stack; seeded bit/byte alterations delivered before the genuine packet; key-holding forger for "
        "packet-number lengths; exhaustive single-bit/byte sweep of one packet per run in the thorough tier",
        "Round trip: every packet of every run (3 suites, 2 versions, key updates) is opened and re-protected by the "
        "independent stack and must match bit for bit. Alterations: corrupted copies of packets (incl. Retry) are "
        "delivered in every connection state and must leave events, handshake progress, delivered data and closing "
        "state unchanged, then the genuine packet flows and the run must still deliver everything. Packet-number "
        "lengths: forged valid packets with jumps across every window boundary in all four lengths must be accepted "
        "exactly when RFC 9000 A.3 decodes them.",
        "Trusted: wire/ (validated against RFC 9001/9369 vectors), cryptography. The no-op comparison reads the "
        "connection internals the property's mechanism names. Transient rejection of one genuine packet would be "
        "masked by retransmission.",
        "DESIGN.md 7 C02",
    ),
    "C03": (
        "exploration",
        "deterministic simulation with fault injection: seeded configuration pairs under loss/reordering with an "
        "agreement oracle over both secrets logs; restart with kept session ticket; bad-certificate servers; in-flight "
        "rewrite of handshake bytes with the keys; byte x mask enumeration of every handshake message at TLS level",
        "Agreement: for seeded pairs of configurations (certificate types and chains, suite lists, version lists incl. "
        "Version Negotiation, ALPN lists, Retry, resumption and 0-RTT via a restart with the kept ticket) whenever both "
        "endpoints complete they must hold identical secrets and report the same version, suite, ALPN and resumption "
        "status, and with no common option neither completes. Authenticity: six kinds of bad server certificates never "
        "let the client complete. Transcript integrity: every byte x 3 masks of every claimed handshake message "
        "between two real tls.Context objects (all positions in thorough), and at QUIC level one byte of a CRYPTO frame "
        "rewritten in flight and re-protected with the genuine keys.",
        "Trusted: tls13/ and wire/ reference code, cryptography. QUIC-level rewrite claims only bytes the receiver "
        "consumes at once (not bytes parked behind a reassembly gap, which a genuine retransmission may overwrite).",
        "DESIGN.md 7 C03",
    ),
    "C04": (
        "exploration",
        "deterministic simulation with fault injection against a sanitizer build: hostile/truncated/extended datagrams "
        "and a max_datagram_size / CID-length configuration sweep drive the real stack while ASan+UBSan, a preloaded "
        "libcrypto boundary shim and Python/C argument contracts observe the C helpers; seeded Buffer API walks",
        "The current _crypto.c/_buffer.c are compiled with clang -fsanitize=address,undefined (recover mode) and "
        "loaded into an interpreter started with the ASan runtime and an ASan-built EVP shim preloaded "
        "(PYTHONMALLOC=malloc). Which C paths run depends on connection state and configuration, so they are driven by "
        "simulated lossy/hostile runs and a configuration sweep; every run ends with an inspection of the sanitizer log "
        "and of contract breaches at the Python/C seam (scratch-buffer sizes parsed from _crypto.c), and every rejection "
        "must leave the helper usable.",
        "Trusted: clang sanitizers, the shim. OpenSSL is uninstrumented (checked at the EVP boundary only). The Buffer "
        "clause is a seeded stateful-API walk against a bytearray model, not a simulation.",
        "DESIGN.md 7 C04",
    ),
    "C05": (
        "exploration",
        "deterministic simulation with fault injection: hostile datagrams (random, mutated, coalesced, forged frames "
        "from a grammar under genuine keys, rewritten CRYPTO) injected at seeded points of lossy runs",
        "Hostile datagrams of five kinds are injected into lossy client/server runs in every connection state; the "
        "oracle is that no exception leaves the five API entry points until ConnectionTerminated is popped, with the "
        "driver continuing to pump timers so closes complete.",
        "Trusted: wire/, harness. Hostile TLS is produced by rewriting genuine CRYPTO payloads with the keys.",
        "DESIGN.md 7 C05",
    ),
    "C11": (
        "fault_enumeration",
        "scripted key-holding TLS 1.3 adversary (independent implementation): complete state x message-type table "
        "and enumeration of illegal server/client flight orderings against the real tls.Context",
        "All 13 states x 12 message types are fed to fresh copies of real handshake situations; every ordering, "
        "omission and repetition of the server flight up to length 6 (all 19,531 in thorough; all up to 4 plus a sample "
        "in quick) and of the client flight is played by an adversary that recomputes CertificateVerify and Finished "
        "over the transcript it actually sent; key-release callbacks are recorded against verified messages.",
        "Trusted: tls13/ (independent key schedule, validated against RFC 8448), cryptography. The "
        "CLIENT_HANDSHAKE_START row is judged differentially (any input there behaves like the documented b'').",
        "DESIGN.md 7 C11",
    ),
    "C07": (
        "exploration",
        "deterministic simulation with a key-holding forger: after a real handshake the peer is silenced and seeded "
        "histories of boundary-valued stream/flow-control frames are judged frame by frame against a small reference "
        "model of receive-side accounting; buffers measured after every step",
        "The forger continues in the silenced peer's name with STREAM / RESET_STREAM / *_BLOCKED / MAX_* / STOP_SENDING "
        "frames at limit-1, limit, limit+1 and 2^62-1 on all four stream types plus CRYPTO / PATH_CHALLENGE / "
        "NEW_CONNECTION_ID floods; a reference model fed only with what the target advertised on the wire predicts the "
        "acceptable outcomes (no close, or the matching error code); reassembly buffers, queued challenges, stored peer "
        "CIDs and pending retirements are measured after every step.",
        "Trusted: wire/ and the reference model. When several errors apply any of them is accepted; frames for a stream "
        "the endpoint has completed and forgotten may be ignored; a FIN/reset below data already received may but need "
        "not be rejected (the property names only disagreement with an already fixed final size).",
        "DESIGN.md 7 C07",
    ),
    "C09": (
        "exploration",
        "deterministic simulation with fault injection: seeded close()/fatal-frame/peer-crash/blackout/stall/late-timer "
        "schedules in virtual time, timer and termination oracles after every API call",
        "C01 scripts extended with close() at arbitrary points, forged fatal frames, peer crash, stalls and late "
        "timers; get_timer() must be finite after every call while the connection is live; after closing starts exactly "
        "one ConnectionTerminated arrives within 3 PTO (PTO read from the recovery object at that instant) plus injected "
        "lateness, no datagram follows the closing packets, nothing is emitted after termination although datagrams "
        "keep arriving, and a silent peer leads to idle termination - no later than the negotiated idle period and no "
        "earlier than the smaller non-zero advertised one (one side advertises max_idle_timeout = 0 in a quarter of the runs).",
        "Trusted: harness. Closing start is observed white-box (connection state after each kernel step).",
        "DESIGN.md 7 C09",
    ),
    "C20": (
        "exploration",
        "deterministic simulation: every seeded scenario (benign, lossy, hostile) executed twice from the same choice "
        "log with logging off and on; byte-exact comparison of the two event logs plus qlog document checks",
        "Relies on byte-exact determinism of the simulation: the same choice log is executed with "
        "quic_logger/secrets_log off and on; the complete event logs (API results, events, every datagram byte, final "
        "state) must be identical, logging must not raise, the qlog must serialise and hold one packet_sent record per "
        "packet counted on the wire.",
        "Trusted: determinism seams (self-test). In the hostile scenario the secrets log is on in both runs (the "
        "forger needs keys); H3 hostile scenarios are paired inside the C16 check.",
        "DESIGN.md 7 C20",
    ),
    "C14": (
        "exploration",
        "deterministic simulation of delivery schedules: seeded splittings and cross-stream interleavings of the "
        "byte streams produced by a real sending H3Connection, exhaustive splittings for short streams",
        "A real sending H3Connection produces per-stream bytes for seeded sessions (requests, responses, trailers, "
        "pushes, WebTransport, QPACK static/dynamic/literal entries, blocked streams); a fresh real receiver is fed "
        "those bytes under seeded splittings and interleavings (all 2^(n-1) splittings for short streams); normalised "
        "per-stream events must equal the canonical delivery and what was submitted to the sending API.",
        "Trusted: pylsqpack, the FakeQuic recording stub. Streams truncated by FIN (malformed input) are a separate "
        "class with its own oracle id; its chunk dependence is a recorded known finding.",
        "DESIGN.md 7 C14",
    ),
    "C16": (
        "exploration",
        "deterministic simulation with fault injection at the stream-byte level: a grammar of hostile HTTP/3, QPACK, "
        "WebTransport and HTTP/0.9 bytes after valid prefixes, delivered in seeded chunking to real H3/H0 layers over "
        "a real QuicConnection pair",
        "Hostile stream bytes and datagrams (every frame type x length x payload shape, settings, duplicate critical "
        "streams, malformed QPACK, oversized names) are fed after a valid prefix in seeded chunking and order; "
        "handle_event must return, and the real transport underneath must still emit its closing packet and reach "
        "termination; every case runs with and without QuicLogger.",
        "Trusted: pylsqpack. Hostile bytes are delivered as transport events, not through a lossy wire.",
        "DESIGN.md 7 C16",
    ),
    "C18": (
        "exploration",
        "deterministic simulation: honest lossy runs with frequent connection-ID changes judged on the decrypted wire, "
        "and a key-holding forger playing seeded NEW_CONNECTION_ID / RETIRE_CONNECTION_ID histories and probing every "
        "issued CID after silencing the real peer",
        "Honest: no packet is addressed to a peer CID after its retirement was announced, issued-and-unretired CIDs never "
        "exceed the peer's limit, every owed RETIRE_CONNECTION_ID eventually reaches the peer (after loss) and retired "
        "CIDs are replaced. Forged: seeded histories of NEW_CONNECTION_ID (any sequence number, retire-prior-to, "
        "duplicates, gaps) and RETIRE_CONNECTION_ID; after the target acknowledged retire-prior-to N all its packets "
        "carry a DCID of sequence >= N and RETIREs appear; CONNECTION_ID_LIMIT_ERROR exactly when the active set "
        "exceeds 8; packets addressed to any issued, unretired CID are acknowledged.",
        "Trusted: wire/, a small model of the active CID set (including a server following its peer's CID switch). "
        "State at takeover is read once from the target.",
        "DESIGN.md 7 C18",
    ),
    "C19": (
        "exploration",
        "deterministic simulation: virtual-time asyncio event loop (BaseEventLoop subclass) with an in-memory lossy "
        "network, seeded callback scheduling, real serve()/connect()/QuicServer/QuicConnectionProtocol",
        "Real asyncio adapter code runs on a simulated loop whose timers, I/O callback ordering, callback durations "
        "and datagram fates are decided by the seed; stream bytes are compared end to end, every waiter must finish "
        "exactly once, the loop exception handler must stay silent, and the server routing table is checked against "
        "issued/retired connection IDs at every loop iteration; Retry tokens are tracked per address.",
        "Trusted: SimLoop models selector-style datagram transports on one thread; uvloop, threads and socket errors "
        "are not modelled.",
        "DESIGN.md 7 C19",
    ),
    "C06": (
        "exploration",
        "deterministic simulation: seeded schedules with tiny peer limits; independent wire decoder judges every "
        "STREAM/RESET_STREAM frame against limits delivered so far",
        "Seeded search over configurations biased to tiny flow-control windows and stream-count limits, scripts that "
        "write more than the limits, and lossy schedules; every frame that spends credit is decoded from the wire by "
        "an independent RFC 9000/9001 stack and judged against the limits delivered to the sender so far (credit "
        "at delivery, so the oracle is never stricter than a correct sender); blocked data must flow once limits rise.",
        "Trusted: wire/ decoder, cryptography. Stream-count limits below 128 are produced by setting the receiving "
        "side's limit objects after construction. Runs with a window of 0 are safety-only.",
        "DESIGN.md 7 C06",
    ),
    "C08": (
        "exploration",
        "deterministic simulation: (a) seeded histories against real QuicPacketRecovery with a recomputed ledger, "
        "(b) wire in-flight bytes per transmit vs. congestion window under seeded lossy schedules",
        "(a) real QuicPacketRecovery + Reno/CUBIC driven by seeded histories of send / ack(arbitrary range sets) / "
        "loss timer / PTO / discard at arbitrary times, ledger recomputed from sent_packets after every call; "
        "(b) two real endpoints on the simulated network, in-flight bytes decoded from the wire per "
        "datagrams_to_send() call compared with congestion_window - bytes_in_flight read before the call.",
        "Trusted: wire/ decoder; the probe allowance is one datagram per handle_timer call (superset of PTO firing).",
        "DESIGN.md 7 C08",
    ),
    "C10": (
        "exploration",
        "deterministic simulation of frame-level loss/duplication/reordering as direct operation sequences against "
        "small executable reference models, seeded walks with state-coverage measurement",
        "Real QuicStreamReceiver / QuicStreamSender driven by seeded operation sequences (the operations are what "
        "loss, duplication, reordering and retransmission do at frame level) against independent reference models, "
        "compared after every operation; short streams walked deeply with distinct implementation states counted next "
        "to the model's reachable state count; closure is not claimed.",
        "Trusted: the reference models (dict offset->byte etc.). Two documented relaxations in the module's "
        "ASSUMPTIONS (end marker after a shrinking FIN; is_finished after reset + late acks).",
        "DESIGN.md 7 C10",
    ),
    "C12": (
        "exploration",
        "deterministic simulation: seeded arrival orders/gaps/duplicates/losses; independent wire decoder compares "
        "every ACK frame with the simulator's delivery record and timing",
        "Every ACK frame decoded from the wire is checked against the set of genuine packets delivered to that "
        "endpoint in that space (soundness, all fault kinds); timeliness (25 ms advertised max_ack_delay for 1-RTT, "
        "next transmission for Initial/Handshake) is judged in runs with timers on time.",
        "Trusted: wire/ decoder. Timeliness is only judged for packets the endpoint certainly could authenticate "
        "(keys present in its secrets log at delivery; no key updates, rebinding or CID changes in those runs).",
        "DESIGN.md 7 C12",
    ),
    "C13": (
        "exploration",
        "deterministic simulation: seeded handshake/migration schedules with spoofed sources and rebinding; every "
        "emitted datagram judged for size, Initial padding and 3x anti-amplification per address",
        "Every datagram handed out is judged: size <= max_datagram_size, >= 1200 bytes when it carries a client "
        "Initial or an ack-eliciting server Initial, and per destination address bytes sent <= 3x bytes delivered "
        "until the (deliberately early) oracle notion of address validation holds.",
        "Trusted: wire/ decoder. Two genuine defects are recorded as known findings (Initial padding cut to the "
        "amplification / flight budget).",
        "DESIGN.md 7 C13",
    ),
}

NOT_APPLICABLE = {
    "C15": "pure input property (character classes and ordering of one header list): no schedule, clock, fault or "
           "interleaving to simulate; see DESIGN.md 8",
    "C17": "pure codec round-trip over inputs: a differential-fuzzing / enumeration target, not a simulation target; "
           "see DESIGN.md 8",
}

NOT_YET = "not claimed: the check for this property is not built yet (work in progress, see DESIGN.md 13)"


def main():
    props = [json.loads(l)["id"] for l in open(os.path.join(HERE, "properties.jsonl"))]
    checks = []
    for pid in props:
        if pid not in CLAIMED:
            continue
        cat, tech, text, note, ref = CLAIMED[pid]
        checks.append({
            "property_id": pid,
            "quick_cmd": "./check %s quick" % pid,
            "thorough_cmd": "VERIF_TIMEOUT=7200 ./check %s thorough" % pid,
            "evidence_file": "/verif/evidence/%s.json" % pid,
            "replay_cmd_template": "./check --replay {path}",
            "engine": "detsim",
            "level_claimed": {"category": cat, "text": text, "design_ref": ref},
            "level_note": note,
            "technique": tech,
        })
    na = []
    for pid in props:
        if pid in CLAIMED:
            continue
        na.append({"property_id": pid, "reason": NOT_APPLICABLE.get(pid, NOT_YET)})
    doc = {
        "version": 1,
        "setup_cmd": "./setup",
        "hooks": {
            "guard": "AIOQUIC_VERIF",
            "enable": "no hooks in /repo are needed: aioquic is Sans-IO, every seam (clock, network, randomness, key "
                      "generation, set ordering) is owned by monkeypatching in sim/bootstrap.py inside the check "
                      "process only; the C helpers are rebuilt from the working tree by every check",
            "baseline_off_cmd": "cd /repo && /venv/bin/python -m pytest -ra -q -p no:cacheprovider --timeout=900",
            "source_commits": [],
            "add_only": True,
        },
        "engines": [{
            "name": "detsim",
            "path": "/verif/sim",
            "serves_properties": sorted(CLAIMED),
            "kind_free_text": "deterministic discrete-event simulation with seeded fault injection (own chooser, "
                              "kernel, network, endpoint driver, wire monitor, shrinker)",
        }],
        "checks": checks,
        "not_applicable": na,
        "notes": "See DESIGN.md. Genuine defects found are recorded in known_findings.json (status fixed / known).",
    }
    with open(os.path.join(HERE, "MANIFEST.json"), "w") as f:
        json.dump(doc, f, indent=1)
    print("MANIFEST.json: %d checks, %d not claimed" % (len(checks), len(na)))


if __name__ == "__main__":
    main()
