#!/bin/bash
# Run every registered quick check with several seeds; print one line per (check, seed).
# usage: tools/soak.sh "1 2 3" [ids...]     (evidence/replays go to a scratch dir: nothing in /verif changes)
cd "$(dirname "$0")/.."
SEEDS=${1:-"1 2 3"}; shift
IDS=${@:-$(python3 -c "import json;print(' '.join(c['property_id'] for c in json.load(open('MANIFEST.json'))['checks']))")}
OUT=${SOAK_OUT:-/tmp/verif-soak}
mkdir -p $OUT
for s in $SEEDS; do
  for id in $IDS; do
    VERIF_SEED=$s VERIF_EVIDENCE_DIR=$OUT/evidence VERIF_REPLAY_DIR=$OUT/replays ./check $id quick > $OUT/$id-$s.log 2>&1
    rc=$?
    echo "$id seed=$s exit=$rc $(grep -E '^  c|^HARNESS' $OUT/$id-$s.log | head -2 | cut -c1-200 | tr '\n' ' ')"
  done
done
echo SOAK-DONE
