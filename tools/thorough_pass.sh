#!/bin/bash
# Run every registered thorough command once, optionally with a reduced exploration budget.
# usage: tools/thorough_pass.sh [budget_seconds] ["C01 C08 ..."]   (results go to a scratch dir: nothing in /verif changes)
cd "$(dirname "$0")/.."
B=${1:-}
IDS=${2:-$(python3 -c "import json;print(' '.join(c['property_id'] for c in json.load(open('MANIFEST.json'))['checks']))")}
OUT=${SOAK_OUT:-/tmp/verif-thorough}
mkdir -p $OUT
for id in $IDS; do
  if [ -n "$B" ]; then export VERIF_BUDGET=$B; fi
  VERIF_TIMEOUT=7200 VERIF_EVIDENCE_DIR=$OUT/evidence VERIF_REPLAY_DIR=$OUT/replays ./check $id thorough > $OUT/$id.log 2>&1
  rc=$?
  echo "$id thorough exit=$rc $(grep -E '^  c|^HARNESS|^evidence' $OUT/$id.log | head -2 | cut -c1-220 | tr '\n' ' ')"
done
echo THOROUGH-DONE
