import sys, hashlib, json
sys.path.insert(0, "/verif")
from sim.runner import derive_seed, stable_hash
import importlib
mod = importlib.import_module("checks.c19")
n = int(sys.argv[1]); replay = len(sys.argv) > 2
for v in ("single", "multi", "retry", "close_races"):
    for i in range(n):
        seed = derive_seed(4242, i)
        out = mod.run_one(seed, variant=v)
        line = "%s %d %s %s %s %s %s" % (v, seed, out.summary["digest"], out.summary["sim_time"], out.summary["steps"],
              (out.violation or {}).get("discriminator"), stable_hash(out.choices))
        if replay:
            out2 = mod.run_one(seed, variant=v, replay=out.choices)
            ok = out2.summary["digest"] == out.summary["digest"] and out2.choices == out.choices and (out2.violation or {}).get("discriminator") == (out.violation or {}).get("discriminator")
            line += " replay_exact=%s" % ok
        print(line)
