import sys, os, shutil, subprocess, json
MUT = "/tmp/c19-mut"
S = MUT + "/src/aioquic/asyncio/server.py"
P = MUT + "/src/aioquic/asyncio/protocol.py"
R = MUT + "/src/aioquic/quic/retry.py"
mutants = {
 "M1-terminated-keeps-routes": (S, '''            if proto == protocol:
                del self._protocols[cid]''', '''            if proto == protocol:
                pass'''),
 "M2-retired-deletes-nothing": (S, '''        assert self._protocols[cid] == protocol
        del self._protocols[cid]''', '''        assert self._protocols[cid] == protocol'''),
 "M3a-token-address-not-compared": (R, '''        if encoded_addr != encode_address(addr):
            raise ValueError("Remote address does not match.")''', '''        pass'''),
 "M3b-validate-result-ignored": (S, '''                        ) = self._retry.validate_token(addr, header.token)
                    except ValueError:
                        return''', '''                        ) = self._retry.validate_token(addr, header.token)
                    except ValueError:
                        original_destination_connection_id = header.destination_cid'''),
 "M4a-ping-waiter-completed-twice": (P, '''                waiter = self._ping_waiters.pop(event.uid, None)
                if waiter is not None:
                    waiter.set_result(None)''', '''                waiter = self._ping_waiters.get(event.uid, None)
                if waiter is not None:
                    waiter.set_result(None)'''),
 "M4b-ping-waiter-never": (P, '''                waiter = self._ping_waiters.pop(event.uid, None)
                if waiter is not None:
                    waiter.set_result(None)''', '''                waiter = self._ping_waiters.pop(event.uid, None)'''),
 "M5a-timer-never-rearmed": (P, '''        if self._timer is None and timer_at is not None:
            self._timer = self._loop.call_at(timer_at, self._handle_timer)''', '''        if self._timer is None and timer_at is not None and self._timer_at is None:
            self._timer = self._loop.call_at(timer_at, self._handle_timer)'''),
 "M5b-stale-timer-not-cancelled": (P, '''        if self._timer is not None and self._timer_at != timer_at:
            self._timer.cancel()
            self._timer = None''', '''        if self._timer is not None and self._timer_at != timer_at:
            pass'''),
 "M6-wait_closed-not-on-idle-timeout": (P, '''                self._closed.set()''', '''                if event.reason_phrase != "Idle timeout":
                    self._closed.set()'''),
 "M7-issued-cid-not-routed": (S, '''        self._protocols[cid] = protocol

    def _connection_id_retired''', '''        pass

    def _connection_id_retired'''),
 "M8-transmit_soon-lost": (P, '''        self._transmit_task = None

        # send datagrams''', '''        # send datagrams'''),
 "M9-connect-waiter-not-failed": (P, '''                    waiter.set_exception(ConnectionError)

                # abort ping waiters''', '''                    pass

                # abort ping waiters'''),
 "M10-no-eof-on-fin": (P, '''            if event.end_stream:
                reader.feed_eof()''', '''            if event.end_stream:
                pass'''),
 "M11-connected-waiter-set-twice": (P, '''                    self._connected = True
                    self._connected_waiter = None
                    waiter.set_result(None)''', '''                    self._connected = True
                    waiter.set_result(None)'''),
 "M12-ping-waiters-not-failed-on-close": (P, '''                for waiter in self._ping_waiters.values():
                    waiter.set_exception(ConnectionError)''', '''                pass'''),
 "M13-first-host-cid-not-routed": (S, '''            self._protocols[connection.host_cid] = protocol''', '''            pass'''),
 "M14-handle_timer-skips-transmit": (P, '''        self._quic.handle_timer(now=now)
        self._process_events()
        self.transmit()''', '''        self._quic.handle_timer(now=now)
        self._process_events()'''),
}
which = sys.argv[1:] or list(mutants)
n = int(os.environ.get("MUT_RUNS", "150"))
base = json.load(open("/tmp/c19-baseline-sigs.json")) if os.path.exists("/tmp/c19-baseline-sigs.json") else None
for name in which:
    if os.path.exists(MUT): shutil.rmtree(MUT)
    shutil.copytree("/repo", MUT, symlinks=True, ignore=shutil.ignore_patterns(".git"))
    if name != "baseline":
        path, old, new = mutants[name]
        s = open(path).read()
        assert s.count(old) == 1, (name, s.count(old))
        open(path, "w").write(s.replace(old, new))
    env = dict(os.environ, VERIF_REPO=MUT, PYTHONHASHSEED="0")
    procs = [subprocess.Popen(["/venv/bin/python", "/verif/tools/c19_drive.py", v, str(n)], env=env, cwd="/verif", stdout=subprocess.PIPE, stderr=subprocess.STDOUT, text=True)
             for v in ("single", "multi", "retry", "close_races")]
    sigs = {}
    errs = []
    for p in procs:
        o = p.communicate()[0]
        if p.returncode != 0: errs.append(o[-1500:])
        for l in o.splitlines():
            if l.startswith("VIOL "):
                _, c, k = l.split(" ", 2)[0:3]
                k = k.split(" (")[0]
                sigs[k] = sigs.get(k, 0) + int(c)
    if name == "baseline":
        json.dump(sigs, open("/tmp/c19-baseline-sigs.json", "w")); base = sigs
    new = {k: v for k, v in sigs.items() if base is None or k not in base}
    grown = {k: (base.get(k), v) for k, v in sigs.items() if base and k in base and v > 2 * base[k] + 5}
    print("%-40s %s new=%s grown=%s%s" % (name, "CAUGHT" if new or grown else "missed", new, grown, " ERR " + errs[0] if errs else ""), flush=True)
shutil.rmtree(MUT)
