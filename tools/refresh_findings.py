#!/venv/bin/python
"""Regenerate the replay files of the `known` entries of known_findings.json against the current
tree and harness (discriminators and draw order change as the harness evolves; a replay file that
no longer reproduces its own signature is useless as an identification of the finding).

    tools/refresh_findings.py [id ...]

For each entry: search seeds (16 processes) until a run's violation matches (oracle, discriminator),
minimise, write findings/<id>.json, verify it in a fresh interpreter.
"""
import importlib
import json
import os
import sys
from concurrent.futures import ProcessPoolExecutor

VERIF = os.path.dirname(os.path.dirname(os.path.abspath(__file__)))
sys.path.insert(0, VERIF)


def _search(args):
    modname, variant, seeds, oracle, disc = args
    from sim import bootstrap
    bootstrap.load()
    bootstrap.install_seams()
    mod = importlib.import_module(modname)
    for s in seeds:
        o = mod.run_one(s, tier="quick", variant=variant)
        if o.violation and o.violation["oracle"] == oracle and (disc is None or o.violation["discriminator"] == disc):
            return s, variant
    return None


def main():
    from cli import CHECKS
    from sim import bootstrap, runner
    bootstrap.load()
    bootstrap.install_seams()
    known = json.load(open(os.path.join(VERIF, "known_findings.json")))["findings"]
    want = sys.argv[1:]
    rc = 0
    for e in known:
        if e["status"] != "known" or (want and e["id"] not in want):
            continue
        if " " in e.get("replay", " "):
            print("skip", e["id"], "(several replay files)")
            continue
        modname = CHECKS[e["property"]]
        mod = importlib.import_module(modname)
        variants = []
        for v in mod.PLAN["quick"].get("variants", [None]):
            if v not in variants:
                variants.append(v)
        found = None
        base = 0
        with ProcessPoolExecutor(max_workers=os.cpu_count() or 4) as ex:
            while found is None and base < 400000:
                jobs = []
                for v in variants:
                    for j in range(8):
                        lo = base + j * 250
                        jobs.append((modname, v, [runner.derive_seed(77, i) for i in range(lo, lo + 250)],
                                     e["oracle"], e.get("discriminator")))
                for r in ex.map(_search, jobs):
                    if r is not None and found is None:
                        found = r
                base += 2000
        if found is None:
            print("NOT-FOUND", e["id"])
            rc = 1
            continue
        seed, variant = found
        out = mod.run_one(seed, tier="quick", variant=variant)
        res = runner.shrink(mod, seed, out.violation, "quick", variant, budget_s=60.0)
        best, tries = (res if isinstance(res, tuple) else (res, 0)) if res is not None else (out, 0)
        runner.REPLAY_DIR = os.path.join(VERIF, "findings")
        path = runner.write_replay(mod, seed, "quick", variant, best, res is not None, tries)
        final = os.path.join(VERIF, e["replay"])
        os.replace(path, final)
        ok, _ = runner.verify_replay(final)
        print("refreshed" if ok else "UNVERIFIED", e["id"], final, best.violation["oracle"], best.violation["discriminator"])
        if not ok:
            rc = 1
    return rc


if __name__ == "__main__":
    sys.exit(main())
