#!/usr/bin/env python3
"""Run checks against a seeded defect: copy /repo to a scratch directory, apply the patch there,
run `./check <Cxx> quick` with VERIF_REPO pointing at the copy, report, delete the copy.

    tools/eval_seeded.py <patch.diff | seeded dir> [--budget S] [--checks C01,C05 ...]
"""
import json
import os
import shutil
import subprocess
import sys
import tempfile
import time

VERIF = os.path.dirname(os.path.dirname(os.path.abspath(__file__)))


def main():
    args = sys.argv[1:]
    target = args[0]
    budget = "30"
    checks = None
    if "--budget" in args:
        budget = args[args.index("--budget") + 1]
    if "--checks" in args:
        checks = args[args.index("--checks") + 1].split(",")
    patch = target
    meta = {}
    if os.path.isdir(target):
        patch = os.path.join(target, "patch.diff")
        mp = os.path.join(target, "meta.json")
        if os.path.exists(mp):
            meta = json.load(open(mp))
    if checks is None:
        checks = [meta.get("property", "C01")]
    tmp = tempfile.mkdtemp(prefix="verif-seeded-")
    try:
        subprocess.run(["rsync", "-a", "--exclude", ".git", "--exclude", "*.so", "--exclude", "__pycache__",
                        "/repo/", tmp + "/"], check=True)
        r = subprocess.run(["git", "apply", "--unsafe-paths", "--directory", tmp, os.path.abspath(patch)],
                           capture_output=True, text=True, cwd="/")
        if r.returncode != 0:
            r = subprocess.run(["patch", "-p1", "-d", tmp, "-i", os.path.abspath(patch)], capture_output=True, text=True)
            if r.returncode != 0:
                print("PATCH-DOES-NOT-APPLY", r.stdout[-500:], r.stderr[-500:])
                return 3
        results = {}
        for c in checks:
            env = dict(os.environ, VERIF_REPO=tmp, VERIF_BUDGET=budget, VERIF_SHRINK_S="8",
                       VERIF_EVIDENCE_DIR=os.path.join(tmp, "_evidence"), VERIF_REPLAY_DIR=os.path.join(tmp, "_replays"))
            t0 = time.time()
            r = subprocess.run([os.path.join(VERIF, "check"), c, "quick"], capture_output=True, text=True, env=env)
            lines = [l for l in r.stdout.splitlines() if l.startswith(("VIOLATION", "HARNESS", "  c", "  "))][:6]
            results[c] = {"exit": r.returncode, "wall": round(time.time() - t0, 1), "lines": [l[:260] for l in lines]}
            print("%s exit=%d wall=%.0fs" % (c, r.returncode, time.time() - t0))
            for l in lines:
                print("    " + l[:260])
            if r.returncode == 2:
                print(r.stdout[-1500:])
        print("RESULT " + json.dumps({"target": target, "results": {k: v["exit"] for k, v in results.items()}}))
    finally:
        shutil.rmtree(tmp, ignore_errors=True)
    return 0


if __name__ == "__main__":
    sys.exit(main())
