#!/usr/bin/env python3
"""Re-run the checks against every seeded defect under /verif/seeded (or the ones named) and update
each meta.json with which checks detect it.

    tools/reeval_seeded.py [--budget 30] [name ...]       e.g.  tools/reeval_seeded.py C11-1 C03-2:C03,C11
A name may carry the checks to run after a colon; default is the defect's own property.
"""
import json
import os
import subprocess
import sys

VERIF = os.path.dirname(os.path.dirname(os.path.abspath(__file__)))


def main():
    args = sys.argv[1:]
    budget = "30"
    if "--budget" in args:
        i = args.index("--budget")
        budget = args[i + 1]
        del args[i:i + 2]
    names = args or sorted(os.listdir(os.path.join(VERIF, "seeded")))
    for item in names:
        name, _, checks = item.partition(":")
        d = os.path.join(VERIF, "seeded", name)
        mp = os.path.join(d, "meta.json")
        if not os.path.exists(mp):
            continue
        meta = json.load(open(mp))
        checks = checks or meta.get("property")
        r = subprocess.run([sys.executable, os.path.join(VERIF, "tools", "eval_seeded.py"), d, "--budget", budget,
                            "--checks", checks], capture_output=True, text=True)
        res = {}
        lines = []
        for line in r.stdout.splitlines():
            if line.startswith("RESULT "):
                res = json.loads(line[7:])["results"]
            elif line.startswith("      ") and len(lines) < 3:
                lines.append(line.strip()[:300])
        cr = meta.setdefault("check_results", {})
        for k, v in res.items():
            cr[k] = "DETECTED" if v == 1 else "missed" if v == 0 else "harness-error(%s)" % v
        if lines:
            meta["detected_as"] = lines
        json.dump(meta, open(mp, "w"), indent=1)
        print(name, {k: cr[k] for k in res}, lines[:1])
    return 0


if __name__ == "__main__":
    sys.exit(main())
