#!/venv/bin/python
"""One-off: add large certificate chains to /verif/fixtures without touching the existing files
(bigchain8k ~ 8 kB, bigchain16k ~ 16 kB of Certificate message): a server first flight of several
datagrams, larger than the anti-amplification budget and, for 16k, than the initial window."""
import os
import sys

sys.path.insert(0, os.path.dirname(os.path.abspath(__file__)))
from cryptography.hazmat.primitives import serialization
from cryptography.hazmat.primitives.asymmetric import ed25519, rsa

from make_fixtures import OUT, make_cert, pem_cert, pem_key, write


def main():
    ca_key = serialization.load_pem_private_key(open(os.path.join(OUT, "ca.key"), "rb").read(), None)
    for label, n_inter, n_san in (("bigchain8k", 3, 120), ("bigchain16k", 7, 200)):
        if os.path.exists(os.path.join(OUT, label + ".pem")):
            print(label, "exists")
            continue
        issuer_cn, issuer_key = "verif root CA", ca_key
        inters = []
        for i in range(n_inter):
            k = rsa.generate_private_key(public_exponent=65537, key_size=4096)
            cn = "verif big intermediate %s %d" % (label, i)
            inters.append(make_cert(cn, k, issuer_cn, issuer_key, ca=True))
            issuer_cn, issuer_key = cn, k
        lk = ed25519.Ed25519PrivateKey.generate()
        sans = ["localhost"] + ["host-%03d.big.verif.example" % i for i in range(n_san)]
        leaf = make_cert("localhost", lk, issuer_cn, issuer_key, sans=sans)
        pem = pem_cert(leaf) + b"".join(pem_cert(c) for c in reversed(inters))
        write(label + ".pem", pem)
        write(label + ".key", pem_key(lk))
        der = len(leaf.public_bytes(serialization.Encoding.DER)) + sum(
            len(c.public_bytes(serialization.Encoding.DER)) for c in inters)
        print(label, "DER bytes", der)


if __name__ == "__main__":
    main()
