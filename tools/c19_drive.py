import sys, time, json, collections, os
sys.path.insert(0, "/verif")
from sim.runner import derive_seed
import importlib
mod = importlib.import_module("checks.c19")
variant = sys.argv[1]; n = int(sys.argv[2]); start = int(sys.argv[3]) if len(sys.argv) > 3 else 0
sigs = collections.Counter(); first = {}
probes = collections.Counter(); fired = collections.Counter(); reasons = collections.Counter(); wr = collections.Counter()
t0 = time.time(); simt = 0; steps = 0; nontriv = 0
for i in range(start, start + n):
    seed = derive_seed(77, i)
    out = mod.run_one(seed, variant=variant)
    s = out.summary
    reasons[s["reason"]] += 1
    simt += s["sim_time"]; steps += s["steps"]; nontriv += out.nontrivial
    probes.update(s["probes"]); fired.update(s["fired"]); wr.update(s["waiter_results"])
    if out.violation:
        k = out.violation["oracle"] + "|" + out.violation["discriminator"]
        sigs[k] += 1
        first.setdefault(k, (seed, out.violation["message"]))
dt = time.time() - t0
print("variant", variant, "runs", n, "%.1f runs/s" % (n / dt), "nontrivial", nontriv, "sim_time", round(simt), "steps", steps)
print("reasons", dict(reasons))
print("fired", dict(fired))
print("probes", json.dumps(dict(sorted(probes.items())), indent=0))
print("waiters", dict(wr))
for k, c in sigs.most_common():
    print("VIOL", c, k, first[k])
