#!/venv/bin/python
"""One-off: self-signed (untrusted, correctly signed) Ed25519 certificates of several sizes, so that the
boundary between two datagrams of the server's first flight can fall between any two handshake messages
when max_datagram_size is swept (C03 bad_cert). Existing fixtures are not touched."""
import os
import sys

sys.path.insert(0, os.path.dirname(os.path.abspath(__file__)))
from cryptography.hazmat.primitives import serialization
from cryptography.hazmat.primitives.asymmetric import ed25519

from make_fixtures import OUT, make_cert, pem_cert, pem_key, write


def main():
    for n_san in (12, 16, 20, 24, 28):
        label = "bad_selfsigned_pad%d" % n_san
        if os.path.exists(os.path.join(OUT, label + ".pem")):
            continue
        k = ed25519.Ed25519PrivateKey.generate()
        sans = ["localhost"] + ["pad-%03d.selfsigned.verif.example" % i for i in range(n_san)]
        cert = make_cert("localhost", k, "localhost", k, sans=sans)
        write(label + ".pem", pem_cert(cert))
        write(label + ".key", pem_key(k))
        print(label, len(cert.public_bytes(serialization.Encoding.DER)))


if __name__ == "__main__":
    main()
