#!/venv/bin/python
"""One-off generator for /verif/fixtures (certificates and keys).

The output is committed; checks never regenerate it (fresh keys would change
every byte on the wire and break replay files).  Run again only on purpose.
"""
import datetime
import ipaddress
import os
import sys

from cryptography import x509
from cryptography.hazmat.primitives import hashes, serialization
from cryptography.hazmat.primitives.asymmetric import ec, ed448, ed25519, rsa
from cryptography.x509.oid import NameOID

OUT = os.path.join(os.path.dirname(os.path.dirname(os.path.abspath(__file__))), "fixtures")
T0 = datetime.datetime(2020, 1, 1, tzinfo=datetime.timezone.utc)
T1 = datetime.datetime(2040, 1, 1, tzinfo=datetime.timezone.utc)


def name(cn):
    return x509.Name([x509.NameAttribute(NameOID.COMMON_NAME, cn)])


def sign_alg(key):
    if isinstance(key, (ed25519.Ed25519PrivateKey, ed448.Ed448PrivateKey)):
        return None
    return hashes.SHA256()


def make_cert(subject_cn, key, issuer_cn, issuer_key, *, ca=False, sans=(), nvb=T0, nva=T1, pathlen=None):
    b = (
        x509.CertificateBuilder()
        .subject_name(name(subject_cn))
        .issuer_name(name(issuer_cn))
        .public_key(key.public_key())
        .serial_number(x509.random_serial_number())
        .not_valid_before(nvb)
        .not_valid_after(nva)
        .add_extension(x509.BasicConstraints(ca=ca, path_length=pathlen if ca else None), critical=True)
    )
    if sans:
        alt = []
        for s in sans:
            try:
                alt.append(x509.IPAddress(ipaddress.ip_address(s)))
            except ValueError:
                alt.append(x509.DNSName(s))
        b = b.add_extension(x509.SubjectAlternativeName(alt), critical=False)
    return b.sign(issuer_key, sign_alg(issuer_key))


def pem_key(key):
    return key.private_bytes(
        serialization.Encoding.PEM,
        serialization.PrivateFormat.PKCS8,
        serialization.NoEncryption(),
    )


def pem_cert(cert):
    return cert.public_bytes(serialization.Encoding.PEM)


def write(fn, data):
    with open(os.path.join(OUT, fn), "wb") as f:
        f.write(data)


def main():
    os.makedirs(OUT, exist_ok=True)
    ca_key = ec.generate_private_key(ec.SECP256R1())
    ca = make_cert("verif root CA", ca_key, "verif root CA", ca_key, ca=True)
    write("ca.pem", pem_cert(ca))
    write("ca.key", pem_key(ca_key))

    leaf_keys = {
        "ed25519": ed25519.Ed25519PrivateKey.generate(),
        "ed448": ed448.Ed448PrivateKey.generate(),
        "ec256": ec.generate_private_key(ec.SECP256R1()),
        "ec384": ec.generate_private_key(ec.SECP384R1()),
        "rsa2048": rsa.generate_private_key(public_exponent=65537, key_size=2048),
    }
    for kind, key in leaf_keys.items():
        cert = make_cert("localhost", key, "verif root CA", ca_key, sans=["localhost", "127.0.0.1"])
        write("server_%s.pem" % kind, pem_cert(cert))
        write("server_%s.key" % kind, pem_key(key))

    # chain: root -> int1 -> ... -> int5 -> leaf (ed25519 leaf)
    issuer_cn, issuer_key = "verif root CA", ca_key
    inters = []
    for i in range(1, 6):
        k = ec.generate_private_key(ec.SECP256R1())
        cn = "verif intermediate %d" % i
        c = make_cert(cn, k, issuer_cn, issuer_key, ca=True)
        inters.append((c, k, cn))
        issuer_cn, issuer_key = cn, k
    for depth in range(1, 6):
        c_i, k_i, cn_i = inters[depth - 1]
        lk = ed25519.Ed25519PrivateKey.generate()
        leaf = make_cert("localhost", lk, cn_i, k_i, sans=["localhost"])
        chain = [pem_cert(leaf)] + [pem_cert(c) for c, _, _ in reversed(inters[:depth])]
        write("chain%d.pem" % depth, b"".join(chain))
        write("chain%d.key" % depth, pem_key(lk))

    # bad certificates (all ed25519 leafs)
    k = ed25519.Ed25519PrivateKey.generate()
    write("bad_wrongname.pem", pem_cert(make_cert("other.example", k, "verif root CA", ca_key, sans=["other.example"])))
    write("bad_wrongname.key", pem_key(k))
    k = ed25519.Ed25519PrivateKey.generate()
    write("bad_expired.pem", pem_cert(make_cert("localhost", k, "verif root CA", ca_key, sans=["localhost"],
                                                 nvb=T0, nva=datetime.datetime(2021, 1, 1, tzinfo=datetime.timezone.utc))))
    write("bad_expired.key", pem_key(k))
    k = ed25519.Ed25519PrivateKey.generate()
    write("bad_notyet.pem", pem_cert(make_cert("localhost", k, "verif root CA", ca_key, sans=["localhost"],
                                                nvb=datetime.datetime(2039, 1, 1, tzinfo=datetime.timezone.utc), nva=T1)))
    write("bad_notyet.key", pem_key(k))
    k = ed25519.Ed25519PrivateKey.generate()
    write("bad_selfsigned.pem", pem_cert(make_cert("localhost", k, "localhost", k, sans=["localhost"])))
    write("bad_selfsigned.key", pem_key(k))
    # unknown CA
    uk = ec.generate_private_key(ec.SECP256R1())
    k = ed25519.Ed25519PrivateKey.generate()
    write("bad_unknownca.pem", pem_cert(make_cert("localhost", k, "rogue CA", uk, sans=["localhost"])))
    write("bad_unknownca.key", pem_key(k))
    # wrong key: a valid certificate, paired with a key that does not match it
    write("bad_wrongkey.pem", open(os.path.join(OUT, "server_ed25519.pem"), "rb").read())
    write("bad_wrongkey.key", pem_key(ed25519.Ed25519PrivateKey.generate()))
    # client certificate
    k = ed25519.Ed25519PrivateKey.generate()
    write("client.pem", pem_cert(make_cert("verif client", k, "verif root CA", ca_key, sans=["client.example"])))
    write("client.key", pem_key(k))
    # RSA key for retry token handler
    write("retry_rsa.key", pem_key(rsa.generate_private_key(public_exponent=65537, key_size=2048)))
    print("fixtures written to", OUT)


if __name__ == "__main__":
    if os.path.exists(os.path.join(OUT, "ca.pem")) and "--force" not in sys.argv:
        sys.exit("fixtures exist; use --force to regenerate")
    main()
