#!/venv/bin/python
"""Replay a file (or run a seed) with the full event trace printed."""
import json, os, sys, importlib
os.environ["VERIF_TRACE"] = "1"
sys.path.insert(0, os.path.dirname(os.path.dirname(os.path.abspath(__file__))))
from sim import transport
arg = sys.argv[1]
orig_run = transport.TransportSim.run
holder = {}
def run(self):
    holder["sim"] = self
    return orig_run(self)
transport.TransportSim.run = run
if arg.endswith(".json"):
    doc = json.load(open(arg))
    mod = importlib.import_module(doc["module"])
    out = mod.run_one(doc["seed"], tier=doc["tier"], variant=doc.get("variant"), replay=doc["choices"])
else:
    mod = importlib.import_module(sys.argv[2] if len(sys.argv) > 2 else "checks.c01")
    out = mod.run_one(int(arg), variant=sys.argv[3] if len(sys.argv) > 3 else None)
for l in holder["sim"].k.trace_lines:
    print(l)
print(out.violation)
