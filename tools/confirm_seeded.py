#!/usr/bin/env python3
"""Confirm a seeded defect produced by a sub-agent in its scratch worktree, evaluate our checks
against it and file it under /verif/seeded/<name>/.

    tools/confirm_seeded.py /tmp/wt/C09 C09-1 [--checks C09,C01] [--budget 30]

Confirms: (1) patch applies to the pristine worktree, (2) the existing test-suite passes with it,
(3) demo.py exits non-zero with the patch and 0 without. Then runs tools/eval_seeded.py.
"""
import json
import os
import shutil
import subprocess
import sys

VERIF = os.path.dirname(os.path.dirname(os.path.abspath(__file__)))


def sh(cmd, cwd=None, env=None, timeout=1800):
    r = subprocess.run(cmd, cwd=cwd, env=env, capture_output=True, text=True, timeout=timeout, shell=isinstance(cmd, str))
    return r.returncode, (r.stdout + r.stderr)


def main():
    wt, name = sys.argv[1], sys.argv[2]
    args = sys.argv[3:]
    checks = None
    budget = "30"
    if "--checks" in args:
        checks = args[args.index("--checks") + 1]
    if "--budget" in args:
        budget = args[args.index("--budget") + 1]
    src = os.path.join(wt, "seeded", name)
    patch = os.path.join(src, "patch.diff")
    demo = os.path.join(src, "demo.py")
    meta = json.load(open(os.path.join(src, "meta.json")))
    env = dict(os.environ, PYTHONPATH=os.path.join(wt, "src"))
    res = {}
    sh(["git", "-C", wt, "checkout", "--", "src", "tests"])
    rc, out = sh(["/venv/bin/python", demo], cwd=src, env=env, timeout=600)
    res["demo_passes_without_patch"] = rc == 0
    rc, out = sh(["git", "-C", wt, "apply", patch])
    res["patch_applies"] = rc == 0
    if rc != 0:
        print("patch does not apply:", out[-500:])
    else:
        if any(f.endswith(".c") for f in meta.get("files", [])):
            sh(["/venv/bin/python", "setup.py", "-q", "build_ext", "--inplace"], cwd=wt)
        rc, out = sh(["/venv/bin/python", "-m", "pytest", "-q", "-p", "no:cacheprovider", "-n", "8", "tests"], cwd=wt,
                     env=env)
        res["suite_passes_with_patch"] = rc == 0
        res["suite_tail"] = out.strip().splitlines()[-1] if out.strip() else ""
        rc, out = sh(["/venv/bin/python", demo], cwd=src, env=env, timeout=600)
        res["demo_fails_with_patch"] = rc != 0
        res["demo_output_tail"] = out.strip().splitlines()[-3:]
        sh(["git", "-C", wt, "checkout", "--", "src", "tests"])
        if any(f.endswith(".c") for f in meta.get("files", [])):
            sh(["/venv/bin/python", "setup.py", "-q", "build_ext", "--inplace"], cwd=wt)
    print("CONFIRM", name, json.dumps(res))
    ok = res.get("patch_applies") and res.get("suite_passes_with_patch") and res.get("demo_fails_with_patch") and \
        res.get("demo_passes_without_patch")
    if not ok:
        print("NOT-CONFIRMED", name)
        return 1
    # does it also apply to the current /repo head?
    rc, out = sh(["git", "-C", "/repo", "apply", "--check", patch])
    res["applies_to_repo_head"] = rc == 0
    dst = os.path.join(VERIF, "seeded", name)
    os.makedirs(dst, exist_ok=True)
    shutil.copy(patch, os.path.join(dst, "patch.diff"))
    shutil.copy(demo, os.path.join(dst, "demo.py"))
    cmd = [sys.executable, os.path.join(VERIF, "tools", "eval_seeded.py"), dst, "--budget", budget]
    cmd += ["--checks", checks or meta.get("property")]
    rc, out = sh(cmd, timeout=7200)
    print(out[-1800:])
    detected = {}
    for line in out.splitlines():
        if line.startswith("RESULT "):
            detected = json.loads(line[7:])["results"]
    meta["confirmed_by_verif"] = res
    meta["what_was_run"] = ("tools/confirm_seeded.py: patch applied in the sub-agent's scratch worktree, existing suite "
                            "(470 tests) run, demo run with and without the patch; then ./check <id> quick with "
                            "VERIF_REPO pointing at a patched copy of /repo (budget %s s)" % budget)
    meta["check_results"] = {k: ("DETECTED" if v == 1 else "missed" if v == 0 else "harness-error(%s)" % v)
                             for k, v in detected.items()}
    json.dump(meta, open(os.path.join(dst, "meta.json"), "w"), indent=1)
    print("FILED", name, meta["check_results"])
    return 0


if __name__ == "__main__":
    sys.exit(main())
